//go:build !js

package webrtc

import (
	"fmt"
	"hash/fnv"
	"math/big"
	"strings"
	"sync"
	"testing"
	"time"

	"github.com/pion/interceptor"
	"github.com/pion/rtp"
	kit "github.com/pion/webrtc/v4/internal/verifkit"
	"github.com/pion/webrtc/v4/pkg/media"
)

// C28 — sample-based tracks timestamp and sequence RTP without drift.
//
// Rig: one TrackLocalStaticSample bound to fake TrackLocalContexts whose writers record
// (sequence number, timestamp, marker, payload length) of every packet. WriteSample is synchronous,
// so the packets recorded during one call are the packets of that sample. The set of bound writers follows a
// generated binding history (c28_bindings_test.go): further Binds, Unbinds, re-Binds and periods with no writer
// at all are interleaved with the samples; every writer bound while a sample is written is judged.
//
// Oracle (independent of the implementation's float64 remainder arithmetic): the timeline is kept as an
// exact rational number of ticks, total = Σ dur_ns·rate/1e9 (math/big), and the sequence counter as a
// plain uint16.
//   * all packets of one sample carry one timestamp;
//   * that timestamp is ts0 + floor(total before the sample) (mod 2^32) within one tick; "before the sample"
//     includes, for a sample reporting N dropped packets, N times the sample's own duration (the only
//     duration the sample carries for the lost packets — "the corresponding duration");
//   * sequence numbers: +1 per packet (mod 2^16), after first skipping N for a sample reporting N drops;
//   * every writer bound during a sample observes that same numbering (the statement is per bound writer and the
//     expected numbering does not depend on the writer). Samples written while no writer is bound still belong to
//     "earlier samples" for the timeline; how many packets they produced cannot be observed, so the sequence
//     counter is re-synchronised at the next observed packet (timestamps stay judged across the gap).

type c28Pkt struct {
	seq    uint16
	ts     uint32
	marker bool
	plen   int
}

type c28Writer struct {
	mu   sync.Mutex
	pkts []c28Pkt
}

func (w *c28Writer) WriteRTP(h *rtp.Header, payload []byte) (int, error) {
	w.mu.Lock()
	w.pkts = append(w.pkts, c28Pkt{seq: h.SequenceNumber, ts: h.Timestamp, marker: h.Marker, plen: len(payload)})
	w.mu.Unlock()

	return len(payload), nil
}

func (w *c28Writer) Write(b []byte) (int, error) { return len(b), nil }

type c28Ctx struct {
	id     string
	codecs []RTPCodecParameters
	ssrc   SSRC
	w      *c28Writer
}

func (c *c28Ctx) CodecParameters() []RTPCodecParameters           { return c.codecs }
func (c *c28Ctx) HeaderExtensions() []RTPHeaderExtensionParameter { return nil }
func (c *c28Ctx) SSRC() SSRC                                      { return c.ssrc }
func (c *c28Ctx) SSRCRetransmission() SSRC                        { return 0 }
func (c *c28Ctx) SSRCForwardErrorCorrection() SSRC                { return 0 }
func (c *c28Ctx) WriteStream() TrackLocalWriter                   { return c.w }
func (c *c28Ctx) ID() string                                      { return c.id }
func (c *c28Ctx) RTCPReader() interceptor.RTCPReader              { return nil }

// c28Chunker is a content-independent payloader: ceil(len/mtu) packets.
type c28Chunker struct{}

func (c28Chunker) Payload(mtu uint16, payload []byte) [][]byte {
	var out [][]byte
	for len(payload) > 0 {
		n := int(mtu)
		if n > len(payload) {
			n = len(payload)
		}
		out = append(out, payload[:n])
		payload = payload[n:]
	}

	return out
}

type c28Sample struct {
	DurNs int64  `json:"dur_ns"`
	Size  int    `json:"size"`
	Drop  uint16 `json:"drop"`
}

func c28DefaultCodecs(t *testing.T) []RTPCodecParameters {
	t.Helper()
	m := &MediaEngine{}
	if err := m.RegisterDefaultCodecs(); err != nil {
		t.Fatalf("RegisterDefaultCodecs: %v", err)
	}
	var out []RTPCodecParameters
	for _, k := range []RTPCodecType{RTPCodecTypeAudio, RTPCodecTypeVideo} {
		for _, c := range m.getCodecsByKind(k) {
			if _, err := payloaderForCodec(c.RTPCodecCapability); err != nil {
				continue // rtx / fec: cannot be packetized
			}
			out = append(out, c)
		}
	}

	return out
}

// c28Duration draws one duration (ns) from the classes named in the design.
func c28Duration(r *kit.Rand, rate uint32) int64 {
	switch r.Intn(16) {
	case 0:
		return 1_000_000_000 / 30 // 33333333 ns: 2999.99997 ticks at 90 kHz
	case 1:
		return kit.Pick(r, []int64{1_000_000_000 / 60, 1_000_000_000 / 24, 33366700, 1_000_000_000 / 25, 1_000_000_000 / 15, 1_000_000_000 / 7})
	case 2:
		return 20_000_000 + int64(r.Range(-3, 3))
	case 3:
		return 20_000_000 + int64(r.Range(-1000, 1000))
	case 4:
		return 1
	case 5:
		return 0
	case 6:
		return kit.Pick(r, []int64{10_000_000, 2_500_000, 5_000_000, 60_000_000, 120_000_000})
	case 7:
		return int64(r.Range(0, 100_000_000))
	case 8:
		return int64(r.Range(1, 10)) * 1_000_000_000 // long frames (slide shows)
	case 9:
		// k ticks rounded down to ns: a hair under an integral number of ticks
		k := int64(r.Range(1, 4000))

		return k * 1_000_000_000 / int64(rate)
	case 10:
		k := int64(r.Range(1, 4000))

		return k*1_000_000_000/int64(rate) + 1
	case 11:
		return int64(r.Range(1, 999)) // sub-microsecond
	case 12:
		return 1_000_000_000/int64(rate)/2 + int64(r.Range(0, 3)) // about half a tick
	default:
		return 1_000_000_000 / 30
	}
}

func c28Gen(r *kit.Rand, rate uint32, n int) []c28Sample {
	dominant := c28Duration(r, rate)
	pDom := kit.Pick(r, []float64{0, 0.5, 0.9, 0.98, 1})
	pDrop := kit.Pick(r, []float64{0, 0.01, 0.05, 0.3})
	pEmpty := kit.Pick(r, []float64{0, 0, 0.02, 0.1})
	out := make([]c28Sample, n)
	for k := range out {
		d := dominant
		if !r.Chance(pDom) {
			d = c28Duration(r, rate)
		}
		s := c28Sample{DurNs: d}
		switch {
		case r.Chance(pEmpty):
			s.Size = 0
		case r.Chance(0.3):
			s.Size = r.Range(1, 1400) // around one MTU
		default:
			s.Size = r.Range(1, 5*outboundMTU)
		}
		if r.Chance(pDrop) {
			// keep one step (skip + sample) below 2^32 ticks: beyond that the float64→uint32 conversion is
			// platform-defined in Go, and 13 h of media in one step at 90 kHz is outside the statement's "durations"
			s.Drop = c28DrawDrop(r, d, rate)
		}
		out[k] = s
	}

	return out
}

func c28Head(p []c28Pkt) string {
	if len(p) > 6 {
		return fmt.Sprint(p[:6]) + "..."
	}

	return fmt.Sprint(p)
}

func c28Hash(samples []c28Sample) string {
	h := fnv.New64a()
	for _, s := range samples {
		fmt.Fprintf(h, "%d/%d/%d;", s.DurNs, s.Size, s.Drop)
	}

	return fmt.Sprintf("%016x", h.Sum64())
}

func TestVerifC28(t *testing.T) { //nolint:gocyclo,cyclop,maintidx
	run := kit.Start(t, "C28", "seeded sample sequences (50..5000 samples quick, up to 100000 thorough) written to a TrackLocalStaticSample bound to recording "+
		"writers that follow a generated binding history (30% one binding for the whole sequence; otherwise 1..20 Bind/Unbind/re-Bind operations at random sample "+
		"positions, up to 4 writers at once, possibly none for a while; drops injected shortly after a Bind in 60% of those), cycling through every default codec that has a payloader (clock rates 8000/48000/90000), real codec payloader or a content-independent chunker; "+
		"durations from fractional-tick classes (1/30 s, 20 ms ± ns, 1 ns, 0, k ticks ± 1 ns, random, seconds), sizes 0 and 1..5 MTU, random PrevDroppedPackets; "+
		"a sequence is non-trivial when it contains a sample split into ≥ 2 packets AND a duration that is not a whole number of ticks; distinct by codec+origin+hash of the sample list+hash of the binding history")
	defer run.Finish()

	run.Assume("a single step (sample duration, or PrevDroppedPackets × duration) stays below 2^32 ticks: beyond that the code's float64→uint32 conversion is " +
		"platform-defined in Go (wraps mod 2^32 on amd64, probed); non-negative durations only")
	codecs := c28DefaultCodecs(t)
	if len(codecs) < 5 {
		t.Fatalf("only %d default codecs with a payloader", len(codecs))
	}
	for _, c := range codecs {
		run.Seen("codec_clock", fmt.Sprintf("%s/%d", strings.ToLower(c.MimeType), c.ClockRate))
	}

	byClass := map[string][]RTPCodecParameters{}
	var classes []string
	for _, c := range codecs {
		k := fmt.Sprintf("%s/%d", strings.ToLower(c.MimeType), c.ClockRate)
		if byClass[k] == nil {
			classes = append(classes, k)
		}
		byClass[k] = append(byClass[k], c)
	}

	n := kit.N(1500, 30000)
	noise := kit.NewRand(kit.Seed(), 0xC28).Bytes(16384)
	mod32 := new(big.Int).Lsh(big.NewInt(1), 32)
	den := big.NewInt(1e9)

	run.Parallel(n, 12, func(i int) {
		r := run.CaseRand(i)
		// cycle through the distinct (mime, clock rate) classes; pick among the registered variants (fmtp/PT) of that class
		class := classes[i%len(classes)]
		codec := kit.Pick(r, byClass[class])
		rate := codec.ClockRate

		var nSamples int
		switch {
		case kit.Tier() == "thorough" && i%500 == 499:
			nSamples = 100000
		case r.Chance(0.15):
			nSamples = r.Range(2000, 5000)
		case r.Chance(0.4):
			nSamples = r.Range(300, 2000)
		default:
			nSamples = r.Range(50, 300)
		}
		samples := c28Gen(r, rate, nSamples)
		history, histClass := c28GenHistory(r, nSamples)
		c28DropsAfterBindingChange(r, rate, samples, history)

		fixedTS, fixedSeq := !r.Chance(0.1), !r.Chance(0.1)
		var ts0 uint32
		var seq0 uint16
		switch r.Intn(4) {
		case 0:
			ts0 = ^uint32(0) - uint32(r.Range(0, 200000)) // wraps 2^32 early
		case 1:
			ts0 = 0
		default:
			ts0 = r.Uint32()
		}
		switch r.Intn(4) {
		case 0:
			seq0 = uint16(65535 - r.Range(0, 300)) // wraps 2^16 early
		case 1:
			seq0 = 0
		default:
			seq0 = uint16(r.Range(0, 65535))
		}
		useChunker := r.Chance(0.4)
		var opts []func(*TrackLocalStaticRTP)
		if fixedTS {
			opts = append(opts, WithRTPTimestamp(ts0))
		}
		if fixedSeq {
			opts = append(opts, WithRTPSequenceNumber(seq0))
		}
		if useChunker {
			opts = append(opts, WithPayloader(func(RTPCodecCapability) (rtp.Payloader, error) { return c28Chunker{}, nil }))
		}

		desc := fmt.Sprintf("%s/%d pt=%d n=%d ts0=%d(%v) seq0=%d(%v) chunker=%v samples=%s bindings=%s", strings.ToLower(codec.MimeType), rate, codec.PayloadType,
			nSamples, ts0, fixedTS, seq0, fixedSeq, useChunker, c28Hash(samples), c28HistHash(history))
		detail := func(k int, extra map[string]any) map[string]any {
			lo := k - 3
			if lo < 0 {
				lo = 0
			}
			hi := k + 2
			if hi > len(samples) {
				hi = len(samples)
			}
			d := map[string]any{
				"codec": codec.MimeType, "clock_rate": rate, "fmtp": codec.SDPFmtpLine, "n_samples": nSamples, "fixed_ts": fixedTS, "ts0": ts0,
				"fixed_seq": fixedSeq, "seq0": seq0, "chunker": useChunker, "failing_sample_index": k,
				"samples_around": samples[lo:hi], "samples_around_first_index": lo, "binding_history_class": histClass,
			}
			var done []c28Op
			for _, op := range history {
				if op.At <= k {
					done = append(done, op)
				}
			}
			d["binding_ops_before_failure"] = done
			if k < 400 {
				d["samples_prefix"] = samples[:k+1]
			}
			for kk, v := range extra {
				d[kk] = v
			}

			return d
		}

		track, err := NewTrackLocalStaticSample(codec.RTPCodecCapability, "c28", "c28s", opts...)
		if err != nil {
			run.Inconclusive("new-track-error")

			return
		}
		// bound contexts in Bind order; slot = index into the history's numbering
		type boundCtx struct {
			slot int
			ctx  *c28Ctx
		}
		var bound []boundCtx
		binds, unbinds, maxBound := 0, 0, 0
		bind := func(slot int) bool {
			ctx := &c28Ctx{id: fmt.Sprintf("c28-%d-%d", i, slot), codecs: codecs, ssrc: SSRC(r.Uint32() | 1), w: &c28Writer{}}
			if _, err := track.Bind(ctx); err != nil {
				run.Violation("bind-error:"+strings.ToLower(codec.MimeType), fmt.Sprintf("Bind #%d of default codec failed: %v (%s)", binds+1, err, desc), i, detail(0, nil))

				return false
			}
			binds++
			bound = append(bound, boundCtx{slot, ctx})
			if len(bound) > maxBound {
				maxBound = len(bound)
			}

			return true
		}
		unbind := func(slot int) bool {
			for k := range bound {
				if bound[k].slot != slot {
					continue
				}
				if err := track.Unbind(bound[k].ctx); err != nil {
					run.Violation("unbind-error", fmt.Sprintf("Unbind of a bound context failed: %v (%s)", err, desc), i, detail(0, nil))

					return false
				}
				unbinds++
				bound = append(bound[:k], bound[k+1:]...)

				return true
			}

			return true
		}
		if !bind(0) {
			run.Case(desc, false)

			return
		}

		// model
		total := new(big.Int) // Σ dur_ns·rate, denominator 1e9
		tsKnown, seqKnown := fixedTS, fixedSeq
		tsOrigin := ts0 // timestamp at total = 0
		nextSeq := seq0 // next sequence number to be used
		var multi, fractional, anyDrop, anyEmpty, wrapTS, wrapSeq bool
		var dropSinceObs, emptySinceObs bool // what happened since the last sample whose packets were observed
		var packets, zeroPktSamples, maxAbsDiff, unboundSamples, dropsAfterRebind, dropsMultiWriter int
		failed := false
		nextOp := 0
		// hist qualifies a cause signature with the binding state the track is in
		hist := func() string {
			if binds > 1 {
				return ":after-rebind"
			}

			return ""
		}
		tmp := new(big.Int)
		flo := new(big.Int)

		for k, s := range samples {
			if s.DurNs != 0 && new(big.Int).Mod(tmp.Mul(big.NewInt(s.DurNs), big.NewInt(int64(rate))), den).Sign() != 0 {
				fractional = true
			}
			off := r.Intn(len(noise) - s.Size)
			sm := media.Sample{
				Data: noise[off : off+s.Size], Duration: time.Duration(s.DurNs), PrevDroppedPackets: s.Drop,
				Timestamp: time.Unix(int64(r.Intn(1<<30)), 0), PacketTimestamp: r.Uint32(), // must be ignored for the RTP timeline
			}
			if s.Size == 0 {
				anyEmpty = true
				if r.Bool() {
					sm.Data = nil
				}
			}
			// binding operations scheduled before this sample
			for nextOp < len(history) && history[nextOp].At <= k && !failed {
				op := history[nextOp]
				nextOp++
				switch op.Kind {
				case "bind":
					failed = !bind(op.Slot)
				case "unbind":
					failed = !unbind(op.Slot)
				case "rebind":
					failed = !unbind(op.Slot) || !bind(op.Slot)
				}
			}
			if failed {
				break
			}
			for _, b := range bound {
				b.ctx.w.mu.Lock()
				b.ctx.w.pkts = b.ctx.w.pkts[:0]
				b.ctx.w.mu.Unlock()
			}
			if err := track.WriteSample(sm); err != nil {
				run.Violation("write-sample-error", fmt.Sprintf("WriteSample returned %v at sample %d (%s)", err, k, desc), i, detail(k, nil))
				failed = true

				break
			}
			observed := len(bound) > 0
			var got []c28Pkt
			if observed {
				// every bound writer must have seen the same packets; judge the longest record against the model
				ref := 0
				for bi := range bound {
					if len(bound[bi].ctx.w.pkts) > len(bound[ref].ctx.w.pkts) {
						ref = bi
					}
				}
				got = bound[ref].ctx.w.pkts
				for bi := range bound {
					other := bound[bi].ctx.w.pkts
					same := len(other) == len(got)
					for j := 0; same && j < len(got); j++ {
						same = other[j].seq == got[j].seq && other[j].ts == got[j].ts
					}
					if !same && !failed {
						run.Violation("bound-writers-disagree", fmt.Sprintf("sample %d: writer of binding slot %d observed %d packets %v, writer of slot %d observed %d packets %v (%s)",
							k, bound[ref].slot, len(got), c28Head(got), bound[bi].slot, len(other), c28Head(other), desc), i, detail(k, nil))
						failed = true
					}
				}
				if s.Drop > 0 && binds > 1 {
					dropsAfterRebind++
				}
				if s.Drop > 0 && len(bound) > 1 {
					dropsMultiWriter++
				}
			} else {
				unboundSamples++
			}
			packets += len(got)
			if len(got) >= 2 {
				multi = true
			}
			if observed && len(got) == 0 {
				zeroPktSamples++
			}

			// model: skipped packets come first
			if s.Drop > 0 {
				anyDrop = true
				dropSinceObs = true
				total.Add(total, tmp.Mul(big.NewInt(s.DurNs), big.NewInt(int64(rate)*int64(s.Drop))))
				if seqKnown {
					if int(nextSeq)+int(s.Drop) > 65535 {
						wrapSeq = true
					}
					nextSeq += s.Drop
				}
			}
			// exact expectation for this sample: floor(total/1e9) (exact rational arithmetic)
			exact := new(big.Rat).SetFrac(total, den)
			flo.Quo(exact.Num(), exact.Denom())
			expOff := uint32(tmp.Mod(flo, mod32).Uint64())

			if len(got) > 0 {
				// (1) one timestamp per sample
				for j := 1; j < len(got); j++ {
					if got[j].ts != got[0].ts {
						run.Violation("ts-differs-within-sample", fmt.Sprintf("sample %d: packet 0 has ts %d, packet %d has ts %d (%s)", k, got[0].ts, j, got[j].ts, desc),
							i, detail(k, map[string]any{"observed": fmt.Sprint(got)}))
						failed = true

						break
					}
				}
				// (2) timestamp on the exact timeline, within one tick
				if !tsKnown {
					tsOrigin = got[0].ts - expOff // first observable packet fixes the (random) origin
					tsKnown = true
				}
				want := tsOrigin + expOff
				if want < tsOrigin {
					wrapTS = true
				}
				diff := int64(int32(got[0].ts - want))
				ad := int(diff)
				if ad < 0 {
					ad = -ad
				}
				if ad > maxAbsDiff {
					maxAbsDiff = ad
				}
				if ad > 1 && !failed {
					cause := "accumulation"
					switch {
					case dropSinceObs:
						cause = "drop-skip"
					case emptySinceObs:
						cause = "after-packetless-sample"
					case k == 0:
						cause = "initial"
					}
					run.Violation("ts-off:"+cause+hist(), fmt.Sprintf("sample %d: observed ts %d, exact timeline says %d (origin %d + floor(%s ticks)), off by %d ticks (%s)",
						k, got[0].ts, want, tsOrigin, exact.FloatString(6), diff, desc), i,
						detail(k, map[string]any{"observed_ts": got[0].ts, "expected_ts": want, "exact_ticks": exact.FloatString(9), "diff": diff}))
					failed = true
				}
				// (3) sequence numbers
				if !seqKnown {
					nextSeq = got[0].seq
					seqKnown = true
				}
				for j := range got {
					if got[j].seq != nextSeq && !failed {
						cause := "seq-step-within-sample"
						if j == 0 && dropSinceObs {
							cause = "seq-drop-skip"
						} else if j == 0 {
							cause = "seq-step-between-samples"
						}
						run.Violation(cause+hist(), fmt.Sprintf("sample %d packet %d: observed seq %d, expected %d (drop=%d, %d Bind calls so far, %d writers bound) (%s)",
							k, j, got[j].seq, nextSeq, s.Drop, binds, len(bound), desc),
							i, detail(k, map[string]any{"observed": fmt.Sprint(got), "expected_seq": nextSeq, "packet": j, "binds_so_far": binds, "writers_bound": len(bound)}))
						failed = true
					}
					if nextSeq == 65535 {
						wrapSeq = true
					}
					nextSeq++
				}
			}
			switch {
			case len(got) > 0:
				dropSinceObs, emptySinceObs = false, false
			case observed:
				emptySinceObs = true
			default:
				// nobody saw how many packets this sample produced: the sequence counter is re-synchronised at the
				// next observed packet; the timeline (total) keeps running
				seqKnown = false
				emptySinceObs = true
			}
			// the sample's own duration follows it
			total.Add(total, tmp.Mul(big.NewInt(s.DurNs), big.NewInt(int64(rate))))
			if failed {
				break
			}
		}
		for len(bound) > 0 && !failed {
			if !unbind(bound[0].slot) {
				break
			}
		}

		run.Case(desc, multi && fractional)
		run.Seen("binding_history_class", histClass)
		run.Seen("max_writers_bound_at_once", fmt.Sprint(maxBound))
		run.Count("bind_calls", binds)
		run.Count("unbind_calls", unbinds)
		run.Count("samples_written_while_no_writer_bound", unboundSamples)
		run.Count("drop_samples_judged_after_a_second_bind", dropsAfterRebind)
		run.Count("drop_samples_judged_with_several_writers_bound", dropsMultiWriter)
		if dropsAfterRebind > 0 {
			run.Count("sequences_with_drop_after_a_second_bind", 1)
		}
		run.Count("samples_written", len(samples))
		run.Count("packets_observed", packets)
		run.Count("samples_yielding_no_packet", zeroPktSamples)
		if anyDrop {
			run.Count("sequences_with_dropped_packets", 1)
		}
		if anyEmpty {
			run.Count("sequences_with_empty_samples", 1)
		}
		if wrapTS {
			run.Count("sequences_wrapping_2^32", 1)
		}
		if wrapSeq {
			run.Count("sequences_wrapping_2^16", 1)
		}
		if !fixedTS || !fixedSeq {
			run.Count("sequences_with_random_origin", 1)
		}
		if useChunker {
			run.Count("sequences_with_chunker_payloader", 1)
		}
		run.Seen("max_abs_tick_error", fmt.Sprint(maxAbsDiff))
		run.Seen("codec_used", fmt.Sprintf("%s/%d", strings.ToLower(codec.MimeType), rate))
		switch {
		case nSamples >= 100000:
			run.Seen("length_class", "100000")
		case nSamples >= 2000:
			run.Seen("length_class", "2000-5000")
		case nSamples >= 300:
			run.Seen("length_class", "300-1999")
		default:
			run.Seen("length_class", "50-299")
		}
		if i < 40 && multi && fractional {
			run.Sample(map[string]any{
				"codec": codec.MimeType, "clock_rate": rate, "samples": nSamples, "packets": packets, "ts0": ts0, "seq0": seq0,
				"first_samples": samples[:4], "final_exact_ticks": new(big.Rat).SetFrac(total, den).FloatString(3), "max_abs_tick_error": maxAbsDiff,
			})
		}
	})
}
