package webrtc

import (
	"errors"
	"fmt"
	"runtime"
	"sort"
	"strings"
	"sync"
	"sync/atomic"
	"testing"
	"time"

	"github.com/pion/rtp"
	kit "github.com/pion/webrtc/v4/internal/verifkit"
	"github.com/pion/webrtc/v4/pkg/rtcerr"
)

// C21 — Close is idempotent, concurrency-safe and final.
// Workload: 1–4 concurrent Close/GracefulClose calls (barrier start) on one or both peers at five points of connection
// setup, yield points perturbed; afterwards every negotiation-changing call. Oracles: all closers return; signaling and
// connection state are closed and stay closed; mutating calls return *rtcerr.InvalidStateError; the recorded
// OnConnectionStateChange sequence has nothing after the first closed; after GracefulClose returned on both peers no
// goroutine running pion code is left (bounded settle); no GracefulClose call returns while an invocation of one of the
// user's event handlers (any kind, see c21_handlers_test.go) is still in flight on a goroutine the connection started.
// A second block of cases adds the history dimension "the application stopped some sub-objects itself before the
// closers start" (c21_appops_test.go).

type c21Rec struct {
	mu   sync.Mutex
	seen []PeerConnectionState
	slow *kit.Rand // when set: a handler invocation for a non-closed state may be descheduled at entry
}

func (r *c21Rec) handler(s PeerConnectionState) {
	// A handler runs on its own goroutine; being descheduled right at its entry is a legal schedule. It is modelled
	// here by a short seeded sleep before the handler "reports" (records) the state.
	if s != PeerConnectionStateClosed {
		r.mu.Lock()
		var d time.Duration
		if r.slow != nil && r.slow.Chance(0.5) {
			d = time.Duration(r.slow.Intn(3000)) * time.Microsecond
		}
		r.mu.Unlock()
		time.Sleep(d)
	}
	r.mu.Lock()
	r.seen = append(r.seen, s)
	r.mu.Unlock()
}

func (r *c21Rec) snapshot() []PeerConnectionState {
	r.mu.Lock()
	defer r.mu.Unlock()

	return append([]PeerConnectionState{}, r.seen...)
}

// c21Gate makes the connection's ICE-state handler (user code running on a goroutine the connection started) block
// from the moment the closers start until the gate opens: a GracefulClose that returns while such an invocation is
// still in flight has returned although "a goroutine started by the connection is still running".
type c21Gate struct {
	closing  atomic.Bool
	inflight atomic.Int32
	blocked  atomic.Int32
	open     chan struct{}
}

func (g *c21Gate) handler(ICEConnectionState) {
	if !g.closing.Load() {
		return
	}
	g.inflight.Add(1)
	g.blocked.Add(1)
	<-g.open
	g.inflight.Add(-1)
}

// c21PionGoroutines returns the stacks of goroutines that are running pion code and do not belong to the harness.
func c21PionGoroutines() []string {
	buf := make([]byte, 8<<20)
	n := runtime.Stack(buf, true)
	var out []string
	for _, g := range strings.Split(string(buf[:n]), "\n\n") {
		if !strings.Contains(g, "github.com/pion/") {
			continue
		}
		if strings.Contains(g, "/vf_c21") || strings.Contains(g, "TestVerifC21") || strings.Contains(g, "internal/verifkit") {
			continue
		}
		out = append(out, g)
	}

	return out
}

func c21TopFrame(stack string) string {
	lines := strings.Split(stack, "\n")
	for _, ln := range lines[1:] {
		if strings.HasPrefix(ln, "github.com/pion/") {
			if i := strings.Index(ln, "("); i > 0 {
				return ln[:i]
			}

			return ln
		}
	}
	if len(lines) > 1 {
		return lines[1]
	}

	return "?"
}

func TestVerifC21(t *testing.T) { //nolint:cyclop,gocognit,maintidx
	run := kit.Start(t, "C21", "close point {before-sdp, after-setlocal, during-ice, connected-idle, during-transfer} × 1–4 concurrent closers drawn from "+
		"{Close, GracefulClose} on one or both peers (barrier start, seeded yields, handler goroutines descheduled at entry) followed by every mutating call; "+
		"every event handler of the connection, its transports and its 1-3 data channels registered, a random subset of handler kinds slow (held from close start "+
		"until a gate opens); transfer = RTP plus data-channel messages in a random direction set {a>b, b>a, both} with random sizes, close issued at once or when a "+
		"message handler is busy; second block of cases: before the closers start (slow handlers already held) the application itself issues a random set of "+
		"operations on the sub-objects {DataChannel.Close, DataChannel.GracefulClose, RTPTransceiver.Stop, RTPSender.Stop, RemoveTrack, ReplaceTrack(nil)} of either peer; "+
		"non-trivial = ≥2 closers or a close during ice/transfer; distinct by (point, closer mix, observed handler sequence)")
	defer run.Finish()
	sched := kit.NewSched(kit.Seed())
	defer sched.Uninstall()
	points := []string{"before-sdp", "after-setlocal", "during-ice", "connected-idle", "during-transfer"}
	mixes := [][]string{
		{"Close"}, {"GracefulClose"}, {"Close", "Close"}, {"Close", "GracefulClose"}, {"GracefulClose", "GracefulClose"},
		{"Close", "GracefulClose", "Close"}, {"GracefulClose", "Close", "GracefulClose", "Close"}, {"Close", "Close", "Close", "Close"},
	}
	seedsPer := kit.N(3, 40)
	type cse struct {
		point string
		mix   []string
		rep   int
		pre   bool // history class: application-level operations on sub-objects before the closers start
	}
	var cases []cse
	for rep := 0; rep < seedsPer; rep++ {
		for _, p := range points {
			for _, m := range mixes {
				cases = append(cases, cse{p, m, rep, false})
			}
		}
	}
	// second block (appended: the cases above keep their indices): same points and closer mixes, connected points
	// weighted, with application-level operations on the sub-objects before the closers start
	preSlots := []string{"before-sdp", "after-setlocal", "during-ice", "connected-idle", "connected-idle", "during-transfer", "during-transfer", "during-transfer"}
	for rep := 0; rep < kit.N(1, 10); rep++ {
		for slot, p := range preSlots {
			for _, m := range mixes {
				cases = append(cases, cse{p, m, rep + slot, true})
			}
		}
	}
	run.Set("cases_enumerated", len(cases))
	const wd = 20 * time.Second
	baseline := len(c21PionGoroutines())
	run.Set("pion_goroutines_before_first_case", baseline)

	for i, c := range cases {
		if !run.Want(i) {
			continue
		}
		r := run.CaseRand(i)
		recA, recB := &c21Rec{slow: kit.NewRand(kit.Seed(), uint64(i)*2+1)}, &c21Rec{slow: kit.NewRand(kit.Seed(), uint64(i)*2+2)}
		a, b := rigMustPC(rigOpts{Interceptors: r.Bool()}), rigMustPC(rigOpts{Interceptors: r.Bool()})
		gateA, gateB := &c21Gate{open: make(chan struct{})}, &c21Gate{open: make(chan struct{})}
		useGate := c.rep%2 == 0
		if useGate {
			a.OnICEConnectionStateChange(gateA.handler)
			b.OnICEConnectionStateChange(gateB.handler)
		}
		gateOf := map[*PeerConnection]*c21Gate{a: gateA, b: gateB}
		var gateViol atomic.Int32
		// slow-handler class: which handler kinds are held during the close, per peer (own random stream: the draws
		// above stay what they were)
		hr := kit.NewRand(kit.Seed(), 1<<40+uint64(i))
		gatedDesc := map[string]string{}
		mkHooks := func(name string) *c21Hooks {
			gated := map[string]bool{}
			var names []string
			for _, k := range c21HandlerKinds {
				if hr.Chance(0.6) {
					gated[k] = true
					names = append(names, k)
				}
			}
			gatedDesc[name] = strings.Join(names, ",")

			return newC21Hooks(gated)
		}
		hooksA, hooksB := mkHooks("a"), mkHooks("b")
		hooksOf := map[*PeerConnection]*c21Hooks{a: hooksA, b: hooksB}
		lowThreshold := uint64(hr.Intn(4096))
		hooksA.install(a, lowThreshold)
		hooksB.install(b, lowThreshold)
		a.OnConnectionStateChange(func(s PeerConnectionState) { recA.handler(s); hooksA.enter("pc.OnConnectionStateChange") })
		b.OnConnectionStateChange(func(s PeerConnectionState) { recB.handler(s); hooksB.enter("pc.OnConnectionStateChange") })
		var hookViolMu sync.Mutex
		hookViol := map[string]string{}   // signature -> first observation
		hookStacks := map[string]string{} // signature -> stack of the held invocation when it entered the handler
		appHistory := map[any]string{}    // sub-object -> operation the application issued on it before the closers started
		judgeHooks := func(pc *PeerConnection, peer, phase string) {
			for _, f := range hooksOf[pc].inflightNow() {
				k := f.key
				parts := strings.SplitN(k, ":", 2) // handler kind, function that started the goroutine
				histories := []string{""}
				if f.worker {
					// The handler was called from a loop of the connection (a read loop, the operations queue), not from a
					// goroutine created for this one dispatch: whether GracefulClose waits for that loop can depend on what the
					// application did to the loop's sub-object before — that history is part of the cause.
					// One signature per operation class: each is a history after which the loop was not awaited ("" = the
					// application had not touched the sub-object).
					seen := map[string]bool{}
					var hs []string
					for _, o := range f.objs {
						if h := appHistory[o]; !seen[h] {
							seen[h] = true
							hs = append(hs, h)
						}
					}
					sort.Strings(hs)
					if len(hs) > 0 {
						histories = hs
					}
				}
				for _, history := range histories {
					sig := "gracefulclose-returned-while-handler-running:" + k
					if strings.HasPrefix(parts[1], "ice.") {
						// The goroutine is one of the ICE agent's: whichever ICE handler it is running, the cause is the one
						// the ICE-connection-state gate reports (the agent's goroutines were not waited for), so it gets that
						// signature: what a GracefulClose can wait for depends on the setup point and on an earlier plain Close.
						sig = "gracefulclose-returned-while-ice-handler-running:"
						if strings.HasPrefix(phase, "after") {
							sig += "after-close:"
						}
						sig += c.point
					} else if history != "" {
						sig += ":after-app-" + history
					}
					hookViolMu.Lock()
					if _, ok := hookViol[sig]; !ok {
						hookViol[sig] = fmt.Sprintf("peer %s, %s: an invocation of the %s handler had not returned; it runs on a goroutine the connection started in %s",
							peer, phase, parts[0], parts[1])
						if history != "" {
							hookViol[sig] += "; before the closers started the application had called " + history + " on the handler's data channel"
						}
						hookStacks[sig] = firstN(f.stack, 3000)
					}
					hookViolMu.Unlock()
				}
			}
		}
		peerName := map[*PeerConnection]string{a: "a", b: "b"}
		track, err := NewTrackLocalStaticRTP(RTPCodecCapability{MimeType: MimeTypeVP8}, "v", "s")
		if err != nil {
			t.Fatal(err)
		}
		sender, err := a.AddTrack(track)
		if err != nil {
			t.Fatal(err)
		}
		nChannels := 1 + hr.Intn(3)
		for k := 0; k < nChannels; k++ {
			var init *DataChannelInit
			if hr.Chance(0.3) {
				ordered, rtx := false, uint16(hr.Intn(3))
				init = &DataChannelInit{Ordered: &ordered, MaxRetransmits: &rtx}
			}
			d, e := a.CreateDataChannel(fmt.Sprintf("c21-%d", k), init)
			if e != nil {
				t.Fatal(e)
			}
			hooksA.adoptChannel(d, lowThreshold)
		}
		direction := kit.Pick(hr, []string{"a>b", "b>a", "both"})
		waitBusy := hr.Bool()
		maxMsg := kit.Pick(hr, []int{1, 64, 1200, 9000})
		label := fmt.Sprintf("%s|%s", c.point, strings.Join(c.mix, "+"))
		setupOK := true
		stopTransfer := make(chan struct{})
		var transfer sync.WaitGroup
		switch c.point {
		case "before-sdp":
		case "after-setlocal":
			if _, err = rigOffer(a, false); err != nil {
				setupOK = false
			}
		default:
			offer, e1 := rigOffer(a, true)
			if e1 != nil {
				setupOK = false

				break
			}
			answer, e2 := rigAnswer(b, offer, true)
			if e2 != nil {
				setupOK = false

				break
			}
			if e3 := a.SetRemoteDescription(answer); e3 != nil {
				setupOK = false

				break
			}
			if c.point == "during-ice" {
				time.Sleep(time.Duration(r.Intn(8000)) * time.Microsecond)

				break
			}
			if !rigWaitConnected(wd, a, b) {
				setupOK = false

				break
			}
			if c.point == "during-transfer" {
				// "during data transfer": every channel is open on both sides and messages are being delivered to the
				// receiving side's handlers when the closers start
				opened := func() bool {
					if len(hooksB.channels()) != nChannels {
						return false
					}
					for _, d := range append(hooksA.channels(), hooksB.channels()...) {
						if d.ReadyState() != DataChannelStateOpen {
							return false
						}
					}

					return true
				}
				for deadline := time.Now().Add(wd); !opened(); time.Sleep(time.Millisecond) {
					if time.Now().After(deadline) {
						setupOK = false

						break
					}
				}
				if !setupOK {
					break
				}
				var senders []*DataChannel
				if direction != "b>a" {
					senders = append(senders, hooksA.channels()...)
				}
				if direction != "a>b" {
					senders = append(senders, hooksB.channels()...)
				}
				payload := hr.Bytes(maxMsg)
				transfer.Add(1)
				go func() {
					defer transfer.Done()
					seq := uint16(0)
					for {
						select {
						case <-stopTransfer:
							return
						default:
						}
						_ = track.WriteRTP(&rtp.Packet{Header: rtp.Header{Version: 2, SequenceNumber: seq, Timestamp: uint32(seq) * 3000}, Payload: []byte{1, 2, 3, 4}})
						for k, d := range senders {
							_ = d.Send(payload[:1+(int(seq)*7919+k*131)%maxMsg])
						}
						seq++
						time.Sleep(200 * time.Microsecond)
					}
				}()
				flowing := func() bool {
					return (direction == "b>a" || hooksB.msgs.Load() > 0) && (direction == "a>b" || hooksA.msgs.Load() > 0)
				}
				for deadline := time.Now().Add(2 * time.Second); !flowing() && time.Now().Before(deadline); {
					time.Sleep(200 * time.Microsecond)
				}
				if !flowing() {
					run.Count("transfer_not_flowing_at_close", 1)
				}
				time.Sleep(time.Duration(hr.Intn(3000)) * time.Microsecond)
			}
		}
		if !setupOK {
			run.Inconclusive("setup:" + c.point)
			close(stopTransfer)
			transfer.Wait()
			_ = a.GracefulClose()
			_ = b.GracefulClose()

			continue
		}
		waitMessageHandlerBusy := func() {
			// schedule class "the read loop is inside the user's message handler when the close is issued"
			want := func(h *c21Hooks, receives bool) bool { return receives && h.gated["dc.OnMessage"] }
			wA, wB := want(hooksA, direction != "a>b"), want(hooksB, direction != "b>a")
			for deadline := time.Now().Add(200 * time.Millisecond); (wA || wB) && time.Now().Before(deadline); {
				if (wA && hooksA.busy("dc.OnMessage")) || (wB && hooksB.busy("dc.OnMessage")) {
					run.Count("closes_issued_while_message_handler_busy", 1)

					break
				}
				time.Sleep(100 * time.Microsecond)
			}
		}
		// history class: the application stops some sub-objects itself, the slow handlers are already being held
		var appOps []c21AppOp
		var appWaiters sync.WaitGroup
		var appOpNames []string
		if c.pre {
			pr := kit.NewRand(kit.Seed(), 1<<41+uint64(i))
			hooksA.closing.Store(true)
			hooksB.closing.Store(true)
			if c.point == "during-transfer" && waitBusy {
				waitMessageHandlerBusy()
			} else {
				time.Sleep(time.Duration(pr.Intn(3000)) * time.Microsecond)
			}
			appOps = c21DrawAppOps(pr, map[string]*PeerConnection{"a": a, "b": b}, map[string]*c21Hooks{"a": hooksA, "b": hooksB}, sender)
			var kinds []string
			for _, op := range appOps {
				appHistory[op.obj] = op.kind
				appOpNames = append(appOpNames, op.name)
				kinds = append(kinds, op.kind)
				run.Count("app_ops_before_close:"+op.kind, 1)
				if d, ok := op.obj.(*DataChannel); ok && (hooksA.busyOn("dc.OnMessage", d) || hooksB.busyOn("dc.OnMessage", d)) {
					run.Count("app_ops_on_channel_whose_read_loop_was_inside_the_message_handler", 1)
				}
			}
			issued := make(chan struct{})
			go func() {
				defer close(issued)
				for _, op := range appOps {
					if op.waits {
						appWaiters.Add(1)
						go func(op c21AppOp) { defer appWaiters.Done(); op.do() }(op)
						time.Sleep(time.Duration(pr.Intn(500)) * time.Microsecond)

						continue
					}
					op.do()
				}
			}()
			select {
			case <-issued:
			case <-time.After(wd):
				run.Inconclusive("app-op-did-not-return:" + label)
				close(stopTransfer)
				close(hooksA.open)
				close(hooksB.open)
				go func() { _ = a.Close(); _ = b.Close() }()

				continue
			}
			time.Sleep(time.Duration(pr.Intn(2000)) * time.Microsecond)
			sort.Strings(kinds)
			label += "|app:" + strings.Join(kinds, ",")
			if len(appOps) > 0 {
				run.Count("cases_with_app_ops_before_close", 1)
			}
		}
		// closers: barrier start; even indices hit peer a, odd ones peer b when the mix has more than two closers
		sched.Perturb(0.4)
		start := make(chan struct{})
		var wg sync.WaitGroup
		bothPeers := len(c.mix) > 2 || c.rep%2 == 1
		closedB := false
		for k, kind := range c.mix {
			pc := a
			if bothPeers && k%2 == 1 {
				pc = b
				closedB = true
			}
			wg.Add(1)
			go func(pc *PeerConnection, kind string) {
				defer wg.Done()
				<-start
				if kind == "Close" {
					_ = pc.Close()
				} else {
					_ = pc.GracefulClose()
					if gateOf[pc].inflight.Load() > 0 {
						gateViol.Add(1)
					}
					judgeHooks(pc, peerName[pc], "closer "+strings.Join(c.mix, "+"))
				}
			}(pc, kind)
		}
		gateA.closing.Store(true)
		gateB.closing.Store(true)
		hooksA.closing.Store(true)
		hooksB.closing.Store(true)
		if c.point == "during-transfer" && waitBusy && !c.pre {
			waitMessageHandlerBusy()
		}
		gatesOpen := make(chan struct{})
		holdFor := time.Duration(30+hr.Intn(40)) * time.Millisecond
		go func() { // the held handler invocations are let go 30-70 ms after the closers started
			time.Sleep(holdFor)
			close(gateA.open)
			close(gateB.open)
			close(hooksA.open)
			close(hooksB.open)
			close(gatesOpen)
		}()
		close(start)
		returned := make(chan struct{})
		go func() { wg.Wait(); close(returned) }()
		select {
		case <-returned:
		case <-time.After(wd):
			buf := make([]byte, 1<<20)
			n := runtime.Stack(buf, true)
			run.Inconclusive("closers-did-not-return:" + label)
			run.Set("last_blocked_dump", firstN(string(buf[:n]), 4000))
			close(stopTransfer)
			sched.Perturb(0)
			<-gatesOpen

			continue
		}
		sched.Perturb(0)
		close(stopTransfer)
		transfer.Wait()
		detail := map[string]any{"case": label, "rep": c.rep, "slow_handlers_a": gatedDesc["a"], "slow_handlers_b": gatedDesc["b"],
			"channels": nChannels, "direction": direction, "max_msg": maxMsg, "close_when_busy": waitBusy, "hold_ms": holdFor.Milliseconds(),
			"app_ops_before_close": appOpNames}
		viol := func(sig, what string) { run.Violation(sig, label+": "+what, i, detail) }

		if n := gateViol.Load(); n > 0 {
			viol("gracefulclose-returned-while-ice-handler-running:"+c.point,
				fmt.Sprintf("%d GracefulClose call(s) returned while an OnICEConnectionStateChange invocation (a goroutine started by the connection) was still in flight", n))
		}
		run.Count("ice_handler_invocations_blocked_during_close", int(gateA.blocked.Load()+gateB.blocked.Load()))
		// final states
		if s := a.SignalingState(); s != SignalingStateClosed {
			viol("signaling-not-closed", "SignalingState is "+s.String())
		}
		if s := a.ConnectionState(); s != PeerConnectionStateClosed {
			viol("connection-state-not-closed", "ConnectionState is "+s.String()+" right after Close returned")
		}
		// mutating calls
		var ise *rtcerr.InvalidStateError
		calls := map[string]error{}
		_, calls["CreateOffer"] = a.CreateOffer(nil)
		_, calls["CreateAnswer"] = a.CreateAnswer(nil)
		calls["SetLocalDescription"] = a.SetLocalDescription(SessionDescription{Type: SDPTypeOffer, SDP: "v=0\r\n"})
		calls["SetRemoteDescription"] = a.SetRemoteDescription(genRandomOffer(r, genOpts{MaxSections: 2}).Desc(SDPTypeOffer))
		_, calls["AddTrack"] = a.AddTrack(track)
		calls["RemoveTrack"] = a.RemoveTrack(sender)
		_, calls["AddTransceiverFromKind"] = a.AddTransceiverFromKind(RTPCodecTypeAudio)
		_, calls["AddTransceiverFromTrack"] = a.AddTransceiverFromTrack(track)
		_, calls["CreateDataChannel"] = a.CreateDataChannel("late", nil)
		calls["SetConfiguration"] = a.SetConfiguration(a.GetConfiguration())
		for name, e := range calls {
			run.Count("mutating_calls_after_close", 1)
			if e == nil || !errors.As(e, &ise) {
				viol("no-invalid-state-error:"+name, fmt.Sprintf("%s after Close returned %v, want *rtcerr.InvalidStateError", name, e))
			}
		}
		// make both peers gracefully closed (idempotent by the property) so the goroutine census is meaningful
		endClosers := make(chan struct{})
		go func() {
			_ = a.GracefulClose()
			if gateA.inflight.Load() > 0 {
				gateViol.Add(100)
			}
			judgeHooks(a, "a", "after the closers had returned")
			_ = b.GracefulClose()
			if gateB.inflight.Load() > 0 {
				gateViol.Add(100)
			}
			judgeHooks(b, "b", "after the closers had returned")
			close(endClosers)
		}()
		select {
		case <-endClosers:
		case <-time.After(wd):
			run.Inconclusive("final-gracefulclose-did-not-return:" + label)
			<-gatesOpen

			continue
		}
		hookViolMu.Lock()
		var hookSigs []string
		for k := range hookViol {
			hookSigs = append(hookSigs, k)
		}
		sort.Strings(hookSigs)
		for _, k := range hookSigs {
			detail["handler_stack:"+k] = hookStacks[k]
			viol(k, "a GracefulClose call returned while a goroutine started by the connection was still running the user's event handler ("+hookViol[k]+")")
		}
		hookViolMu.Unlock()
		<-gatesOpen // every held handler has been let go: the recorded sequences below are complete after the settle
		if c.pre {
			// the application's own waiting operations (DataChannel.GracefulClose) end with the connection at the latest
			joined := make(chan struct{})
			go func() { appWaiters.Wait(); close(joined) }()
			select {
			case <-joined:
			case <-time.After(wd):
				run.Inconclusive("app-op-did-not-return-after-close:" + label)

				continue
			}
		}
		for _, h := range []*c21Hooks{hooksA, hooksB} {
			h.mu.Lock()
			for k, n := range h.blocked {
				run.Count("handler_invocations_held_during_close:"+k, n)
			}
			for k, n := range h.foreign {
				run.Count("handler_invocations_on_caller_goroutine_not_judged:"+k, n)
			}
			h.mu.Unlock()
		}
		if c.point == "during-transfer" {
			run.Seen("transfer_directions", direction)
			run.Count("messages_delivered_to_handlers", int(hooksA.msgs.Load()+hooksB.msgs.Load()))
		}
		if n := gateViol.Load(); n >= 100 {
			viol("gracefulclose-returned-while-ice-handler-running:after-close:"+c.point,
				"a GracefulClose issued after the closers had returned came back while an OnICEConnectionStateChange invocation was still in flight")
		}
		// state stays closed; handler sequence has nothing after the first closed
		time.Sleep(6 * time.Millisecond)
		for name, pc := range map[string]*PeerConnection{"a": a, "b": b} {
			if name == "b" && !closedB && c.point == "before-sdp" {
				continue
			}
			if s := pc.ConnectionState(); s != PeerConnectionStateClosed {
				viol("connection-state-not-final", fmt.Sprintf("peer %s: ConnectionState is %s after close completed (late store)", name, s))
			}
		}
		for name, rec := range map[string]*c21Rec{"a": recA, "b": recB} {
			seq := rec.snapshot()
			closedAt := -1
			for k, s := range seq {
				if s == PeerConnectionStateClosed && closedAt < 0 {
					closedAt = k
				}
			}
			run.Seen("handler_sequences", fmt.Sprint(seq))
			if closedAt >= 0 && closedAt != len(seq)-1 {
				viol("handler-reports-after-closed", fmt.Sprintf("peer %s: OnConnectionStateChange reported %v — states after the first closed", name, seq))
			}
			detail["handler_"+name] = fmt.Sprint(seq)
		}
		// goroutine census with bounded settle
		var left []string
		for round := 0; round < 200; round++ {
			left = c21PionGoroutines()
			if len(left) <= baseline {
				break
			}
			time.Sleep(10 * time.Millisecond)
		}
		if len(left) > baseline {
			tops := map[string]int{}
			for _, g := range left {
				tops[c21TopFrame(g)]++
			}
			detail["leaked"] = tops
			detail["first_stack"] = firstN(left[0], 1500)
			var names []string
			for k := range tops {
				names = append(names, k)
			}
			viol("goroutine-left-after-gracefulclose:"+firstN(strings.Join(names, ","), 80),
				fmt.Sprintf("%d goroutine(s) running pion code 2 s after GracefulClose returned on both peers: %v", len(left)-baseline, tops))
			baseline = len(left) // do not report the same leak for every following case
		}
		run.Case(label+"|"+fmt.Sprint(recA.snapshot()), len(c.mix) >= 2 || c.point == "during-ice" || c.point == "during-transfer")
		run.Seen("close_points", c.point)
		run.Count("closers", len(c.mix))
		if i%17 == 0 {
			run.Sample(map[string]any{"case": label, "handler_a": fmt.Sprint(recA.snapshot()), "handler_b": fmt.Sprint(recB.snapshot()), "app_ops_before_close": appOpNames})
		}
	}
	run.Set("hook_passes", sched.AllPasses())
	// last: Close must return although media of an SSRC nobody accepts has arrived (c21_srtp_test.go)
	sched.Perturb(0)
	c21Unaccepted(run, 1000000, kit.N(16, 160))
}
