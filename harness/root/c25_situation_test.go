package webrtc

// C25 — signaling situations for the AddICECandidate part.
//
// The clause "AddICECandidate drops, without error, any candidate whose ufrag extension names no ufrag in the
// APPLIED remote description" (and its counterpart: every other candidate is accepted) has to be judged wherever a
// remote description is applied, not only against the first remote offer. Every batch of the monitor therefore walks
// the monitored PeerConnection ("mon") along a negotiation history, chosen by (VERIF_SEED, batch index), and submits
// its candidates at the end of it:
//
//	first remote offer pending | answered (current only) | own offer answered (current only) | remote pranswer pending |
//	current + pending remote offer with the same credentials | ... with new credentials (ICE restart by a real peer,
//	or credentials rewritten by a foreign peer) | restart offer answered | own re-offer pending (have-local-offer) |
//	remote offer rolled back | own ICE restart answered by the remote side
//
// with random parameters: who offered first, a completed restart cycle before, real / foreign (generated SDP) peer,
// credentials at session / media level, re-offer adding media, foreign credential text.
//
// The oracle keeps its OWN model of the applied remote description (JSEP: pending if there is one, else current),
// built from the descriptions the monitor itself handed to mon; it never asks pc.RemoteDescription().

import (
	"errors"
	"fmt"
	"strings"
	"time"

	kit "github.com/pion/webrtc/v4/internal/verifkit"
)

// c25Kinds: evidence label and signature class of every signaling situation. The signature class is empty for the
// historic workload (first remote offer pending) so that its signatures stay what they were.
var c25Kinds = []struct{ Label, Sig string }{ //nolint:gochecknoglobals
	{"pending-offer", ""},
	{"current(answered)", "current-only"},
	{"current(own-offer-answered)", "current-only"},
	{"pending-pranswer", "pending-pranswer"},
	{"current+pending-offer/same-credentials", "pending+current:same-credentials"},
	{"current+pending-offer/new-credentials(peer-ice-restart)", "pending+current:new-credentials"},
	{"current+pending-offer/new-credentials(rewritten)", "pending+current:new-credentials"},
	{"current(restart-offer-answered)", "current-only:after-restart"},
	{"current+own-offer-pending", "have-local-offer"},
	{"current(remote-offer-rolled-back)", "current-only:after-rollback"},
	{"current(own-ice-restart-answered)", "current-only:after-restart"},
}

// c25Plan is the negotiation history of one batch: a pure function of (VERIF_SEED, batch index).
type c25Plan struct {
	Kind         int
	Label        string
	SigClass     string
	First        string // who offered in the first negotiation: remote | local
	Peer         string // real (a second PeerConnection) | foreign (generated SDP text, nobody behind it)
	PriorCycles  int    // completed remote ICE-restart cycles before the final step
	Restart      string // credentials of the final remote offer: same | peer-ice-restart | rewritten
	LocalRestart bool   // own re-offer with OfferOptions.ICERestart
	AddsMedia    bool   // the peer adds a media section before its re-offer
	SessionLevel bool   // credentials of real-peer descriptions moved to the session part
	NewUfrag     string // credentials a foreign peer / a rewriting middlebox puts into its restart offer
	NewPwd       string
	ForeignOpts  genOpts
}

func c25PlanFor(b int) c25Plan {
	r := kit.NewRand(kit.Seed(), 0xC25B00000000|uint64(b)) //nolint:gosec
	p := c25Plan{Kind: (b / 2) % len(c25Kinds), SessionLevel: b%2 == 1, First: "remote", Peer: "real", Restart: "same"}
	p.Label, p.SigClass = c25Kinds[p.Kind].Label, c25Kinds[p.Kind].Sig
	// all draws are made unconditionally so that one parameter never shifts another
	firstLocal, foreign, prior := r.Bool(), r.Chance(0.35), r.Chance(0.4)
	restartPick := r.Intn(4)
	p.LocalRestart, p.AddsMedia = r.Bool(), r.Chance(0.4)
	p.NewUfrag = c25Token(r, c25IceChars, 4, 32)
	p.NewPwd = c25Token(r, c25IceChars, 22, 40)
	p.ForeignOpts = genOpts{MaxSections: 1 + r.Intn(2), MidStyle: 0, MediaLevelSec: r.Bool()}

	switch p.Kind {
	case 2, 3, 10:
		p.First = "local"
	case 0, 1:
	default:
		if firstLocal {
			p.First = "local"
		}
	}
	if p.Kind >= 4 && prior {
		p.PriorCycles = 1
	}
	switch p.Kind {
	case 5:
		p.Restart = "peer-ice-restart"
	case 6:
		p.Restart = "rewritten"
	case 7:
		p.Restart = []string{"peer-ice-restart", "rewritten"}[restartPick%2]
	case 9:
		p.Restart = []string{"peer-ice-restart", "rewritten", "peer-ice-restart", "same"}[restartPick]
	}
	if p.Kind == 10 {
		p.LocalRestart = true
	}
	// a foreign peer only sends offers (the monitor has no generator of foreign answers) and cannot perform a real restart
	foreignOK := p.First == "remote" && (p.Kind == 0 || p.Kind == 1 || p.Kind == 4 || p.Kind == 6 || p.Kind == 7 || p.Kind == 9)
	if foreignOK && foreign {
		p.Peer = "foreign"
		if p.Restart == "peer-ice-restart" {
			p.Restart = "rewritten"
		}
	}

	return p
}

func (p c25Plan) String() string {
	return fmt.Sprintf("%s first-offer=%s peer=%s prior-restart-cycles=%d last-remote-offer=%s own-restart=%t adds-media=%t session-level=%t",
		p.Label, p.First, p.Peer, p.PriorCycles, p.Restart, p.LocalRestart, p.AddsMedia, p.SessionLevel)
}

// ---------------------------------------------------------------- text helpers (own scans, no pion helpers)

func c25StripCandidates(sdpText string) string {
	var out []string
	for _, ln := range strings.Split(sdpText, "\r\n") {
		if strings.HasPrefix(ln, "a=candidate:") || ln == "a=end-of-candidates" {
			continue
		}
		out = append(out, ln)
	}

	return strings.Join(out, "\r\n")
}

func c25RewriteCredentials(sdpText, ufrag, pwd string) string {
	lines := strings.Split(sdpText, "\r\n")
	for i, ln := range lines {
		switch {
		case strings.HasPrefix(ln, "a=ice-ufrag:"):
			lines[i] = "a=ice-ufrag:" + ufrag
		case strings.HasPrefix(ln, "a=ice-pwd:"):
			lines[i] = "a=ice-pwd:" + pwd
		}
	}

	return strings.Join(lines, "\r\n")
}

func c25UfragLocation(sdpText string) string {
	for _, ln := range strings.Split(strings.ReplaceAll(sdpText, "\r\n", "\n"), "\n") {
		switch {
		case strings.HasPrefix(ln, "m="):
			return "media-level"
		case strings.HasPrefix(ln, "a=ice-ufrag:"):
			return "session-level"
		}
	}

	return "media-level"
}

func c25Contains(xs []string, x string) bool {
	for _, v := range xs {
		if v == x {
			return true
		}
	}

	return false
}

// ---------------------------------------------------------------- history execution

func c25WaitGather(pc *PeerConnection) error {
	if pc == nil {
		return nil
	}
	deadline := time.Now().Add(15 * time.Second) // watchdog only
	for pc.ICEGatheringState() == ICEGatheringStateGathering {
		if time.Now().After(deadline) {
			return errors.New("gathering watchdog") //nolint:err113
		}
		time.Sleep(time.Millisecond)
	}

	return nil
}

// toMon is what the signaling channel does to a real peer's description on its way to mon.
func (g *c25Rig) toMon(sdpText string) string {
	sdpText = c25StripCandidates(sdpText) // the agent's remote set must hold nothing but what the batch submits
	if g.plan.SessionLevel {
		sdpText = c25UfragToSessionLevel(sdpText)
	}

	return sdpText
}

func (g *c25Rig) note(format string, a ...any) { g.ops = append(g.ops, fmt.Sprintf(format, a...)) }

// applyRemote hands a remote description to mon and updates the model.
func (g *c25Rig) applyRemote(t SDPType, text string) error {
	if err := c25WaitGather(g.mon); err != nil {
		return err
	}
	if err := g.mon.SetRemoteDescription(SessionDescription{Type: t, SDP: text}); err != nil {
		return fmt.Errorf("SetRemoteDescription(%s): %w", t, err)
	}
	for _, u := range c25Ufrags(text) {
		if !c25Contains(g.seen, u) {
			g.seen = append(g.seen, u)
		}
	}
	switch t {
	case SDPTypeOffer, SDPTypePranswer:
		g.pending = text
	case SDPTypeAnswer:
		g.current, g.pending = text, ""
	default:
	}
	g.localOfferPending = false

	return nil
}

// remoteOffer: the peer (re-)offers; credentials: same | peer-ice-restart | rewritten.
func (g *c25Rig) remoteOffer(creds string) error {
	var text string
	if g.peer == nil {
		if creds != "same" {
			g.foreign.Ufrag, g.foreign.Pwd = g.nextCreds()
		}
		g.foreign.SessVer++
		text = g.foreign.String()
	} else {
		if err := c25WaitGather(g.peer); err != nil {
			return err
		}
		if g.peer.LocalDescription() == nil && !g.peerHasChannel {
			if _, err := g.peer.CreateDataChannel("c25", nil); err != nil {
				return err
			}
			g.peerHasChannel = true
		} else if g.plan.AddsMedia && !g.peerAddedMedia {
			if _, err := g.peer.AddTransceiverFromKind(RTPCodecTypeAudio); err != nil {
				return err
			}
			g.peerAddedMedia = true
		}
		var opts *OfferOptions
		if creds == "peer-ice-restart" {
			opts = &OfferOptions{ICERestart: true}
		}
		offer, err := g.peer.CreateOffer(opts)
		if err != nil {
			return fmt.Errorf("peer CreateOffer: %w", err)
		}
		if err = g.peer.SetLocalDescription(offer); err != nil {
			return fmt.Errorf("peer SetLocalDescription(offer): %w", err)
		}
		text = g.toMon(offer.SDP)
		if creds == "rewritten" {
			u, p := g.nextCreds()
			text = c25RewriteCredentials(text, u, p)
		}
	}
	g.note("remote-offer(%s)", creds)

	return g.applyRemote(SDPTypeOffer, text)
}

// nextCreds returns fresh foreign credentials (distinct per use within one history).
func (g *c25Rig) nextCreds() (string, string) {
	g.credUses++
	if g.credUses == 1 {
		return g.plan.NewUfrag, g.plan.NewPwd
	}

	return fmt.Sprintf("%s%d", g.plan.NewUfrag, g.credUses), fmt.Sprintf("%s%d", g.plan.NewPwd, g.credUses)
}

// localAnswer: mon answers the pending remote offer.
func (g *c25Rig) localAnswer() error {
	answer, err := g.mon.CreateAnswer(nil)
	if err != nil {
		return fmt.Errorf("CreateAnswer: %w", err)
	}
	if err = g.mon.SetLocalDescription(answer); err != nil {
		return fmt.Errorf("SetLocalDescription(answer): %w", err)
	}
	g.current, g.pending = g.pending, ""
	g.note("local-answer")
	if g.peer != nil {
		if err = c25WaitGather(g.peer); err != nil {
			return err
		}
		if err = g.peer.SetRemoteDescription(SessionDescription{Type: SDPTypeAnswer, SDP: c25StripCandidates(answer.SDP)}); err != nil {
			return fmt.Errorf("peer SetRemoteDescription(answer): %w", err)
		}
	}

	return nil
}

// localOffer: mon (re-)offers.
func (g *c25Rig) localOffer(restart bool) error {
	if err := c25WaitGather(g.mon); err != nil {
		return err
	}
	if g.mon.CurrentLocalDescription() == nil {
		if _, err := g.mon.CreateDataChannel("c25", nil); err != nil {
			return err
		}
	}
	var opts *OfferOptions
	if restart {
		opts = &OfferOptions{ICERestart: true}
	}
	offer, err := g.mon.CreateOffer(opts)
	if err != nil {
		return fmt.Errorf("CreateOffer: %w", err)
	}
	if err = g.mon.SetLocalDescription(offer); err != nil {
		return fmt.Errorf("SetLocalDescription(offer): %w", err)
	}
	g.localOfferPending = true
	g.note("local-offer(ice-restart=%t)", restart)
	if g.peer == nil {
		return errors.New("own offer towards a foreign peer is not planned") //nolint:err113
	}
	if err = c25WaitGather(g.peer); err != nil {
		return err
	}
	if err = g.peer.SetRemoteDescription(SessionDescription{Type: SDPTypeOffer, SDP: c25StripCandidates(offer.SDP)}); err != nil {
		return fmt.Errorf("peer SetRemoteDescription(offer): %w", err)
	}

	return nil
}

// remoteAnswer: the peer answers mon's offer; the answer reaches mon as a final or as a provisional answer.
func (g *c25Rig) remoteAnswer(provisional bool) error {
	answer, err := g.peer.CreateAnswer(nil)
	if err != nil {
		return fmt.Errorf("peer CreateAnswer: %w", err)
	}
	if err = g.peer.SetLocalDescription(answer); err != nil {
		return fmt.Errorf("peer SetLocalDescription(answer): %w", err)
	}
	t := SDPTypeAnswer
	if provisional {
		t = SDPTypePranswer
	}
	g.note("remote-%s", t)

	return g.applyRemote(t, g.toMon(answer.SDP))
}

// remoteRollback: the pending remote offer is withdrawn.
func (g *c25Rig) remoteRollback() error {
	if err := g.mon.SetRemoteDescription(SessionDescription{Type: SDPTypeRollback}); err != nil {
		return fmt.Errorf("SetRemoteDescription(rollback): %w", err)
	}
	g.pending = ""
	g.note("remote-rollback")
	if g.peer != nil {
		if err := g.peer.SetLocalDescription(SessionDescription{Type: SDPTypeRollback}); err != nil {
			return fmt.Errorf("peer SetLocalDescription(rollback): %w", err)
		}
	}

	return nil
}

// walk executes the plan's history.
func (g *c25Rig) walk() error { //nolint:cyclop
	p := g.plan
	restartCreds := "peer-ice-restart"
	if g.peer == nil {
		restartCreds = "rewritten"
	}
	if p.First == "remote" {
		if err := g.remoteOffer("same"); err != nil {
			return err
		}
		if p.Kind == 0 {
			return nil
		}
		if err := g.localAnswer(); err != nil {
			return err
		}
	} else {
		if err := g.localOffer(false); err != nil {
			return err
		}
		if err := g.remoteAnswer(p.Kind == 3); err != nil {
			return err
		}
	}
	if p.Kind <= 3 {
		return nil
	}
	for k := 0; k < p.PriorCycles; k++ {
		if err := g.remoteOffer(restartCreds); err != nil {
			return err
		}
		if err := g.localAnswer(); err != nil {
			return err
		}
	}
	switch p.Kind {
	case 4, 5, 6:
		return g.remoteOffer(p.Restart)
	case 7:
		if err := g.remoteOffer(p.Restart); err != nil {
			return err
		}

		return g.localAnswer()
	case 8:
		return g.localOffer(p.LocalRestart)
	case 9:
		if err := g.remoteOffer(p.Restart); err != nil {
			return err
		}

		return g.remoteRollback()
	case 10:
		if err := g.localOffer(true); err != nil {
			return err
		}

		return g.remoteAnswer(false)
	}

	return nil
}

// settle derives the applied remote description from the model and checks the harness against its own plan.
func (g *c25Rig) settle() error {
	g.applied = g.pending
	if g.applied == "" {
		g.applied = g.current
	}
	g.ufrags = c25Ufrags(g.applied)
	if len(g.ufrags) == 0 {
		return errors.New("applied remote description without ice-ufrag") //nolint:err113
	}
	g.stale = nil
	for _, u := range g.seen {
		if !c25Contains(g.ufrags, u) {
			g.stale = append(g.stale, u)
		}
	}
	// harness sanity: the history must have produced the situation the plan names
	want := SignalingStateStable
	switch {
	case g.localOfferPending:
		want = SignalingStateHaveLocalOffer
	case g.pending != "" && g.plan.Kind == 3:
		want = SignalingStateHaveRemotePranswer
	case g.pending != "":
		want = SignalingStateHaveRemoteOffer
	}
	if got := g.mon.SignalingState(); got != want {
		return fmt.Errorf("history ended in signaling state %s, planned %s", got, want) //nolint:err113
	}
	havePending, haveCurrent := g.pending != "", g.current != ""
	var wantPending, wantCurrent bool
	switch g.plan.Kind {
	case 0, 3:
		wantPending = true
	case 4, 5, 6:
		wantPending, wantCurrent = true, true
	default:
		wantCurrent = true
	}
	if havePending != wantPending || haveCurrent != wantCurrent {
		return errors.New("history does not end in the planned pending/current combination") //nolint:err113
	}
	if wantPending && wantCurrent {
		same := true // as sets: a re-offer may carry the credentials once per media section
		for _, u := range c25Ufrags(g.pending) {
			same = same && c25Contains(c25Ufrags(g.current), u)
		}
		for _, u := range c25Ufrags(g.current) {
			same = same && c25Contains(c25Ufrags(g.pending), u)
		}
		if same != (g.plan.Restart == "same") {
			return errors.New("credentials of the pending offer are not as planned") //nolint:err113
		}
	}

	return nil
}

func c25BuildRig(p c25Plan, b int) (*c25Rig, error) {
	g := &c25Rig{plan: p}
	var err error
	if g.mon, err = rigNewPC(rigOpts{Quiet: true}); err != nil {
		return nil, err
	}
	if p.Peer == "real" {
		if g.peer, err = rigNewPC(rigOpts{Quiet: true}); err != nil {
			g.close()

			return nil, err
		}
	} else {
		g.foreign = genRandomOffer(kit.NewRand(kit.Seed(), 0xC25F00000000|uint64(b)), p.ForeignOpts) //nolint:gosec
	}
	if err = g.walk(); err == nil {
		err = g.settle()
	}
	if err != nil {
		g.close()

		return nil, fmt.Errorf("%w (after %s)", err, strings.Join(g.ops, " > "))
	}

	return g, nil
}

// c25NewRig builds the rig of batch b. A generated foreign offer that pion refuses (not this property's business)
// is replaced by a real peer walking the same history.
func c25NewRig(p c25Plan, b int) (rig *c25Rig, fellBack bool, err error) {
	rig, err = c25BuildRig(p, b)
	if err != nil && p.Peer == "foreign" {
		p.Peer = "real"
		if p.Restart == "rewritten" && p.Kind != 6 {
			p.Restart = "peer-ice-restart"
		}
		rig, err = c25BuildRig(p, b)

		return rig, true, err
	}

	return rig, false, err
}
