package webrtc

import (
	"fmt"
	"testing"

	kit "github.com/pion/webrtc/v4/internal/verifkit"
)

// C02 — rollback cancels an in-progress offer/answer exchange.
// For every non-stable state (reached after several prefixes), rollback on the owning side must succeed, return the
// connection to stable, empty the pending slots and leave the current slots as in the last stable state; rollback
// from stable is rejected.

type c02Case struct {
	Prefix   string // fresh | one-exchange | two-exchanges | after-failed-call
	State    SignalingState
	Local    bool   // side the rollback is applied on
	SDPKind  string // empty | pending-text | unrelated-text
	Continue bool   // complete an exchange after the rollback
	Refused  string // "" or a class of c02RefusedClasses: calls that are REFUSED, interleaved between reaching State and the rollback
}

func (c c02Case) String() string {
	side := "remote"
	if c.Local {
		side = "local"
	}

	s := fmt.Sprintf("prefix=%s state=%s rollback-on=%s sdp=%s continue=%v", c.Prefix, c.State, side, c.SDPKind, c.Continue)
	if c.Refused != "" {
		s += " refused-calls-before-rollback=" + c.Refused
	}

	return s
}

func TestVerifC02(t *testing.T) { //nolint:cyclop,gocognit
	run := kit.Start(t, "C02", "every non-stable state × rollback side × rollback SDP {empty, pending text, unrelated valid text} × prefix "+
		"{fresh, after 1 exchange, after 2 exchanges, after a failed call}, plus rollback from stable; thorough repeats with seeded variation and "+
		"completes a new exchange after the rollback. Second block: the same states × sides × prefixes with REFUSED calls interleaved between reaching the state "+
		"and the rollback (1..2 of one class, or 2..4 mixed): parsable local offer/answer/pranswer that is not the last created one (created/earlier/foreign text, "+
		"7 ways of editing), local and remote descriptions of a type that is no transition from the state, remote descriptions of a legal type with invalid content "+
		"(8 ways), unknown SDPType / unparsable / empty local text; rollback SDP kind and continuation drawn per case; the oracle is stepped on the state the "+
		"successful calls reached. Non-trivial = the case reached its target non-stable state (and every interleaved call was refused); distinct by the case tuple + seed index")
	defer run.Finish()
	var cases []c02Case
	states := []SignalingState{SignalingStateHaveLocalOffer, SignalingStateHaveRemoteOffer, SignalingStateHaveLocalPranswer, SignalingStateHaveRemotePranswer, SignalingStateStable}
	reps := kit.N(1, 20)
	for rep := 0; rep < reps; rep++ {
		for _, pre := range []string{"fresh", "one-exchange", "two-exchanges", "after-failed-call"} {
			for _, st := range states {
				for _, local := range []bool{true, false} {
					for _, k := range []string{"empty", "pending-text", "unrelated-text"} {
						cases = append(cases, c02Case{pre, st, local, k, rep%2 == 1 || k == "empty", ""})
					}
				}
			}
		}
	}
	// second block (appended, so that the indices of the first block are unchanged): refused calls before the rollback
	for rep := 0; rep < reps; rep++ {
		for _, pre := range []string{"fresh", "one-exchange", "two-exchanges", "after-failed-call"} {
			for _, st := range states {
				for _, local := range []bool{true, false} {
					for _, cl := range c02RefusedClasses() {
						cases = append(cases, c02Case{pre, st, local, "", false, cl}) // SDPKind / Continue drawn per case
					}
				}
			}
		}
	}
	run.Set("cases_enumerated", len(cases))
	run.Parallel(len(cases), 12, func(i int) {
		c := cases[i]
		r := run.CaseRand(i)
		if c.Refused != "" {
			c.SDPKind = kit.Pick(r, []string{"empty", "pending-text", "unrelated-text"})
			c.Continue = r.Chance(0.4)
		}
		pc := rigMustPC(rigOpts{})
		defer rigClose(pc)
		if _, err := pc.CreateDataChannel("c02", nil); err != nil {
			panic(err)
		}
		if r.Bool() {
			_, _ = pc.AddTransceiverFromKind(RTPCodecTypeAudio)
		}
		fail := func(stage string, err error) {
			run.Inconclusive("setup:" + stage + ":" + firstN(err.Error(), 60))
		}
		switch c.Prefix {
		case "one-exchange", "two-exchanges":
			if err := jsepExchange(pc, r, r.Bool()); err != nil {
				fail("exchange1", err)

				return
			}
			if c.Prefix == "two-exchanges" {
				_, _ = pc.AddTransceiverFromKind(RTPCodecTypeVideo)
				if err := jsepExchange(pc, r, r.Bool()); err != nil {
					fail("exchange2", err)

					return
				}
			}
		case "after-failed-call":
			_ = pc.SetRemoteDescription(SessionDescription{Type: SDPTypeAnswer, SDP: "v=0\r\n"})
			_ = pc.SetLocalDescription(SessionDescription{Type: SDPTypeOffer, SDP: "garbage"})
		}
		_, stable := jsepObserve(pc)
		if err := jsepReach(pc, r, c.State); err != nil {
			fail("reach-"+c.State.String(), err)

			return
		}
		if pc.SignalingState() != c.State {
			run.Inconclusive("setup:state-not-reached:" + c.State.String())

			return
		}
		// refused calls do not make a transition: the history still ends in c.State, whatever SignalingState() reads now
		var refused []c02Refused
		var culprit *c02Refused
		if c.Refused != "" {
			var accepted bool
			if refused, culprit, accepted = c02Interleave(run, pc, r, c.Refused, c.State); accepted {
				run.Case(fmt.Sprintf("%s #%d (a call meant to be refused was accepted)", c, i), false)

				return
			}
			run.Seen("refused_class_x_state", c.Refused+"/"+c.State.String())
		}
		// the CAUSE in a signature: when a refused call left the observable negotiation state altered, a failing rollback
		// is its consequence (signature names that call); without one the signatures are those of the plain cases
		after := ""
		if culprit != nil {
			after = ":after-refused-" + culprit.label() + "-" + culprit.Changed
		}
		rb := SessionDescription{Type: SDPTypeRollback}
		switch c.SDPKind {
		case "pending-text":
			var d *SessionDescription
			if c.Local {
				d = pc.PendingLocalDescription()
			} else {
				d = pc.PendingRemoteDescription()
			}
			if d == nil {
				d = pc.LocalDescription()
			}
			if d != nil {
				rb.SDP = d.SDP
			}
		case "unrelated-text":
			rb.SDP = genRandomOffer(r, genOpts{MaxSections: 2}).String()
		}
		var err error
		if c.Local {
			err = pc.SetLocalDescription(rb)
		} else {
			err = pc.SetRemoteDescription(rb)
		}
		st, slots := jsepObserve(pc)
		run.Case(fmt.Sprintf("%s #%d", c, i), c.State != SignalingStateStable)
		run.Seen("state_side", fmt.Sprintf("%s/local=%v", c.State, c.Local))
		owning := (c.Local && (c.State == SignalingStateHaveLocalOffer || c.State == SignalingStateHaveLocalPranswer)) ||
			(!c.Local && (c.State == SignalingStateHaveRemoteOffer || c.State == SignalingStateHaveRemotePranswer))
		side := "remote"
		if c.Local {
			side = "local"
		}
		detail := map[string]any{"case": c.String(), "err": fmt.Sprint(err), "state_after": st.String(), "slots_after": slots, "stable_snapshot": stable}
		if c.Refused != "" {
			detail["refused_calls_before_rollback"] = refused
			detail["rollback_sdp"] = rb.SDP
		}
		switch {
		case c.State == SignalingStateStable:
			if err == nil {
				run.Violation("rollback-from-stable-accepted:"+side+after, fmt.Sprintf("%s: rollback from stable returned nil", c), i, detail)
			}
			run.Count("rollback_from_stable_rejected", 1)
		case owning:
			if err != nil {
				sig := fmt.Sprintf("rollback-rejected:%s:%s:sdp-%s", c.State, side, c.SDPKind)
				if culprit != nil {
					sig = fmt.Sprintf("rollback-rejected:%s:%s%s", c.State, side, after)
				}
				run.Violation(sig,
					fmt.Sprintf("%s: rollback on the owning side returned %v", c, err), i, detail)

				return
			}
			run.Count("rollbacks_succeeded", 1)
			if len(refused) > 0 {
				run.Count("rollbacks_succeeded_after_refused_calls", 1)
			}
			if st != SignalingStateStable {
				run.Violation("rollback-not-stable:"+c.State.String()+after, fmt.Sprintf("%s: rollback succeeded but state is %s", c, st), i, detail)
			}
			if slots.PendingLocal != "" || slots.PendingRemote != "" {
				run.Violation("rollback-keeps-pending:"+c.State.String()+after, fmt.Sprintf("%s: pending slots after rollback: %+v", c, slots), i, detail)
			}
			if slots.CurrentLocal != stable.CurrentLocal || slots.CurrentRemote != stable.CurrentRemote {
				run.Violation("rollback-changes-current:"+c.State.String()+after,
					fmt.Sprintf("%s: current slots %+v differ from the last stable snapshot %+v", c, slots, stable), i, detail)
			}
			if c.Continue && st == SignalingStateStable {
				if e2 := jsepExchange(pc, r, r.Bool()); e2 != nil {
					// not promised by the statement (C02 speaks of state and descriptions only): recorded, not judged
					run.Count("model_divergence_exchange_after_rollback_failed", 1)
					run.Seen("exchange_after_rollback_errors", firstN(e2.Error(), 80))
				} else {
					run.Count("exchanges_completed_after_rollback", 1)
				}
			}
		default:
			// wrong-side rollback: the statement only demands something when it succeeds
			if err == nil {
				run.Count("wrong_side_rollback_accepted", 1)
				if st != SignalingStateStable || slots.PendingLocal != "" || slots.PendingRemote != "" {
					run.Violation("wrong-side-rollback-inconsistent:"+c.State.String()+after, fmt.Sprintf("%s: accepted, state %s slots %+v", c, st, slots), i, detail)
				}
			} else {
				run.Count("wrong_side_rollback_rejected", 1)
			}
		}
		if i%37 == 0 || (len(refused) > 0 && i%131 == 0) {
			run.Sample(detail)
		}
	})
}
