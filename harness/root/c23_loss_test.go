package webrtc

import (
	"bytes"
	"encoding/binary"
	"fmt"
	"strings"
	"sync"
	"sync/atomic"
	"time"

	"github.com/pion/ice/v4"
	"github.com/pion/interceptor"
	"github.com/pion/rtp"
	"github.com/pion/transport/v4/vnet"
	kit "github.com/pion/webrtc/v4/internal/verifkit"
)

// Lossy part of C23: the same "arrives intact" oracle when packets are lost and come back as retransmissions
// (NACK + RTX negotiated, default interceptors). Pairs run over an in-process network (vnet) that drops the first
// transmission of chosen media packets, so that they can only arrive through the repair stream.
//
// One case = one configuration, a pure function of (VERIF_SEED, case index):
//   1-2 video tracks in one bundle (codec ∈ {VP8, VP9, H264, AV1}, all of them with RTX on the default engine)
//   × sender = offerer | answerer
//   × header shape class of the written packets per track (c23_hdr_test.go: plain | RFC 8285 one-byte / two-byte
//     extension block with negotiated and free-form elements | RFC 3550 block | CSRC list | both | mixed per packet)
//   × sender chain with / without the transport-wide-cc header-extension interceptor (the library then adds an
//     extension block to packets that were written without one)
//   × loss pattern: runs of 2-3 neighbours every 6-12 packets | single packets every 4-9 | independent 4-12 % |
//     random runs of 1-4 (several retransmissions in flight at once in the run patterns)
//   × first sequence number anywhere in 0..65535 (sometimes wrapping during the run)
//   × payloads of 1-1000 random bytes tagged (track, n).
//
// Oracle: the SSRC and the payload types are read from the descriptions exactly as in the loopback part (c23Expect).
// Every packet read from a TrackRemote - direct or retransmitted - must be one of the packets written to the track
// that announced that SSRC: announced SSRC, a payload type the answer maps to the codec, and the (sequence number,
// payload) pair of a written packet. Which written packet it is follows from the sequence number; when the payload
// under that number is not the written one, the tag inside the payload tells whether an intact written packet came
// back under another sequence number, on another track, or whether the bytes match nothing that was written.
// Packets that never arrive are counted, not judged (the repair machinery gives no delivery guarantee).

var c23LossNames = []string{"runs-2-3", "periodic-single", "independent", "random-runs"} //nolint:gochecknoglobals

// c23DrawLoss returns the loss pattern of one track: drop[n] = the first transmission of packet n is lost.
func c23DrawLoss(r *kit.Rand, total int) (string, []bool) {
	drop := make([]bool, total)
	lo, hi := 30, total-10 // the stream is established first; the tail is not dropped (a NACK needs a later packet)
	kind := 0
	switch x := r.Intn(100); {
	case x < 40:
		kind = 0
	case x < 55:
		kind = 1
	case x < 75:
		kind = 2
	default:
		kind = 3
	}
	desc := c23LossNames[kind]
	switch kind {
	case 0:
		period, run := r.Range(6, 12), r.Range(2, 3)
		for n := lo; n < hi; n++ {
			drop[n] = n%period >= period-run
		}
		desc += fmt.Sprintf("(%d of %d)", run, period)
	case 1:
		period := r.Range(4, 9)
		off := r.Intn(period)
		for n := lo; n < hi; n++ {
			drop[n] = n%period == off
		}
		desc += fmt.Sprintf("(1 of %d)", period)
	case 2:
		p := float64(r.Range(4, 12)) / 100
		for n := lo; n < hi; n++ {
			drop[n] = r.Chance(p)
		}
		desc += fmt.Sprintf("(%.0f%%)", p*100)
	case 3:
		for n := lo + r.Range(0, 10); n < hi; n += r.Range(5, 25) {
			for k := r.Range(1, 4); k > 0 && n < hi; k-- {
				drop[n] = true
				n++
			}
		}
	}

	return desc, drop
}

func c23LossyPC(nw *vnet.Net, twccHdr bool) (*PeerConnection, error) {
	se := SettingEngine{}
	se.SetNet(nw)
	se.SetNetworkTypes([]NetworkType{NetworkTypeUDP4})
	se.SetICEMulticastDNSMode(ice.MulticastDNSModeDisabled)
	se.LoggerFactory = rigNullLoggerFactory{}
	me := &MediaEngine{}
	if err := me.RegisterDefaultCodecs(); err != nil {
		return nil, err
	}
	ir := &interceptor.Registry{}
	if err := RegisterDefaultInterceptorsWithOptions(me, ir, WithInterceptorLoggerFactory(se.LoggerFactory)); err != nil {
		return nil, err
	}
	if twccHdr {
		if err := ConfigureTWCCHeaderExtensionSender(me, ir); err != nil {
			return nil, err
		}
	}

	return NewAPI(WithSettingEngine(se), WithMediaEngine(me), WithInterceptorRegistry(ir)).
		NewPeerConnection(Configuration{Certificates: []Certificate{rigCert()}})
}

type c23LossPkt struct {
	p   *rtp.Packet
	rtx bool
}

type c23LossRemote struct {
	ssrc   uint32
	stream string
	id     string
	mu     sync.Mutex
	pkts   []c23LossPkt
}

// c23LossTrack is a c23Track plus what only the lossy part knows about it.
type c23LossTrack struct {
	*c23Track
	loss      string
	drop      []bool
	classes   []string // header class each packet was written with
	profiles  []string
	dropped   []atomic.Bool // the network really dropped the first transmission of packet n
	delivered []int
	viaRTX    []int
}

// c23Lossy runs n lossy pairs; case indices start at base.
func c23Lossy(run *kit.Run, base, n int) { //nolint:gocognit,cyclop,gocyclo,maintidx
	const total = 400
	run.Set("lossy_packets_per_track", total)
	c23Parallel(run, base, n, 4, func(i, _ int) { // (run.Parallel would test Want(k), not Want(base+k): --replay of a lossy case ran nothing)
		r := run.CaseRand(i)

		// ---- the configuration, drawn before anything runs
		ntracks := 1
		if r.Chance(0.3) {
			ntracks = 2
		}
		senderSide := r.Intn(2)
		twccHdr := r.Chance(0.35)
		var tracks []*c23LossTrack
		var layout []string
		for idx := 0; idx < ntracks; idx++ {
			t := &c23LossTrack{c23Track: &c23Track{idx: idx, side: senderSide, codec: c23Codecs[r.Range(1, 4)], bare: r.Bool()}}
			t.streamID, t.id = c23ID(r, "ls"), c23ID(r, fmt.Sprintf("lt%d", idx))
			t.shape = c23DrawShape(r)
			t.seq0 = uint16(r.Intn(65536))
			if r.Chance(0.25) {
				t.seq0 = uint16(65536 - r.Range(1, total-1)) // wraps during the run
			}
			t.loss, t.drop = c23DrawLoss(r, total)
			for s := 0; s < total; s++ {
				size := r.Range(3, 1000)
				if r.Chance(0.1) {
					size = r.Range(1, 8)
				}
				payload := r.Bytes(size)
				payload[0] = byte(idx)
				if size >= 3 {
					binary.BigEndian.PutUint16(payload[1:3], uint16(s))
				}
				t.written = append(t.written, payload)
			}
			t.classes, t.profiles = make([]string, total), make([]string, total)
			t.dropped = make([]atomic.Bool, total)
			t.delivered, t.viaRTX = make([]int, total), make([]int, total)
			capab := RTPCodecCapability{MimeType: t.codec.mime}
			if !t.bare {
				capab.ClockRate = t.codec.clock
			}
			local, err := NewTrackLocalStaticRTP(capab, t.id, t.streamID)
			if err != nil {
				run.Inconclusive("lossy:track-setup")

				return
			}
			t.local = local
			tracks = append(tracks, t)
			layout = append(layout, fmt.Sprintf("#%d %s hdr=%s loss=%s first=%d", idx, t.codec.name, c23ShapeNames[t.shape], t.loss, t.seq0))
		}
		desc := fmt.Sprintf("lossy pair: sender=%s twccHeaderExtensionSender=%v tracks=[%s]",
			[]string{"offerer", "answerer"}[senderSide], twccHdr, strings.Join(layout, "; "))

		// ---- network and peers
		rigVnetMu.Lock()
		router, err := vnet.NewRouter(&vnet.RouterConfig{CIDR: "10.23.0.0/24", LoggerFactory: rigNullLoggerFactory{}})
		if err != nil {
			rigVnetMu.Unlock()
			run.Inconclusive("lossy:router")

			return
		}
		var nets [2]*vnet.Net
		for s, ip := range []string{"10.23.0.4", "10.23.0.5"} {
			nets[s], err = vnet.NewNet(&vnet.NetConfig{StaticIPs: []string{ip}})
			if err == nil {
				err = router.AddNet(nets[s])
			}
			if err != nil {
				rigVnetMu.Unlock()
				run.Inconclusive("lossy:net")

				return
			}
		}
		rigVnetMu.Unlock()
		if err = router.Start(); err != nil {
			run.Inconclusive("lossy:router-start")

			return
		}
		defer func() { _ = router.Stop() }()
		a, errA := c23LossyPC(nets[0], twccHdr)
		b, errB := c23LossyPC(nets[1], twccHdr)
		if errA != nil || errB != nil {
			rigClose(a, b)
			run.Inconclusive("lossy:pc")

			return
		}
		pcs := []*PeerConnection{a, b}
		var (
			remMu   sync.Mutex
			remotes []*c23LossRemote
			readers sync.WaitGroup
			rtxSeen atomic.Int32
			nRead   atomic.Int32
		)
		closed := false
		closeAll := func() {
			if closed {
				return
			}
			closed = true
			rigClose(a, b)
			done := make(chan struct{})
			go func() { readers.Wait(); close(done) }()
			select {
			case <-done:
			case <-time.After(10 * time.Second):
				run.Count("reader_goroutines_not_finished", 1)
			}
		}
		defer closeAll()

		sendPC, recvPC := pcs[senderSide], pcs[1-senderSide]
		for _, t := range tracks {
			if senderSide == 1 {
				if _, err = a.AddTransceiverFromKind(RTPCodecTypeVideo, RTPTransceiverInit{Direction: RTPTransceiverDirectionRecvonly}); err != nil {
					run.Inconclusive("lossy:addtransceiver")

					return
				}
			}
			if t.sender, err = sendPC.AddTrack(t.local); err != nil {
				run.Inconclusive("lossy:addtrack")

				return
			}
			sender := t.sender
			go func() { // keep the sender's RTCP (NACKs) flowing through the interceptors
				buf := make([]byte, 1500)
				for {
					if _, _, e := sender.Read(buf); e != nil {
						return
					}
				}
			}()
		}
		recvPC.OnTrack(func(remote *TrackRemote, _ *RTPReceiver) {
			rec := &c23LossRemote{ssrc: uint32(remote.SSRC()), stream: remote.StreamID(), id: remote.ID()}
			remMu.Lock()
			remotes = append(remotes, rec)
			remMu.Unlock()
			readers.Add(1)
			defer readers.Done()
			for {
				pkt, attrs, e := remote.ReadRTP()
				if e != nil {
					return
				}
				viaRTX := attrs.Get(AttributeRtxSsrc) != nil
				rec.mu.Lock()
				rec.pkts = append(rec.pkts, c23LossPkt{p: pkt, rtx: viaRTX})
				rec.mu.Unlock()
				nRead.Add(1)
				if viaRTX {
					rtxSeen.Add(1)
				}
			}
		})
		_, answer, err := rigExchange(a, b, nil, nil)
		if err != nil {
			run.Inconclusive("lossy:exchange")

			return
		}
		if !rigWaitConnected(15*time.Second, a, b) {
			run.Inconclusive("lossy:connect-watchdog")

			return
		}

		// ---- expectations from the descriptions (same reading as the loopback part)
		senderSDP, e1 := kit.ParseSDP(sendPC.LocalDescription().SDP)
		answerSDP, e2 := kit.ParseSDP(answer.SDP)
		if e1 != nil || e2 != nil {
			run.Inconclusive("lossy:description-unparsable")

			return
		}
		bySSRC := map[uint32]*c23LossTrack{}
		for _, t := range tracks {
			if why := c23Expect(t.c23Track, senderSDP, answerSDP); why != "" {
				run.Inconclusive("lossy:precondition: " + why)

				return
			}
			if !t.hasRTX {
				run.Inconclusive("lossy:rtx-not-negotiated")

				return
			}
			t.hdr = c23NewHdrCtx(c23SectionByMid(answerSDP, t.mid), t.mid, twccHdr)
			bySSRC[t.ssrc] = t
		}
		var nDropped atomic.Int32
		router.AddChunkFilter(func(c vnet.Chunk) bool {
			h := &rtp.Header{}
			if _, e := h.Unmarshal(c.UserData()); e != nil {
				return true
			}
			t := bySSRC[h.SSRC]
			if t == nil {
				return true
			}
			d := int(h.SequenceNumber - t.seq0)
			if d >= total || !t.drop[d] {
				return true
			}
			if !t.dropped[d].Swap(true) {
				nDropped.Add(1)
			}

			return false
		})

		// ---- traffic
		ts := r.Uint32()
		for s := 0; s < total; s++ {
			for _, t := range tracks {
				ts += uint32(r.Range(1, 4000))
				pkt := &rtp.Packet{
					Header: rtp.Header{
						Version: 2, Marker: r.Bool(), PayloadType: uint8(r.Intn(128)), SequenceNumber: t.seq0 + uint16(s),
						Timestamp: ts, SSRC: r.Uint32(),
					},
					Payload: append([]byte(nil), t.written[s]...),
				}
				t.classes[s], t.profiles[s] = c23ShapeHeader(r, t.shape, t.hdr, &pkt.Header)
				if err := t.local.WriteRTP(pkt); err != nil {
					run.Count("write_errors", 1)
				}
			}
			time.Sleep(2 * time.Millisecond)
		}
		kit.Eventually(2*time.Second, func() bool { return rtxSeen.Load() >= nDropped.Load()/2 }) // not deciding
		time.Sleep(20 * time.Millisecond)
		closeAll()

		// ---- evaluation
		reported := map[string]bool{}
		violation := func(sig, what string, extra map[string]any) {
			if reported[sig] {
				return
			}
			reported[sig] = true
			extra["configuration"] = desc
			extra["first_transmissions_dropped"] = nDropped.Load()
			extra["retransmissions_read"] = rtxSeen.Load()
			extra["replay_hint"] = "descriptions are regenerated on replay (ssrc, ufrag differ); configuration, payloads, headers and loss pattern are identical"
			run.Violation(sig, desc+": "+what, i, extra)
		}
		remMu.Lock()
		final := append([]*c23LossRemote(nil), remotes...)
		remMu.Unlock()
		for _, rec := range final {
			var t *c23LossTrack
			for _, x := range tracks {
				if x.ssrc == rec.ssrc || (t == nil && x.streamID == rec.stream && x.id == rec.id) {
					t = x
				}
			}
			if t == nil {
				violation("ssrc-mismatch:under-loss", fmt.Sprintf("OnTrack delivered a TrackRemote with SSRC %d (msid %q %q) that the sender's description does not announce", rec.ssrc, rec.stream, rec.id),
					map[string]any{"remote_ssrc": rec.ssrc})

				continue
			}
			t.remotes++
			rec.mu.Lock()
			pkts := rec.pkts
			rec.mu.Unlock()
			for _, lp := range pkts {
				c23LossJudge(run, tracks, t, lp, total, violation)
			}
		}

		// ---- evidence
		rtxVerified := 0
		for _, t := range tracks {
			if t.remotes == 0 {
				run.Inconclusive("lossy:ontrack-not-fired")
			}
			for s := 0; s < total; s++ {
				if t.viaRTX[s] > 0 {
					rtxVerified++
					run.Count("lossy_retransmissions_verified:"+t.classes[s], 1)
					if t.profiles[s] != "" {
						run.Seen("lossy_retransmitted_extension_profile", t.profiles[s])
					}
				}
				if t.dropped[s].Load() {
					if t.delivered[s] > 0 {
						run.Count("lossy_dropped_then_delivered", 1)
					} else {
						run.Count("lossy_dropped_never_delivered", 1)
					}
				}
			}
			run.Seen("lossy_codec", t.codec.name)
			run.Seen("lossy_header_shape", c23ShapeNames[t.shape])
			run.Seen("lossy_loss_pattern", strings.SplitN(t.loss, "(", 2)[0])
		}
		run.Seen("lossy_sender_side", []string{"offerer", "answerer"}[senderSide])
		run.Seen("lossy_tracks", fmt.Sprint(ntracks))
		if twccHdr {
			run.Count("lossy_cases_with_twcc_header_extension_sender", 1)
		}
		run.Case(desc, rtxSeen.Load() >= 2)
		run.Count("lossy_packets_dropped", int(nDropped.Load()))
		run.Count("lossy_retransmissions_verified", rtxVerified)
		run.Count("lossy_retransmissions_read", int(rtxSeen.Load()))
		run.Count("lossy_packets_received", int(nRead.Load()))
		if rtxSeen.Load() == 0 {
			run.Inconclusive("lossy:no-retransmission-observed")
		}
	})
}

// c23LossJudge judges one packet read from the TrackRemote of track t.
func c23LossJudge(run *kit.Run, tracks []*c23LossTrack, t *c23LossTrack, lp c23LossPkt, total int,
	violation func(sig, what string, extra map[string]any),
) {
	p := lp.p
	path := "direct"
	if lp.rtx {
		path = "retransmission"
	}
	obs := map[string]any{
		"path": path, "header_sequence_number": p.SequenceNumber, "header_ssrc": p.SSRC, "header_pt": p.PayloadType,
		"header_class_read": c23HeaderClass(p.Extension, len(p.CSRC)), "payload_len": len(p.Payload),
		"payload_head": kit.Hex(p.Payload[:min(len(p.Payload), 24)]), "track": t.String(), "first_sequence_number": t.seq0,
		"announced_ssrc": t.ssrc, "announced_rtx_ssrc": t.rtxSSRC, "allowed_payload_types": c23PTList(t.allowedPT),
	}
	if p.SSRC != t.ssrc {
		violation("ssrc-mismatch:under-loss", fmt.Sprintf("a packet (%s, seq %d) read from the TrackRemote has SSRC %d, the sender's description announces %d",
			path, p.SequenceNumber, p.SSRC, t.ssrc), obs)
	}
	if !t.allowedPT[p.PayloadType] {
		violation("payload-type-mismatch:under-loss:"+path, fmt.Sprintf("a packet (%s, seq %d) read from the TrackRemote has payload type %d; the applied answer maps %s to %v in mid %q",
			path, p.SequenceNumber, p.PayloadType, t.codec.name, c23PTList(t.allowedPT), t.mid), obs)
	}
	d := int(p.SequenceNumber - t.seq0)
	if d < total && bytes.Equal(p.Payload, t.written[d]) {
		t.delivered[d]++
		if lp.rtx {
			t.viaRTX[d]++
		}

		return
	}
	// not the packet written under this sequence number: is it an intact written packet at all?
	owner, m := (*c23LossTrack)(nil), -1
	if len(p.Payload) >= 3 {
		ke, ne := int(p.Payload[0]), int(binary.BigEndian.Uint16(p.Payload[1:3]))
		if ke < len(tracks) && ne < total && bytes.Equal(p.Payload, tracks[ke].written[ne]) {
			owner, m = tracks[ke], ne
		}
	} else {
		for _, x := range append([]*c23LossTrack{t}, tracks...) {
			for s := 0; s < total && owner == nil; s++ {
				if bytes.Equal(p.Payload, x.written[s]) {
					owner, m = x, s
				}
			}
		}
	}
	seqWritten := "no packet was written to the track with this sequence number"
	if d < total {
		seqWritten = fmt.Sprintf("packet %d was written with this sequence number, with another payload (%d bytes)", d, len(t.written[d]))
		obs["written_payload_head_for_sequence_number"] = kit.Hex(t.written[d][:min(len(t.written[d]), 24)])
	}
	switch {
	case owner == t:
		obs["written_packet"] = m
		obs["written_sequence_number"] = t.seq0 + uint16(m)
		obs["written_header_class"] = t.classes[m]
		obs["written_extension_profile"] = t.profiles[m]
		obs["first_transmission_dropped"] = t.dropped[m].Load()
		// the header class in the signature is the one of the packet as read (what the receiving path had in its hands:
		// an interceptor of the sender may have added an extension block to a packet written without one)
		readClass := c23HeaderClass(p.Extension, len(p.CSRC))
		violation("sequence-number-changed:"+path+":"+readClass,
			fmt.Sprintf("packet %d (written with sequence number %d and a %s header) was read from the TrackRemote via the %s path with a %s header and its payload intact, but with sequence number %d: %s",
				m, t.seq0+uint16(m), t.classes[m], path, readClass, p.SequenceNumber, seqWritten), obs)
	case owner != nil:
		obs["written_to"] = owner.String()
		obs["written_packet"] = m
		violation("misrouted-packet:under-loss:"+path, fmt.Sprintf("packet %d written to track #%d was read (%s) from the TrackRemote of track #%d", m, owner.idx, path, t.idx), obs)
	default:
		obs["observed_payload"] = kit.Hex(p.Payload)
		violation("payload-altered:retransmission-under-loss",
			fmt.Sprintf("a packet (%s, seq %d, %d payload bytes) read from the TrackRemote matches nothing that was written: %s", path, p.SequenceNumber, len(p.Payload), seqWritten), obs)
	}
}
