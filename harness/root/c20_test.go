package webrtc

import (
	"fmt"
	"strings"
	"sync"
	"sync/atomic"
	"testing"
	"time"

	kit "github.com/pion/webrtc/v4/internal/verifkit"
)

// C20 — DataChannel.readyState only moves forward (connecting → open → closing → closed, skipping allowed); after Close
// and transport teardown it ends in closed; OnOpen / OnClose run at most once per registration; Send on a channel that is
// not open returns an error.
//
// Monitor: every store to readyState is bracketed in the real code (verifhook.Bracket in setReadyState) so the log holds
// the exact total order of (old → new) per channel; scripted schedules park the racing actors (opener in handleOpen, local
// Close, read loop exit after a remote close, PeerConnection.Close) at the compiled-in yield points.

type c20Watch struct {
	dc      *DataChannel
	name    string
	opens   atomic.Int32
	closes  atomic.Int32
	closeAt atomic.Int64 // logical time Close() was called by the harness (0 = never)
	actors  int          // lifecycle part: PeerConnection.Close + own Close actions (0 = use the script's actor count)
}

type c20Pair struct {
	a, b    *PeerConnection
	mu      sync.Mutex
	watched []*c20Watch
}

func (p *c20Pair) watch(dc *DataChannel, name string) *c20Watch {
	w := &c20Watch{dc: dc, name: name}
	dc.OnOpen(func() { w.opens.Add(1) })
	dc.OnClose(func() { w.closes.Add(1) })
	p.mu.Lock()
	p.watched = append(p.watched, w)
	p.mu.Unlock()

	return w
}

// newC20Pair returns a connected pair (bootstrap data channel "boot" keeps SCTP up).
func newC20Pair() (*c20Pair, error) {
	p := &c20Pair{a: rigMustPC(rigOpts{}), b: rigMustPC(rigOpts{})}
	p.b.OnDataChannel(func(d *DataChannel) { p.watch(d, "remote:"+d.Label()) })
	p.a.OnDataChannel(func(d *DataChannel) { p.watch(d, "remote:"+d.Label()) })
	boot, err := p.a.CreateDataChannel("boot", nil)
	if err != nil {
		return p, err
	}
	opened := make(chan struct{})
	var once sync.Once
	boot.OnOpen(func() { once.Do(func() { close(opened) }) })
	if _, _, err = rigExchange(p.a, p.b, nil, nil); err != nil {
		return p, err
	}
	select {
	case <-opened:
	case <-time.After(15 * time.Second):
		return p, fmt.Errorf("bootstrap channel did not open")
	}

	return p, nil
}

func (p *c20Pair) remoteOf(label string, d time.Duration) *c20Watch {
	var out *c20Watch
	kit.Eventually(d, func() bool {
		p.mu.Lock()
		defer p.mu.Unlock()
		for _, w := range p.watched {
			if w.name == "remote:"+label {
				out = w

				return true
			}
		}

		return false
	})

	return out
}

func c20Rank(s int64) int { return int(s) } // connecting=1 < open=2 < closing=3 < closed=4 (unknown=0 before the first store)

func TestVerifC20(t *testing.T) { //nolint:cyclop,gocognit,maintidx
	run := kit.Start(t, "C20", "scripted interleavings of the racing actors on real connected pairs — opener parked in handleOpen, local Close/GracefulClose "+
		"parked between its closed-test and the closing store, read-loop exit after a remote close parked before the closed store, PeerConnection.Close — "+
		"plus perturbed random stress, plus a lifecycle part: PeerConnection.Close/GracefulClose at a random phase of the transport's life (never negotiated, "+
		"only local / only remote offer applied, answer never delivered, inside the ICE/DTLS/SCTP handshake, connected) with channels of random kinds created "+
		"before / after the phase / racing the close and closed before / after / racing it; every store to readyState is bracketed (exact order). Non-trivial = the channel saw ≥2 stores and ≥2 actors; "+
		"distinct by script name + store sequence")
	defer run.Finish()
	sched := kit.NewSched(kit.Seed())
	defer sched.Uninstall()
	const wd = 10 * time.Second

	// analyse checks every watched channel of a finished pair (both PeerConnections already closed).
	analyse := func(idx int, label string, p *c20Pair, actors int) {
		p.mu.Lock()
		ws := append([]*c20Watch{}, p.watched...)
		p.mu.Unlock()
		for _, w := range ws {
			evs := sched.Events("dc.readyState", w.dc)
			seq := make([]string, 0, len(evs))
			bad := ""
			for _, e := range evs {
				seq = append(seq, fmt.Sprintf("%s→%s", DataChannelState(e.A), DataChannelState(e.B)))
				if c20Rank(e.B) < c20Rank(e.A) && bad == "" {
					bad = fmt.Sprintf("%s→%s", DataChannelState(e.A), DataChannelState(e.B))
				}
			}
			desc := fmt.Sprintf("%s/%s: %s", label, w.name, strings.Join(seq, " "))
			nActors := actors
			if w.actors > 0 { // per-channel count: the closers recorded by the workload, plus the opener if it stored open
				nActors = w.actors
				for _, e := range evs {
					if DataChannelState(e.B) == DataChannelStateOpen {
						nActors++

						break
					}
				}
			}
			run.Case(desc, len(evs) >= 2 && nActors >= 2)
			run.Count("stores", len(evs))
			for _, s := range seq {
				run.Seen("store_edges", s)
			}
			detail := map[string]any{"schedule": label, "channel": w.name, "stores": seq, "opens": w.opens.Load(), "closes": w.closes.Load()}
			if bad != "" {
				run.Violation("backward-store:"+bad+":"+label, fmt.Sprintf("%s: readyState moved backwards (%s); stores: %s", desc, bad, strings.Join(seq, " ")), idx, detail)
			}
			if final := w.dc.ReadyState(); final != DataChannelStateClosed {
				// both PeerConnections are closed: the transport is gone
				run.Violation("not-closed-after-teardown:"+final.String()+":"+label,
					fmt.Sprintf("%s: PeerConnection closed (transport gone) but readyState is %s; stores: %s", desc, final, strings.Join(seq, " ")), idx, detail)
			}
			if n := w.opens.Load(); n > 1 {
				run.Violation("onopen-twice:"+label, fmt.Sprintf("%s: OnOpen handler ran %d times for one registration", desc, n), idx, detail)
			}
			if n := w.closes.Load(); n > 1 {
				run.Violation("onclose-twice:"+label, fmt.Sprintf("%s: OnClose handler ran %d times for one registration", desc, n), idx, detail)
			}
			if err := w.dc.Send([]byte("x")); err == nil {
				run.Violation("send-on-closed-ok:"+label, fmt.Sprintf("%s: Send returned nil although readyState is %s", desc, w.dc.ReadyState()), idx, detail)
			}
		}
	}
	// probe Send while the channel is observably not open
	sendProbe := func(idx int, label string, w *c20Watch) {
		st := w.dc.ReadyState()
		if st == DataChannelStateOpen {
			return
		}
		err := w.dc.Send([]byte("probe"))
		// the state may have become open between the read and the Send: only a still-not-open channel is decisive
		if err == nil && w.dc.ReadyState() != DataChannelStateOpen {
			run.Violation("send-not-open-ok:"+st.String(), fmt.Sprintf("%s/%s: Send returned nil while readyState was %s", label, w.name, st), idx,
				map[string]any{"schedule": label, "state": st.String()})
		}
		run.Count("send_probes_not_open", 1)
	}
	finishPair := func(p *c20Pair) bool {
		sched.ReleaseAll()
		_ = p.a.Close()
		_ = p.b.Close()
		// A peer may already be closing on its own (the remote DTLS close makes pion close the PeerConnection from an
		// internal goroutine), in which case Close returns at once while that close is still walking the channels.
		// GracefulClose waits for the close in progress, so "the transport is gone" really holds when the oracle runs.
		done := make(chan struct{})
		go func() { _ = p.a.GracefulClose(); _ = p.b.GracefulClose(); close(done) }()
		select {
		case <-done:
		case <-time.After(wd):
			run.Inconclusive("final-gracefulclose-did-not-return")

			return false
		}
		time.Sleep(5 * time.Millisecond) // let handler goroutines of the last transitions run (they only add to counters)

		return true
	}

	type script struct {
		name   string
		actors int
		f      func(p *c20Pair) bool
	}
	inGo := func(f func()) chan struct{} {
		ch := make(chan struct{})
		go func() { defer close(ch); f() }()

		return ch
	}
	waitCh := func(ch chan struct{}) bool {
		select {
		case <-ch:
			return true
		case <-time.After(wd):
			return false
		}
	}
	openOn := func(p *c20Pair, label string) (*c20Watch, bool) {
		dc, err := p.a.CreateDataChannel(label, nil)
		if err != nil {
			return nil, false
		}
		w := p.watch(dc, "local:"+label)
		if !kit.Eventually(wd, func() bool { return dc.ReadyState() == DataChannelStateOpen }) {
			return w, false
		}

		return w, true
	}
	scripts := []script{
		{"close-parked|remote-close", 2, func(p *c20Pair) bool {
			w, ok := openOn(p, "s1")
			if !ok {
				return false
			}
			rw := p.remoteOf("s1", wd)
			if rw == nil || !kit.Eventually(wd, func() bool { return rw.dc.ReadyState() == DataChannelStateOpen }) {
				return false
			}
			sched.Block("dc.close.beforeClosing", 1)
			closer := inGo(func() { _ = w.dc.Close() })
			if !sched.WaitReached("dc.close.beforeClosing", wd) {
				return false
			}
			_ = rw.dc.Close() // remote close: the local read loop sees EOF and stores closed
			kit.Eventually(2*time.Second, func() bool { return w.dc.ReadyState() == DataChannelStateClosed })
			sched.Release("dc.close.beforeClosing")

			return waitCh(closer)
		}},
		{"opener-parked|local-close", 2, func(p *c20Pair) bool {
			sched.Block("dc.handleOpen.beforeOpen", 1)
			var w *c20Watch
			creator := inGo(func() {
				dc, err := p.a.CreateDataChannel("s2", nil)
				if err == nil {
					w = p.watch(dc, "local:s2")
				}
			})
			if !sched.WaitReached("dc.handleOpen.beforeOpen", wd) {
				return false
			}
			// CreateDataChannel has not returned yet: reach the channel object through the transport's list (white-box)
			var dc *DataChannel
			p.a.sctpTransport.lock.Lock()
			for _, d := range p.a.sctpTransport.dataChannels {
				if d.Label() == "s2" {
					dc = d
				}
			}
			p.a.sctpTransport.lock.Unlock()
			if dc == nil {
				return false
			}
			w2 := p.watch(dc, "local:s2")
			_ = dc.Close()
			sendProbe(0, "opener-parked|local-close", w2)
			sched.Release("dc.handleOpen.beforeOpen")
			ok := waitCh(creator)
			_ = w

			return ok
		}},
		{"opener-parked|pc-close", 2, func(p *c20Pair) bool {
			sched.Block("dc.handleOpen.beforeOpen", 1)
			creator := inGo(func() {
				if dc, err := p.a.CreateDataChannel("s3", nil); err == nil {
					p.watch(dc, "local:s3")
				}
			})
			if !sched.WaitReached("dc.handleOpen.beforeOpen", wd) {
				return false
			}
			closer := inGo(func() { _ = p.a.Close() })
			// Close stores closed on every channel early on; give it time to get there, then let the opener continue
			time.Sleep(20 * time.Millisecond)
			sched.Release("dc.handleOpen.beforeOpen")

			return waitCh(creator) && waitCh(closer)
		}},
		{"remote-opener-parked|close-from-ondatachannel", 2, func(p *c20Pair) bool {
			// the REMOTE side's channel object is opened by the accept path; park it and close it meanwhile
			sched.Block("dc.handleOpen.beforeOpen", 2) // first arrival: local opener of a; second: remote accept on b (order may vary)
			creator := inGo(func() {
				if dc, err := p.a.CreateDataChannel("s4", nil); err == nil {
					p.watch(dc, "local:s4")
				}
			})
			if !sched.WaitReached("dc.handleOpen.beforeOpen", wd) {
				return false
			}
			time.Sleep(10 * time.Millisecond)
			var rdc *DataChannel
			p.b.sctpTransport.lock.Lock()
			for _, d := range p.b.sctpTransport.dataChannels {
				if d.Label() == "s4" {
					rdc = d
				}
			}
			p.b.sctpTransport.lock.Unlock()
			if rdc != nil {
				_ = rdc.Close()
			}
			sched.Release("dc.handleOpen.beforeOpen")

			return waitCh(creator)
		}},
		{"readloop-parked|local-close", 2, func(p *c20Pair) bool {
			w, ok := openOn(p, "s5")
			if !ok {
				return false
			}
			rw := p.remoteOf("s5", wd)
			if rw == nil {
				return false
			}
			sched.Block("dc.readLoop.beforeClosed", 1)
			_ = rw.dc.Close()
			if !sched.WaitReached("dc.readLoop.beforeClosed", wd) {
				return false
			}
			sendProbe(0, "readloop-parked|local-close", w)
			_ = w.dc.Close()
			sendProbe(0, "readloop-parked|local-close", w)
			sched.Release("dc.readLoop.beforeClosed")

			return true
		}},
		{"close-parked|pc-close", 2, func(p *c20Pair) bool {
			w, ok := openOn(p, "s6")
			if !ok {
				return false
			}
			sched.Block("dc.close.beforeClosing", 1)
			closer := inGo(func() { _ = w.dc.Close() })
			if !sched.WaitReached("dc.close.beforeClosing", wd) {
				return false
			}
			pcCloser := inGo(func() { _ = p.a.Close() })
			time.Sleep(20 * time.Millisecond)
			sched.Release("dc.close.beforeClosing")

			return waitCh(closer) && waitCh(pcCloser)
		}},
		{"graceful-close|remote-close", 2, func(p *c20Pair) bool {
			w, ok := openOn(p, "s7")
			if !ok {
				return false
			}
			rw := p.remoteOf("s7", wd)
			if rw == nil {
				return false
			}
			g := inGo(func() { _ = w.dc.GracefulClose() })
			_ = rw.dc.Close()

			return waitCh(g)
		}},
		{"close-before-open|then-connect", 2, func(p *c20Pair) bool {
			// a channel closed while still connecting (created before the transport exists) on a fresh pair
			x, y := rigMustPC(rigOpts{}), rigMustPC(rigOpts{})
			q := &c20Pair{a: x, b: y}
			y.OnDataChannel(func(d *DataChannel) { q.watch(d, "remote:"+d.Label()) })
			dc, err := x.CreateDataChannel("early", nil)
			if err != nil {
				return false
			}
			w := q.watch(dc, "local:early")
			keep, _ := x.CreateDataChannel("keep", nil)
			_ = keep
			_ = dc.Close()
			sendProbe(0, "close-before-open", w)
			if _, _, err = rigExchange(x, y, nil, nil); err != nil {
				return false
			}
			rigWaitConnected(wd, x, y)
			time.Sleep(20 * time.Millisecond)
			_ = x.Close()
			_ = y.Close()
			p.mu.Lock()
			p.watched = append(p.watched, q.watched...)
			p.mu.Unlock()

			return true
		}},
	}
	reps := kit.N(3, 40)
	idx := 0
	for rep := 0; rep < reps; rep++ {
		for _, sc := range scripts {
			if !run.Want(idx) {
				idx++

				continue
			}
			sched.ResetEvents()
			p, err := newC20Pair()
			if err != nil {
				run.Inconclusive("pair-setup:" + firstN(err.Error(), 40))
				finishPair(p)
				idx++

				continue
			}
			if rep%2 == 1 {
				sched.Perturb(0.3)
			}
			ok := sc.f(p)
			sched.Perturb(0)
			if !finishPair(p) {
				idx++

				continue
			}
			if !ok {
				run.Inconclusive("scripted-point-not-reached:" + sc.name)
			} else {
				analyse(idx, sc.name, p, sc.actors)
				run.Seen("schedules", sc.name)
			}
			idx++
		}
	}
	nScripted := idx

	// ---- random stress: several channels per pair, racing actors, perturbed yield points
	nRand := kit.N(40, 1200)
	for i := nScripted; i < nScripted+nRand; i++ {
		if !run.Want(i) {
			continue
		}
		r := run.CaseRand(i)
		sched.ResetEvents()
		p, err := newC20Pair()
		if err != nil {
			run.Inconclusive("pair-setup:" + firstN(err.Error(), 40))
			finishPair(p)

			continue
		}
		sched.Perturb(0.5)
		nch := r.Range(2, 8)
		var wg sync.WaitGroup
		for c := 0; c < nch; c++ {
			wg.Add(1)
			seed := r.Uint64()
			go func(c int) {
				defer wg.Done()
				rr := kit.NewRand(seed, uint64(c))
				label := fmt.Sprintf("r%d", c)
				dc, err := p.a.CreateDataChannel(label, nil)
				if err != nil {
					return
				}
				w := p.watch(dc, "local:"+label)
				time.Sleep(time.Duration(rr.Intn(3000)) * time.Microsecond)
				var inner sync.WaitGroup
				acts := rr.Range(1, 3)
				for k := 0; k < acts; k++ {
					inner.Add(1)
					kind := rr.Intn(4)
					d := time.Duration(rr.Intn(2000)) * time.Microsecond
					go func() {
						defer inner.Done()
						time.Sleep(d)
						switch kind {
						case 0:
							_ = dc.Close()
						case 1:
							if rw := p.remoteOf(label, 2*time.Second); rw != nil {
								_ = rw.dc.Close()
							}
						case 2:
							sendProbe(i, "random", w)
						default:
							_ = dc.Close()
							sendProbe(i, "random", w)
						}
					}()
				}
				inner.Wait()
			}(c)
		}
		if r.Chance(0.4) {
			wg.Add(1)
			d := time.Duration(r.Intn(4000)) * time.Microsecond
			go func() { defer wg.Done(); time.Sleep(d); _ = p.a.Close() }()
		}
		done := inGo(wg.Wait)
		if !waitCh(done) {
			run.Inconclusive("random-actors-did-not-return")
		}
		sched.Perturb(0)
		if finishPair(p) {
			analyse(i, "random", p, 2)
		}
	}

	// ---- lifecycle part: the connection is closed at every phase of the transport's life (c20_lifecycle_test.go)
	c20Lifecycle(c20LifeEnv{run: run, sched: sched, wd: wd, analyse: analyse, finishPair: finishPair, sendProbe: sendProbe},
		nScripted+nRand, kit.N(96, 1200))
	run.Set("hook_passes", sched.AllPasses())
}
