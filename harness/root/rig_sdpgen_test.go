package webrtc

// Foreign-SDP generator shared by the negotiation monitors: builds syntactically valid remote offers/answers
// from a seed, with hostile but legal structure (sparse / non-numeric mids, unknown media kinds, absent
// directions, remapped or colliding payload types, unsupported codecs, permuted extmap ids ...).

import (
	"fmt"
	"strings"

	kit "github.com/pion/webrtc/v4/internal/verifkit"
)

type genCodec struct {
	PT    int
	Name  string // e.g. "VP8"
	Clock int
	Ch    int // 0 = omitted
	Fmtp  string
	Fb    []string
}

type genExt struct {
	ID  int
	URI string
}

type genMedia struct {
	Kind       string // audio | video | application | text | message
	Mid        string
	NoMid      bool
	Port       int
	Proto      string
	Dir        string // "" = no direction attribute
	Codecs     []genCodec
	Exts       []genExt
	Msid       string // "<stream> <track>" or ""
	SSRCs      []uint32
	FID        bool // SSRCs[0],SSRCs[1] are an FID group
	Setup      string
	NoSetup    bool
	ICEAtMedia bool
	FPAtMedia  bool
	RTCPMux    bool
	Rids       []string
	SCTPPort   int
	Extra      []string
}

type genSDP struct {
	SessID, SessVer uint64
	Bundle          bool
	BundleMids      []string // nil: all accepted mids
	Ufrag, Pwd      string
	Fingerprint     string // "sha-256 AA:BB..."
	NoSessICE       bool   // omit session-level ice-ufrag/pwd (then ICEAtMedia must carry them)
	NoSessFP        bool
	ICELite         bool
	MsidSemantic    bool
	Media           []*genMedia
	Extra           []string
}

const genFingerprint = "sha-256 0F:74:31:25:CB:A2:13:EC:28:6F:6D:2C:61:FF:5D:C2:BC:B9:DB:3D:98:14:8D:1A:BB:EA:33:0C:A4:60:A8:8E"

func (c genCodec) rtpmap() string {
	s := fmt.Sprintf("a=rtpmap:%d %s/%d", c.PT, c.Name, c.Clock)
	if c.Ch > 0 {
		s += fmt.Sprintf("/%d", c.Ch)
	}

	return s
}

// String renders the description.
func (g *genSDP) String() string {
	var b []string
	add := func(f string, a ...any) { b = append(b, fmt.Sprintf(f, a...)) }
	add("v=0")
	add("o=- %d %d IN IP4 127.0.0.1", g.SessID, g.SessVer)
	add("s=-")
	add("t=0 0")
	if g.ICELite {
		add("a=ice-lite")
	}
	if !g.NoSessFP {
		add("a=fingerprint:%s", g.Fingerprint)
	}
	if g.Bundle {
		mids := g.BundleMids
		if mids == nil {
			for _, m := range g.Media {
				if !m.NoMid && m.Port != 0 {
					mids = append(mids, m.Mid)
				}
			}
		}
		add("a=group:BUNDLE %s", strings.Join(mids, " "))
	}
	if g.MsidSemantic {
		add("a=msid-semantic: WMS *")
	}
	if !g.NoSessICE {
		add("a=ice-ufrag:%s", g.Ufrag)
		add("a=ice-pwd:%s", g.Pwd)
	}
	b = append(b, g.Extra...)
	for _, m := range g.Media {
		fm := make([]string, 0, len(m.Codecs))
		if m.Kind == "application" {
			fm = append(fm, "webrtc-datachannel")
		} else {
			for _, c := range m.Codecs {
				fm = append(fm, fmt.Sprint(c.PT))
			}
			if len(fm) == 0 {
				fm = append(fm, "0")
			}
		}
		add("m=%s %d %s %s", m.Kind, m.Port, m.Proto, strings.Join(fm, " "))
		add("c=IN IP4 0.0.0.0")
		if m.Setup != "" && !m.NoSetup {
			add("a=setup:%s", m.Setup)
		}
		if !m.NoMid {
			add("a=mid:%s", m.Mid)
		}
		if g.NoSessICE || m.ICEAtMedia {
			add("a=ice-ufrag:%s", g.Ufrag)
			add("a=ice-pwd:%s", g.Pwd)
		}
		if g.NoSessFP || m.FPAtMedia {
			add("a=fingerprint:%s", g.Fingerprint)
		}
		if m.Kind == "application" {
			add("a=sctp-port:%d", m.SCTPPort)
			b = append(b, m.Extra...)

			continue
		}
		if m.RTCPMux {
			add("a=rtcp-mux")
			add("a=rtcp-rsize")
		}
		for _, e := range m.Exts {
			add("a=extmap:%d %s", e.ID, e.URI)
		}
		for _, c := range m.Codecs {
			b = append(b, c.rtpmap())
			for _, fb := range c.Fb {
				add("a=rtcp-fb:%d %s", c.PT, fb)
			}
			if c.Fmtp != "" {
				add("a=fmtp:%d %s", c.PT, c.Fmtp)
			}
		}
		if m.Msid != "" {
			add("a=msid:%s", m.Msid)
		}
		if m.FID && len(m.SSRCs) >= 2 {
			add("a=ssrc-group:FID %d %d", m.SSRCs[0], m.SSRCs[1])
		}
		for _, s := range m.SSRCs {
			add("a=ssrc:%d cname:gen", s)
			if m.Msid != "" {
				add("a=ssrc:%d msid:%s", s, m.Msid)
			}
		}
		for _, rid := range m.Rids {
			add("a=rid:%s send", rid)
		}
		if len(m.Rids) > 0 {
			add("a=simulcast:send %s", strings.Join(m.Rids, ";"))
		}
		if m.Dir != "" {
			add("a=%s", m.Dir)
		}
		b = append(b, m.Extra...)
	}

	return strings.Join(b, "\r\n") + "\r\n"
}

// Desc wraps the text as a SessionDescription of the given type.
func (g *genSDP) Desc(t SDPType) SessionDescription {
	return SessionDescription{Type: t, SDP: g.String()}
}

var genVideoFb = []string{"goog-remb", "ccm fir", "nack", "nack pli", "transport-cc"} //nolint:gochecknoglobals

// genDefaultAudio / genDefaultVideo mirror pion's default registrations (original payload types).
func genDefaultAudio() []genCodec {
	return []genCodec{
		{111, "opus", 48000, 2, "minptime=10;useinbandfec=1", nil},
		{9, "G722", 8000, 0, "", nil},
		{0, "PCMU", 8000, 0, "", nil},
		{8, "PCMA", 8000, 0, "", nil},
	}
}

func genDefaultVideo() []genCodec {
	return []genCodec{
		{96, "VP8", 90000, 0, "", genVideoFb},
		{97, "rtx", 90000, 0, "apt=96", nil},
		{102, "H264", 90000, 0, "level-asymmetry-allowed=1;packetization-mode=1;profile-level-id=42001f", genVideoFb},
		{103, "rtx", 90000, 0, "apt=102", nil},
		{106, "H264", 90000, 0, "level-asymmetry-allowed=1;packetization-mode=1;profile-level-id=42e01f", genVideoFb},
		{107, "rtx", 90000, 0, "apt=106", nil},
		{45, "AV1", 90000, 0, "", genVideoFb},
		{46, "rtx", 90000, 0, "apt=45", nil},
		{98, "VP9", 90000, 0, "profile-id=0", genVideoFb},
		{99, "rtx", 90000, 0, "apt=98", nil},
		{100, "VP9", 90000, 0, "profile-id=2", genVideoFb},
		{101, "rtx", 90000, 0, "apt=100", nil},
	}
}

var genExtURIs = []string{ //nolint:gochecknoglobals
	"urn:ietf:params:rtp-hdrext:sdes:mid",
	"urn:ietf:params:rtp-hdrext:sdes:rtp-stream-id",
	"urn:ietf:params:rtp-hdrext:sdes:repaired-rtp-stream-id",
	"http://www.ietf.org/id/draft-holmer-rmcat-transport-wide-cc-extensions-01",
	"http://www.webrtc.org/experiments/rtp-hdrext/abs-send-time",
	"urn:ietf:params:rtp-hdrext:ssrc-audio-level",
	"urn:ietf:params:rtp-hdrext:toffset",
	"urn:3gpp:video-orientation",
	"http://www.webrtc.org/experiments/rtp-hdrext/playout-delay",
}

// genOpts steers genRandomOffer.
type genOpts struct {
	MaxSections   int      // default 5
	Kinds         []string // default audio, video, application (+ text/message when Unknown)
	Unknown       bool     // allow unknown media kinds (text, message)
	MidStyle      int      // -1 random; 0 dense numeric; 1 sparse numeric; 2 non-numeric; 3 mixed
	Dirs          []string // allowed direction values ("" = absent); default all incl. absent when AbsentDir
	AbsentDir     bool
	PTRemap       bool // permute payload types (consistently per description), unsupported codecs
	PTPerSection  bool // allow the same codec to get different payload types in different sections (legal without a shared PT meaning clash)
	ExtPermute    bool // permute extmap ids
	NoBundle      bool // allow BUNDLE to be absent
	RejectedOK    bool // allow port-0 sections in the offer
	SingleApp     bool // at most one application section (default true behaviour)
	MediaLevelSec bool // allow credentials / fingerprint at media level only
}

// genRandomOffer builds a random, syntactically valid foreign offer.
func genRandomOffer(r *kit.Rand, o genOpts) *genSDP { //nolint:gocognit,cyclop
	if o.MaxSections == 0 {
		o.MaxSections = 5
	}
	g := &genSDP{
		SessID: uint64(r.Int64N(1 << 62)), SessVer: uint64(r.Int64N(1<<31)) + 2,
		Bundle: true, Ufrag: "genUfrag" + fmt.Sprint(r.Intn(100000)), Pwd: "genPasswordgenPasswordgenPwd" + fmt.Sprint(r.Intn(100000)),
		Fingerprint: genFingerprint, MsidSemantic: r.Bool(),
	}
	if o.NoBundle && r.Chance(0.2) {
		g.Bundle = false
	}
	if o.MediaLevelSec {
		switch r.Intn(4) {
		case 0:
			g.NoSessICE = true
		case 1:
			g.NoSessFP = true
		case 2:
			g.NoSessICE, g.NoSessFP = true, true
		}
	}
	n := r.Range(1, o.MaxSections)
	kinds := o.Kinds
	if kinds == nil {
		kinds = []string{"audio", "video", "video", "audio", "application"}
		if o.Unknown {
			kinds = append(kinds, "text", "message")
		}
	}
	midStyle := o.MidStyle
	if midStyle < 0 {
		midStyle = r.Intn(4)
	}
	usedMids := map[string]bool{}
	nextSparse := r.Intn(3)
	nonNumeric := []string{"a", "b", "audio0", "video0", "data", "x-1", "m", "cam", "mic", "z9"}
	haveApp := false
	setup := "actpass"
	ssrc := uint32(r.Range(1000, 1<<30))
	remap := newGenRemap(r)
	for i := 0; i < n; i++ {
		m := &genMedia{Port: 9, Proto: "UDP/TLS/RTP/SAVPF", Setup: setup, RTCPMux: true}
		m.Kind = kit.Pick(r, kinds)
		if m.Kind == "application" {
			if haveApp {
				m.Kind = "video"
			} else {
				haveApp = true
			}
		}
		// mid
		style := midStyle
		if style == 3 {
			style = r.Intn(3)
		}
		for {
			switch style {
			case 0:
				m.Mid = fmt.Sprint(i)
			case 1:
				m.Mid = fmt.Sprint(nextSparse)
				nextSparse += r.Range(1, 4)
			default:
				m.Mid = kit.Pick(r, nonNumeric)
			}
			if !usedMids[m.Mid] {
				break
			}
			style = 1
			nextSparse += 10
		}
		usedMids[m.Mid] = true
		// direction
		dirs := o.Dirs
		if dirs == nil {
			dirs = []string{"sendrecv", "sendonly", "recvonly", "inactive"}
			if o.AbsentDir {
				dirs = append(dirs, "")
			}
		}
		m.Dir = kit.Pick(r, dirs)
		switch m.Kind {
		case "application":
			m.Proto = "UDP/DTLS/SCTP"
			m.SCTPPort = 5000
			m.Dir = ""
		case "audio":
			m.Codecs = genDefaultAudio()
		case "video":
			m.Codecs = genDefaultVideo()
		case "text":
			m.Proto = "UDP/TLS/RTP/SAVPF"
			m.Codecs = []genCodec{{98, "t140", 1000, 0, "", nil}, {100, "red", 1000, 0, "98/98/98", nil}}
		case "message":
			m.Proto = "UDP/TLS/RTP/SAVPF"
			m.Codecs = []genCodec{{120, "x-msg", 1000, 0, "", nil}}
		}
		if (m.Kind == "audio" || m.Kind == "video") && o.PTRemap {
			if o.PTPerSection && r.Chance(0.3) {
				remap.forgetKind(m.Kind)
			}
			genRemapCodecs(r, m, remap)
		} else if m.Kind == "audio" || m.Kind == "video" {
			// random subset keeping order, always at least one codec
			if r.Chance(0.4) {
				m.Codecs = genSubset(r, m.Codecs)
			}
		}
		if m.Kind == "audio" || m.Kind == "video" {
			ids := []int{1, 2, 3, 4, 5, 6, 7, 8, 9, 10, 11, 12, 13, 14}
			if o.ExtPermute {
				kit.Shuffle(r, ids)
			}
			// BUNDLE-consistent: the id of a URI is a function of the URI for the whole description
			for k, uri := range genExtURIs {
				if m.Kind == "audio" && (strings.Contains(uri, "toffset") || strings.Contains(uri, "video-orientation") || strings.Contains(uri, "playout")) {
					continue
				}
				if m.Kind == "video" && strings.Contains(uri, "audio-level") {
					continue
				}
				if r.Chance(0.7) {
					m.Exts = append(m.Exts, genExt{ids[k], uri})
				}
			}
			if m.Dir == "sendrecv" || m.Dir == "sendonly" || m.Dir == "" {
				m.Msid = fmt.Sprintf("gstream%d gtrack%d", r.Intn(3), i)
				m.SSRCs = []uint32{ssrc}
				ssrc++
				if m.Kind == "video" && r.Bool() {
					m.SSRCs = append(m.SSRCs, ssrc)
					m.FID = true
					ssrc++
				}
			}
		}
		if o.RejectedOK && r.Chance(0.1) {
			m.Port = 0
		}
		if o.MediaLevelSec && r.Chance(0.3) {
			m.ICEAtMedia, m.FPAtMedia = r.Bool(), r.Bool()
		}
		g.Media = append(g.Media, m)
	}
	if o.ExtPermute {
		// make ids consistent per URI across sections (BUNDLE requirement): first assignment wins
		seen := map[string]int{}
		for _, m := range g.Media {
			for k := range m.Exts {
				if id, ok := seen[m.Exts[k].URI]; ok {
					m.Exts[k].ID = id
				} else {
					seen[m.Exts[k].URI] = m.Exts[k].ID
				}
			}
		}
	}

	return g
}

func genSubset(r *kit.Rand, cs []genCodec) []genCodec {
	var out []genCodec
	keep := map[int]bool{}
	for _, c := range cs {
		if c.Name == "rtx" {
			continue
		}
		if r.Chance(0.6) {
			out = append(out, c)
			keep[c.PT] = true
		}
	}
	if len(out) == 0 {
		out = append(out, cs[0])
		keep[cs[0].PT] = true
	}
	// re-attach rtx of kept primaries (sometimes)
	var res []genCodec
	for _, c := range out {
		res = append(res, c)
		for _, x := range cs {
			if x.Name == "rtx" && x.Fmtp == fmt.Sprintf("apt=%d", c.PT) && r.Chance(0.7) {
				res = append(res, x)
			}
		}
	}

	return res
}

// genRemap is the description-wide payload-type assignment: one PT per (codec identity), never two codecs on one PT.
type genRemap struct {
	pool []int
	next int
	byID map[string]int // codec identity -> PT
	used map[int]string // PT -> codec identity
}

func newGenRemap(r *kit.Rand) *genRemap {
	g := &genRemap{byID: map[string]int{}, used: map[int]string{}}
	for pt := 96; pt <= 127; pt++ {
		g.pool = append(g.pool, pt)
	}
	for pt := 35; pt <= 63; pt++ {
		g.pool = append(g.pool, pt)
	}
	kit.Shuffle(r, g.pool)

	return g
}

func (g *genRemap) fresh() int {
	for g.next < len(g.pool) {
		pt := g.pool[g.next]
		g.next++
		if _, taken := g.used[pt]; !taken {
			return pt
		}
	}

	return -1
}

// forgetKind drops the identity->PT table (the PTs stay reserved), so the next section gets new PTs for the same codecs.
func (g *genRemap) forgetKind(string) { g.byID = map[string]int{} }

// assign returns the PT of codec identity id, preferring `want` when it is free.
func (g *genRemap) assign(id string, want int, keepWant bool) int {
	if pt, ok := g.byID[id]; ok {
		return pt
	}
	pt := -1
	if keepWant {
		if _, taken := g.used[want]; !taken {
			pt = want
		}
	}
	if pt < 0 {
		pt = g.fresh()
	}
	if pt < 0 {
		return -1
	}
	g.byID[id] = pt
	g.used[pt] = id

	return pt
}

// genRemapCodecs gives the section hostile-but-legal codec lists: permuted payload types (consistent across the
// description), unsupported codecs, RTX with absent primary, case changes.
func genRemapCodecs(r *kit.Rand, m *genMedia, rm *genRemap) {
	base := genSubset(r, m.Codecs)
	if r.Chance(0.5) {
		base = m.Codecs
	}
	ident := func(c genCodec) string { return fmt.Sprintf("%s|%s/%d/%d|%s", m.Kind, strings.ToLower(c.Name), c.Clock, c.Ch, c.Fmtp) }
	newPT := map[int]int{} // old PT (pion default) -> new PT in this section
	for _, c := range base {
		if c.Name == "rtx" {
			continue
		}
		keep := (c.PT < 35 && r.Chance(0.7)) || r.Chance(0.3)
		newPT[c.PT] = rm.assign(ident(c), c.PT, keep)
	}
	var out []genCodec
	for _, c := range base {
		c2 := c
		if c.Name == "rtx" {
			var apt int
			_, _ = fmt.Sscanf(c.Fmtp, "apt=%d", &apt)
			nw, ok := newPT[apt]
			switch {
			case ok && nw >= 0:
				c2.Fmtp = fmt.Sprintf("apt=%d", nw)
			case r.Bool():
				continue // drop rtx whose primary is gone
			default:
				// keep an rtx with a dangling apt (primary absent from this section)
				c2.Fmtp = fmt.Sprintf("apt=%d", apt)
			}
			c2.PT = rm.assign(m.Kind+"|rtx|"+c2.Fmtp, c.PT, r.Chance(0.3))
		} else {
			c2.PT = newPT[c.PT]
		}
		if c2.PT < 0 {
			continue
		}
		if r.Chance(0.15) {
			c2.Name = strings.ToUpper(c2.Name)
		} else if r.Chance(0.1) {
			c2.Name = strings.ToLower(c2.Name)
		}
		out = append(out, c2)
	}
	if r.Chance(0.4) {
		var uc genCodec
		if m.Kind == "video" {
			uc = genCodec{0, kit.Pick(r, []string{"H263-1998", "FOO", "ulpfec", "red"}), 90000, 0, "", nil}
		} else {
			uc = genCodec{0, kit.Pick(r, []string{"ISAC", "CN", "telephone-event", "speex"}), kit.Pick(r, []int{8000, 16000, 32000}), 0, "", nil}
		}
		uc.PT = rm.assign(ident(uc), 0, false)
		if uc.PT >= 0 {
			out = append(out, uc)
		}
	}
	if r.Chance(0.3) {
		kit.Shuffle(r, out)
	}
	if r.Chance(0.05) || len(out) == 0 {
		uc := genCodec{0, "FOO", 90000, 0, "", nil}
		uc.PT = rm.assign(ident(uc), 0, false)
		if uc.PT < 0 {
			uc.PT = 127
		}
		out = []genCodec{uc}
	}
	m.Codecs = out
}
