package webrtc

import (
	"fmt"
	"sync"
	"sync/atomic"
	"time"

	"github.com/pion/interceptor"
	"github.com/pion/rtp"
	kit "github.com/pion/webrtc/v4/internal/verifkit"
)

// Concurrent part of C29: an Unbind issued while a WriteRTP is in the middle of its fan-out (the in-flight write is
// parked inside one binding's write stream). Exactly-once delivery per live binding and "no packet after the binding
// was removed" must survive that interleaving.

type c29cDelivery struct {
	T    int64
	Seq  uint16
	SSRC uint32
	PT   uint8
}

type c29cWriter struct {
	mu      sync.Mutex
	got     []c29cDelivery
	armed   atomic.Bool
	reached chan struct{}
	gate    chan struct{}
}

func (w *c29cWriter) WriteRTP(h *rtp.Header, _ []byte) (int, error) {
	if w.armed.CompareAndSwap(true, false) {
		close(w.reached)
		<-w.gate
	}
	t := kit.Stamp()
	w.mu.Lock()
	w.got = append(w.got, c29cDelivery{T: t, Seq: h.SequenceNumber, SSRC: h.SSRC, PT: h.PayloadType})
	w.mu.Unlock()

	return 0, nil
}

func (w *c29cWriter) Write(b []byte) (int, error) { return len(b), nil }

func (w *c29cWriter) count(seq uint16) (n int, last int64) {
	w.mu.Lock()
	defer w.mu.Unlock()
	for _, d := range w.got {
		if d.Seq == seq {
			n++
			last = d.T
		}
	}

	return n, last
}

type c29cCtx struct {
	id   string
	ssrc SSRC
	pt   PayloadType
	w    *c29cWriter
}

func (c *c29cCtx) CodecParameters() []RTPCodecParameters {
	return []RTPCodecParameters{{RTPCodecCapability: RTPCodecCapability{MimeType: MimeTypeVP8, ClockRate: 90000}, PayloadType: c.pt}}
}
func (c *c29cCtx) HeaderExtensions() []RTPHeaderExtensionParameter { return nil }
func (c *c29cCtx) SSRC() SSRC                                      { return c.ssrc }
func (c *c29cCtx) SSRCRetransmission() SSRC                        { return c.ssrc + 1 }
func (c *c29cCtx) SSRCForwardErrorCorrection() SSRC                { return c.ssrc + 2 }
func (c *c29cCtx) WriteStream() TrackLocalWriter                   { return c.w }
func (c *c29cCtx) ID() string                                      { return c.id }
func (c *c29cCtx) RTCPReader() interceptor.RTCPReader              { return nil }

// c29Concurrent runs the scripted concurrent cases; case indices start at base.
func c29Concurrent(run *kit.Run, base, n int) {
	for k := 0; k < n; k++ {
		i := base + k
		if !run.Want(i) {
			continue
		}
		r := run.CaseRand(i)
		track, err := NewTrackLocalStaticRTP(RTPCodecCapability{MimeType: MimeTypeVP8}, "v", "s")
		if err != nil {
			panic(err)
		}
		nb := r.Range(3, 6)
		ctxs := make([]*c29cCtx, nb)
		for j := range ctxs {
			ctxs[j] = &c29cCtx{id: fmt.Sprintf("b%d", j), ssrc: SSRC(1000 + 10*j), pt: PayloadType(96 + j), w: &c29cWriter{}}
			if _, err = track.Bind(ctxs[j]); err != nil {
				panic(err)
			}
		}
		gated := r.Intn(nb - 1) // the in-flight write parks inside this binding's writer (not the last one)
		victim := r.Intn(nb)    // the binding removed meanwhile
		for victim == gated {
			victim = r.Intn(nb)
		}
		g := ctxs[gated].w
		g.reached, g.gate = make(chan struct{}), make(chan struct{})
		g.armed.Store(true)
		writeDone := make(chan error, 1)
		go func() { writeDone <- track.WriteRTP(&rtp.Packet{Header: rtp.Header{Version: 2, SequenceNumber: 2}, Payload: []byte{1, 2, 3}}) }()
		select {
		case <-g.reached:
		case <-time.After(5 * time.Second):
			run.Inconclusive("concurrent:gate-not-reached")
			close(g.gate)

			continue
		}
		var unbindRet atomic.Int64
		unbindDone := make(chan struct{})
		go func() {
			_ = track.Unbind(ctxs[victim])
			unbindRet.Store(kit.Stamp())
			close(unbindDone)
		}()
		select { // an implementation that excludes Unbind during a fan-out keeps it waiting until the gate opens
		case <-unbindDone:
		case <-time.After(20 * time.Millisecond):
		}
		close(g.gate)
		<-writeDone
		<-unbindDone
		_ = track.WriteRTP(&rtp.Packet{Header: rtp.Header{Version: 2, SequenceNumber: 3}, Payload: []byte{4}})
		desc := fmt.Sprintf("concurrent-unbind nb=%d gated=%d victim=%d", nb, gated, victim)
		run.Case(desc, true)
		run.Count("concurrent_unbind_cases", 1)
		detail := map[string]any{"case": desc}
		for j, c := range ctxs {
			n2, t2 := c.w.count(2)
			n3, _ := c.w.count(3)
			switch {
			case n2 > 1:
				run.Violation("duplicate-delivery:unbind-during-fanout", fmt.Sprintf("%s: binding %d received the in-flight packet %d times", desc, j, n2), i, detail)
			case j != victim && n2 != 1:
				run.Violation("missing-delivery:unbind-during-fanout", fmt.Sprintf("%s: live binding %d received the in-flight packet %d times", desc, j, n2), i, detail)
			case j == victim && n2 == 1 && t2 > unbindRet.Load():
				run.Violation("delivered-after-unbind-returned", fmt.Sprintf("%s: the removed binding received the in-flight packet after Unbind had returned", desc), i, detail)
			}
			if j == victim && n3 != 0 {
				run.Violation("delivery-to-removed-binding", fmt.Sprintf("%s: the removed binding received a later packet", desc), i, detail)
			}
			if j != victim && n3 != 1 {
				run.Violation("fanout-after-concurrent-unbind", fmt.Sprintf("%s: live binding %d received the next packet %d times", desc, j, n3), i, detail)
			}
		}
	}
}
