package verifaux

import (
	"bytes"
	"encoding/binary"
	"fmt"
	"io"
	"net"
	"os"
	"path/filepath"
	"runtime"
	"strings"
	"sync"
	"testing"
	"time"

	"github.com/pion/logging"
	"github.com/pion/webrtc/v4/internal/mux"
	kit "github.com/pion/webrtc/v4/internal/verifkit"
)

// C27 — transport demultiplexing is exclusive and order-preserving.
//
// Part 1 (exhaustive): MatchDTLS / MatchSRTP / MatchSRTCP against an independent transcription of the
// RFC 7983 first-byte ranges and the statement's RTCP rule, for every (first byte, second byte, length class).
// Part 2 (delivery order): a real mux.Mux over a scripted net.Conn; datagrams are numbered in arrival order,
// endpoints are created at scripted / seeded moments (including inside the window between "endpoint visible to
// dispatch" and "pending packets flushed", forced through the compiled-in yield points); every endpoint's reads
// are recorded and checked: at most one endpoint per datagram, only the endpoint of its class, per endpoint
// strictly increasing arrival numbers, queued datagrams not lost while the pending queue had room.

const (
	c27None = iota
	c27DTLS
	c27SRTP
	c27SRTCP

	c27PendingCap = 15 // documented capacity of the pending queue (mux.maxPendingPackets)
	c27Watchdog   = 15 * time.Second

	c27PointFlush = "mux.handlePending.start"
	c27PointReg   = "mux.newEndpoint.registered"
)

var c27Names = [4]string{"none", "dtls", "srtp", "srtcp"} //nolint:gochecknoglobals

var c27Match = [4]mux.MatchFunc{nil, mux.MatchDTLS, mux.MatchSRTP, mux.MatchSRTCP} //nolint:gochecknoglobals

// c27Model is the oracle's own classification (RFC 7983 §7 ranges + "SRTCP when the second byte is 192-223").
func c27Model(b []byte) int {
	if len(b) == 0 {
		return c27None
	}
	switch {
	case b[0] >= 20 && b[0] <= 63:
		return c27DTLS
	case b[0] >= 128 && b[0] <= 191:
		if len(b) >= 2 && b[1] >= 192 && b[1] <= 223 {
			return c27SRTCP
		}

		return c27SRTP
	default:
		return c27None
	}
}

// ------------------------------------------------------------------ part 1

func c27Classify(run *kit.Run, b []byte) (got int, overlap bool, panicked bool) {
	defer func() {
		if rec := recover(); rec != nil {
			panicked = true
			run.Violation("panic:matchfunc", fmt.Sprintf("match function panicked on %x: %v", b, rec), 0, map[string]any{"input": kit.Hex(b)})
		}
	}()
	d, s, c := mux.MatchDTLS(b), mux.MatchSRTP(b), mux.MatchSRTCP(b)
	n := 0
	if d {
		n++
		got = c27DTLS
	}
	if s {
		n++
		got = c27SRTP
	}
	if c {
		n++
		got = c27SRTCP
	}
	if n > 1 {
		which := ""
		if d {
			which += "dtls+"
		}
		if s {
			which += "srtp+"
		}
		if c {
			which += "srtcp+"
		}
		run.Violation("classes-overlap:"+strings.TrimSuffix(which, "+"),
			fmt.Sprintf("datagram %x (len %d) matched more than one class: dtls=%v srtp=%v srtcp=%v", b, len(b), d, s, c), 0,
			map[string]any{"input": kit.Hex(b), "dtls": d, "srtp": s, "srtcp": c})

		return got, true, false
	}

	return got, false, false
}

func c27Part1(run *kit.Run) {
	r := run.CaseRand(0)
	lengths := []int{1, 2, 3, 4, 8}
	evals := 0
	check := func(b []byte) {
		evals++
		want := c27Model(b)
		got, overlap, panicked := c27Classify(run, b)
		if overlap || panicked {
			return
		}
		cell := fmt.Sprintf("len%d:%s", len(b), c27Names[want])
		run.Seen("classification_cells", cell)
		run.Distinct("p1:" + cell + fmt.Sprintf(":%d", b[0]))
		if got == want {
			return
		}
		if want == c27SRTCP && got == c27SRTP && len(b) < 4 {
			// the statement says "SRTCP when the second byte is 192-223"; the code additionally requires 4 bytes
			// (an RTCP header cannot be shorter). Same family, still exclusive: recorded, not a violation.
			run.Count("model_divergence", 1)
			run.Count("short_rtcp_classified_as_srtp", 1)

			return
		}
		run.Violation(fmt.Sprintf("misclassified:%s-as-%s", c27Names[want], c27Names[got]),
			fmt.Sprintf("datagram %x (len %d): RFC 7983 class %s, mux functions say %s", b, len(b), c27Names[want], c27Names[got]), 0,
			map[string]any{"input": kit.Hex(b), "expected": c27Names[want], "observed": c27Names[got]})
	}
	// zero-length datagram: nothing may match (and nothing may panic)
	for _, b := range [][]byte{nil, {}} {
		evals++
		if got, _, _ := c27Classify(run, b); got != c27None {
			run.Violation("misclassified:none-as-"+c27Names[got], "empty datagram matched "+c27Names[got], 0, map[string]any{"input": ""})
		}
	}
	for _, l := range lengths {
		for b0 := 0; b0 < 256; b0++ {
			for b1 := 0; b1 < 256; b1++ {
				b := make([]byte, l)
				b[0] = byte(b0)
				if l >= 2 {
					b[1] = byte(b1)
				}
				for k := 2; k < l; k++ {
					b[k] = byte(r.IntN(256))
				}
				check(b)
				if l >= 3 {
					// the bytes after the second must not influence the class: fill them with an RTCP-looking value
					b2 := append([]byte(nil), b...)
					for k := 2; k < l; k++ {
						b2[k] = 200
					}
					check(b2)
				}
			}
		}
	}
	run.Evals(evals)
	run.Set("classification_evaluations", evals)
}

// ------------------------------------------------------------------ part 2: rig

// c27Conn is the scripted transport: Read hands out one datagram per call, and a datagram is only handed out when
// Read is called again, i.e. after dispatch of the previous datagram has returned.
type c27Conn struct {
	ch      chan []byte
	entered chan struct{}
	closed  chan struct{}
	once    sync.Once
}

func newC27Conn() *c27Conn {
	return &c27Conn{ch: make(chan []byte), entered: make(chan struct{}, 1<<14), closed: make(chan struct{})}
}

func (c *c27Conn) Read(p []byte) (int, error) {
	select {
	case c.entered <- struct{}{}:
	default:
	}
	select {
	case d := <-c.ch:
		return copy(p, d), nil
	case <-c.closed:
		return 0, io.EOF
	}
}

func (c *c27Conn) Write(p []byte) (int, error)      { return len(p), nil }
func (c *c27Conn) Close() error                     { c.once.Do(func() { close(c.closed) }); return nil }
func (c *c27Conn) LocalAddr() net.Addr              { return nil }
func (c *c27Conn) RemoteAddr() net.Addr             { return nil }
func (c *c27Conn) SetDeadline(time.Time) error      { return nil }
func (c *c27Conn) SetReadDeadline(time.Time) error  { return nil }
func (c *c27Conn) SetWriteDeadline(time.Time) error { return nil }

// waitIdle waits until the mux read loop sits in Read (one token per Read call).
func (c *c27Conn) waitIdle() bool {
	t := time.NewTimer(c27Watchdog)
	defer t.Stop()
	select {
	case <-c.entered:
		return true
	case <-t.C:
		return false
	}
}

// feed hands d to the read loop and returns once the loop called Read again (dispatch(d) returned).
func (c *c27Conn) feed(d []byte) bool {
	t := time.NewTimer(c27Watchdog)
	defer t.Stop()
	select {
	case c.ch <- d:
	case <-c.closed:
		return false
	case <-t.C:
		return false
	}
	select {
	case <-c.entered:
		return true
	case <-t.C:
		return false
	}
}

type c27Dgram struct {
	Seq       int
	Class     int
	Bytes     []byte
	feedStart int64
	feedDone  int64
	fed       bool
}

type c27EpRec struct {
	class       int
	park        string
	forced      bool
	ep          *mux.Endpoint
	createStart int64
	createDone  int64
	reads       [][]byte
	done        chan struct{}
}

type c27Rig struct {
	conn *c27Conn
	m    *mux.Mux
	s    *kit.Sched
	mu   sync.Mutex
	eps  []*c27EpRec
	sent []*c27Dgram
}

func newC27Rig(s *kit.Sched) (*c27Rig, bool) {
	lf := logging.NewDefaultLoggerFactory()
	lf.DefaultLogLevel = logging.LogLevelDisabled
	lf.Writer = io.Discard
	conn := newC27Conn()
	g := &c27Rig{conn: conn, s: s}
	g.m = mux.NewMux(mux.Config{Conn: conn, BufferSize: 8192, LoggerFactory: lf})

	return g, conn.waitIdle()
}

func (g *c27Rig) feed(d *c27Dgram) bool {
	d.feedStart = kit.Stamp()
	ok := g.conn.feed(d.Bytes)
	d.feedDone = kit.Stamp()
	d.fed = ok

	return ok
}

func (g *c27Rig) startReader(rec *c27EpRec) {
	go func() {
		defer close(rec.done)
		buf := make([]byte, 4096)
		for {
			n, err := rec.ep.Read(buf)
			if err != nil {
				return
			}
			rec.reads = append(rec.reads, append([]byte(nil), buf[:n]...))
		}
	}()
}

// create registers an endpoint of the class through the public API and starts recording its reads.
func (g *c27Rig) create(class int) *c27EpRec {
	rec := &c27EpRec{class: class, done: make(chan struct{})}
	g.mu.Lock()
	g.eps = append(g.eps, rec)
	g.mu.Unlock()
	rec.createStart = kit.Stamp()
	rec.ep = g.m.NewEndpoint(c27Match[class])
	rec.createDone = kit.Stamp()
	g.startReader(rec)

	return rec
}

// createParked calls NewEndpoint with `point` blocked. It returns once some goroutine is parked at the point
// (forced=true: the endpoint is visible to dispatch while its pending packets are not flushed yet), or once
// NewEndpoint returned and no goroutine is left inside package mux (forced=false: this tree has no such window
// at that point). ret is closed when NewEndpoint returned.
func (g *c27Rig) createParked(class int, point string) (rec *c27EpRec, ret chan struct{}, ok bool) {
	rec = &c27EpRec{class: class, park: point, done: make(chan struct{})}
	g.mu.Lock()
	g.eps = append(g.eps, rec)
	g.mu.Unlock()
	ret = make(chan struct{})
	g.s.Block(point, 1)
	rec.createStart = kit.Stamp()
	go func() {
		rec.ep = g.m.NewEndpoint(c27Match[class])
		rec.createDone = kit.Stamp()
		close(ret)
	}()
	deadline := time.Now().Add(c27Watchdog)
	for {
		if g.s.WaitReached(point, 300*time.Microsecond) {
			rec.forced = true

			return rec, ret, true
		}
		select {
		case <-ret:
			if !c27MuxBusy() {
				return rec, ret, true
			}
		default:
		}
		if time.Now().After(deadline) {
			return rec, ret, false
		}
	}
}

func (g *c27Rig) release(rec *c27EpRec, ret chan struct{}) bool {
	g.s.Release(rec.park)
	t := time.NewTimer(c27Watchdog)
	defer t.Stop()
	select {
	case <-ret:
	case <-t.C:
		return false
	}
	g.startReader(rec)

	return true
}

// c27MuxBusy reports whether any goroutine is executing (or is about to start executing) code of package mux
// other than the read loop waiting in the scripted conn and the recorders waiting in Endpoint.Read.
func c27MuxBusy() bool {
	buf := make([]byte, 1<<16)
	for {
		n := runtime.Stack(buf, true)
		if n < len(buf) {
			buf = buf[:n]

			break
		}
		buf = make([]byte, 2*len(buf))
	}
	for _, gr := range strings.Split(string(buf), "\n\n") {
		inMux, inAux := false, false
		for _, ln := range strings.Split(gr, "\n") {
			if strings.HasPrefix(ln, "created by ") || strings.HasPrefix(ln, "\t") || strings.HasPrefix(ln, "goroutine ") {
				continue
			}
			if strings.Contains(ln, "/internal/mux.") {
				inMux = true
			}
			if strings.Contains(ln, "/internal/verifaux.") {
				inAux = true
			}
		}
		if inMux && !inAux {
			return true
		}
	}

	return false
}

func c27WaitQuiet() bool {
	for i := 0; i < 20; i++ {
		if !c27MuxBusy() {
			return true
		}
		runtime.Gosched()
	}

	return kit.Eventually(c27Watchdog, func() bool { return !c27MuxBusy() })
}

// finish waits for quiescence, closes the mux (endpoint buffers still hand out what was written before the
// close) and joins the recorders. It returns "" or the reason the case could not be decided.
func (g *c27Rig) finish() string {
	if !c27WaitQuiet() {
		g.abort()

		return "watchdog:mux-not-quiescent"
	}
	closed := make(chan struct{})
	go func() { _ = g.m.Close(); close(closed) }()
	t := time.NewTimer(c27Watchdog)
	defer t.Stop()
	select {
	case <-closed:
	case <-t.C:
		g.abort()

		return "watchdog:mux-close"
	}
	for _, e := range g.eps {
		if e.ep == nil {
			continue
		}
		select {
		case <-e.done:
		case <-t.C:
			return "watchdog:reader-not-finished"
		}
	}

	return ""
}

func (g *c27Rig) abort() {
	g.s.ReleaseAll()
	_ = g.conn.Close()
}

// ------------------------------------------------------------------ part 2: datagram / script generation

func c27MakeDgram(r *kit.Rand, seq, class int, tag uint16) *c27Dgram {
	var b0, b1 byte
	inRTCP := func(x byte) bool { return x >= 192 && x <= 223 }
	switch class {
	case c27DTLS:
		b0 = kit.Pick(r, []byte{20, 63, 22, 23, byte(r.Range(20, 63))})
		b1 = kit.Pick(r, []byte{254, 192, 223, 200, byte(r.IntN(256))})
	case c27SRTP, c27SRTCP:
		b0 = kit.Pick(r, []byte{128, 191, 144, byte(r.Range(128, 191))})
		if class == c27SRTCP {
			b1 = kit.Pick(r, []byte{192, 223, 200, 201, byte(r.Range(192, 223))})
		} else {
			b1 = kit.Pick(r, []byte{0, 96, 191, 224, 255, byte(r.IntN(256))})
			for inRTCP(b1) {
				b1 = byte(r.IntN(256))
			}
		}
	default:
		b0 = kit.Pick(r, []byte{0, 1, 3, 16, 19, 64, 79, 127, 192, 255})
		b1 = byte(r.IntN(256))
	}
	l := r.Range(8, 48)
	b := make([]byte, l)
	b[0], b[1] = b0, b1
	binary.BigEndian.PutUint32(b[2:6], uint32(seq)) //nolint:gosec
	binary.BigEndian.PutUint16(b[6:8], tag)
	for k := 8; k < l; k++ {
		b[k] = byte(r.IntN(256))
	}
	if c27Model(b) != class {
		panic("c27 generator: class mismatch")
	}

	return &c27Dgram{Seq: seq, Class: class, Bytes: b}
}

type c27Step struct {
	Op    string `json:"op"` // feed | create | park | release | quiet
	Class int    `json:"class,omitempty"`
	Point string `json:"point,omitempty"`
	Seq   int    `json:"seq,omitempty"`
}

type c27Script struct {
	steps  []c27Step
	dgrams []*c27Dgram
}

func (sc *c27Script) feed(r *kit.Rand, class int, tag uint16) {
	d := c27MakeDgram(r, len(sc.dgrams), class, tag)
	sc.dgrams = append(sc.dgrams, d)
	sc.steps = append(sc.steps, c27Step{Op: "feed", Class: class, Seq: d.Seq})
}

func (sc *c27Script) desc() string {
	var sb strings.Builder
	for _, st := range sc.steps {
		switch st.Op {
		case "feed":
			d := sc.dgrams[st.Seq]
			fmt.Fprintf(&sb, "F%d:%02x%02x ", st.Class, d.Bytes[0], d.Bytes[1])
		case "create":
			fmt.Fprintf(&sb, "C%d ", st.Class)
		case "park":
			p := "flush"
			if st.Point == c27PointReg {
				p = "reg"
			}
			fmt.Fprintf(&sb, "P%d@%s ", st.Class, p)
		case "release":
			sb.WriteString("R ")
		case "quiet":
			sb.WriteString("Q ")
		}
	}

	return strings.TrimSpace(sb.String())
}

func c27RandClass(r *kit.Rand, favour int) int {
	if favour != c27None && r.Chance(0.65) {
		return favour
	}
	x := r.IntN(100)
	switch {
	case x < 31:
		return c27DTLS
	case x < 62:
		return c27SRTP
	case x < 92:
		return c27SRTCP
	default:
		return c27None
	}
}

// c27GenScript: scripted cases. The first 18 enumerate class × yield point × queue depth {1,2,15}; the others are
// seeded: random pre-registration traffic, endpoints created in random order, each plainly or with the
// registered→flush window forced open and traffic fed inside it.
func c27GenScript(i int, r *kit.Rand) *c27Script {
	sc := &c27Script{}
	tag := uint16(i) //nolint:gosec
	if i >= 1 && i <= 18 {
		class := (i-1)%3 + 1
		point := []string{c27PointFlush, c27PointReg}[((i-1)/3)%2]
		depth := []int{1, 2, c27PendingCap}[(i-1)/6]
		for k := 0; k < depth; k++ {
			sc.feed(r, class, tag)
		}
		sc.steps = append(sc.steps, c27Step{Op: "park", Class: class, Point: point})
		sc.feed(r, class, tag)
		sc.steps = append(sc.steps, c27Step{Op: "release"}, c27Step{Op: "quiet"})
		sc.feed(r, class, tag)

		return sc
	}
	classes := []int{c27DTLS, c27SRTP, c27SRTCP}
	kit.Shuffle(r, classes)
	if r.Chance(0.2) {
		classes = classes[:r.Range(1, 2)]
	}
	pre := r.Range(0, 10)
	if r.Chance(0.08) {
		pre = r.Range(16, 22) // deliberately overflow the pending queue
	}
	for k := 0; k < pre; k++ {
		sc.feed(r, c27RandClass(r, c27None), tag)
	}
	for ci, class := range classes {
		mode := r.IntN(10)
		switch {
		case mode < 2:
			sc.steps = append(sc.steps, c27Step{Op: "create", Class: class})
			if r.Chance(0.5) {
				sc.steps = append(sc.steps, c27Step{Op: "quiet"})
			}
		default:
			point := c27PointFlush
			if mode >= 7 {
				point = c27PointReg
			}
			sc.steps = append(sc.steps, c27Step{Op: "park", Class: class, Point: point})
			for k, n := 0, r.Range(1, 3); k < n; k++ {
				sc.feed(r, c27RandClass(r, class), tag)
			}
			sc.steps = append(sc.steps, c27Step{Op: "release"})
			if r.Chance(0.7) {
				sc.steps = append(sc.steps, c27Step{Op: "quiet"})
			}
		}
		for k, n := 0, r.Range(0, 2); k < n; k++ {
			sc.feed(r, c27RandClass(r, class), tag)
		}
		if ci == len(classes)-1 && r.Chance(0.15) {
			// a second endpoint of an already served class: nothing may be delivered twice
			sc.steps = append(sc.steps, c27Step{Op: "create", Class: classes[r.Intn(len(classes))]}, c27Step{Op: "quiet"})
		}
	}
	for k, n := 0, r.Range(0, 4); k < n; k++ {
		sc.feed(r, c27RandClass(r, c27None), tag)
	}

	return sc
}

// ------------------------------------------------------------------ part 2: oracle

type c27Outcome struct {
	nontrivial bool
	inversions int
	readSeqs   [][]int
}

func c27Seq(b []byte) (int, uint16, bool) {
	if len(b) < 8 {
		return 0, 0, false
	}

	return int(binary.BigEndian.Uint32(b[2:6])), binary.BigEndian.Uint16(b[6:8]), true
}

func c27Detail(g *c27Rig, plan any, out *c27Outcome) map[string]any {
	sent := make([]map[string]any, 0, len(g.sent))
	for _, d := range g.sent {
		sent = append(sent, map[string]any{
			"seq": d.Seq, "class": c27Names[d.Class], "bytes": kit.Hex(d.Bytes), "fed": d.fed,
			"t_feed_start": d.feedStart, "t_dispatch_returned": d.feedDone,
		})
	}
	eps := make([]map[string]any, 0, len(g.eps))
	for k, e := range g.eps {
		m := map[string]any{
			"class": c27Names[e.class], "t_create_start": e.createStart, "t_create_returned": e.createDone,
			"parked_at": e.park, "window_forced": e.forced,
		}
		if k < len(out.readSeqs) {
			m["read_seq"] = out.readSeqs[k]
		}
		eps = append(eps, m)
	}

	return map[string]any{"plan": plan, "datagrams_in_arrival_order": sent, "endpoints_in_creation_order": eps}
}

// c27Evaluate checks everything the endpoints read against the arrival log.
func c27Evaluate(run *kit.Run, idx int, g *c27Rig, plan any) *c27Outcome {
	out := &c27Outcome{readSeqs: make([][]int, len(g.eps))}
	readBy := map[int]int{}
	type viol struct{ sig, what string }
	var viols []viol
	for ei, e := range g.eps {
		maxSeq, reported := -1, false
		var queuedRead, laterRead bool
		for _, raw := range e.reads {
			seq, _, ok := c27Seq(raw)
			if !ok || seq < 0 || seq >= len(g.sent) || !bytes.Equal(raw, g.sent[seq].Bytes) {
				viols = append(viols, viol{"unknown-or-altered-datagram",
					fmt.Sprintf("endpoint #%d (%s) read %x which is not a datagram that arrived on the transport", ei, c27Names[e.class], raw)})

				continue
			}
			d := g.sent[seq]
			out.readSeqs[ei] = append(out.readSeqs[ei], seq)
			run.Count("datagrams_read", 1)
			if d.Class != e.class {
				viols = append(viols, viol{fmt.Sprintf("misrouted:%s-to-%s", c27Names[d.Class], c27Names[e.class]),
					fmt.Sprintf("datagram #%d %x of class %s was read from the %s endpoint", seq, d.Bytes[:2], c27Names[d.Class], c27Names[e.class])})
			}
			if prev, dup := readBy[seq]; dup {
				sig := "delivered-to-two-endpoints"
				if prev == ei {
					sig = "delivered-twice-to-one-endpoint"
				}
				viols = append(viols, viol{sig, fmt.Sprintf("datagram #%d (%s) was read from endpoint #%d and again from endpoint #%d",
					seq, c27Names[d.Class], prev, ei)})
			}
			readBy[seq] = ei
			if d.feedDone < e.createStart {
				queuedRead = true
			} else if d.feedStart > e.createStart {
				laterRead = true
			}
			if seq < maxSeq {
				out.inversions++
				if !reported {
					reported = true
					older, newer := d, g.sent[maxSeq]
					olderQueued := older.feedDone < e.createStart
					newerQueued := newer.feedDone < e.createStart
					olderDirect := e.createDone != 0 && e.createDone < older.feedStart
					var sig, why string
					switch {
					case olderQueued && newerQueued:
						sig, why = "pending-queue-reordered", "both were queued before the endpoint was created"
					case !olderDirect:
						sig = "pending-flushed-after-newer-datagram"
						rel := "after NewEndpoint had returned"
						if !(e.createDone != 0 && e.createDone < newer.feedStart) {
							rel = "while NewEndpoint was running (endpoint already visible to dispatch)"
						}
						q := "was queued before the endpoint was created"
						if !olderQueued {
							q = "arrived while the endpoint was being created"
						}
						why = fmt.Sprintf("#%d %s; #%d arrived later, %s, and was dispatched straight into the endpoint before the pending queue was flushed",
							older.Seq, q, newer.Seq, rel)
					default:
						sig, why = "direct-dispatch-reordered", "both arrived after NewEndpoint had returned"
					}
					viols = append(viols, viol{sig, fmt.Sprintf("%s endpoint delivered datagram #%d before the older datagram #%d (read order %v): %s",
						c27Names[e.class], newer.Seq, older.Seq, out.readSeqs[ei], why)})
				}
			}
			if seq > maxSeq {
				maxSeq = seq
			}
		}
		if queuedRead && laterRead {
			out.nontrivial = true
		}
	}
	// losses: a datagram that may have been queued must come out of an endpoint of its class if one is ever created
	// and the queue had room when it arrived. `pot` over-approximates the queue occupancy (entries are never assumed
	// flushed), so "pot < cap" soundly means "there was room".
	pot := 0
	for _, d := range g.sent {
		if !d.fed {
			continue
		}
		run.Count("datagrams_fed", 1)
		hasEp, direct := false, false
		for _, e := range g.eps {
			if e.class != d.Class || e.createDone == 0 {
				continue
			}
			hasEp = true
			if e.createDone < d.feedStart {
				direct = true
			}
		}
		_, read := readBy[d.Seq]
		switch {
		case d.Class == c27None || !hasEp:
			run.Count("datagrams_without_endpoint", 1)
		case direct:
			run.Count("dispatched_directly", 1)
			if !read {
				// not promised by the statement ("at most one endpoint"): recorded only
				run.Count("model_divergence", 1)
				run.Count("direct_datagram_not_delivered", 1)
			}
		case read:
			run.Count("queued_or_in_window_delivered", 1)
		case pot < c27PendingCap:
			viols = append(viols, viol{"queued-datagram-lost",
				fmt.Sprintf("datagram #%d (%s) arrived before its endpoint existed with at most %d packets pending (capacity %d) and was never delivered",
					d.Seq, c27Names[d.Class], pot, c27PendingCap)})
		default:
			run.Count("legal_drop_pending_queue_full", 1)
		}
		if !direct {
			pot++
		}
	}
	run.Seen("pending_upper_bound", fmt.Sprintf("%02d", min(pot, 30)))
	if len(viols) > 0 {
		det := c27Detail(g, plan, out)
		seen := map[string]bool{}
		for _, v := range viols {
			if seen[v.sig] {
				continue // one witness per cause and case
			}
			seen[v.sig] = true
			run.Violation(v.sig, v.what, idx, det)
		}
	}

	return out
}

// ------------------------------------------------------------------ part 2: executors

type c27Totals struct {
	passFlush, passReg int64
}

func (t *c27Totals) add(s *kit.Sched) {
	t.passFlush += s.Passes(c27PointFlush)
	t.passReg += s.Passes(c27PointReg)
}

func c27RunScript(run *kit.Run, idx int, sc *c27Script, tot *c27Totals) {
	s := kit.NewSched(kit.Seed() + uint64(idx)) //nolint:gosec
	defer s.Uninstall()
	defer tot.add(s)
	desc := "script: " + sc.desc()
	g, ok := newC27Rig(s)
	if !ok {
		g.abort()
		run.Case(desc, false)
		run.Inconclusive("watchdog:readloop-not-started")

		return
	}
	g.sent = sc.dgrams
	var parked *c27EpRec
	var parkedRet chan struct{}
	fail := ""
	for _, st := range sc.steps {
		switch st.Op {
		case "feed":
			if !g.feed(sc.dgrams[st.Seq]) {
				fail = "watchdog:feed"
			}
		case "create":
			g.create(st.Class)
		case "park":
			rec, ret, ok := g.createParked(st.Class, st.Point)
			if !ok {
				fail = "watchdog:yield-point-not-reached"
			}
			parked, parkedRet = rec, ret
			short := "flush"
			if st.Point == c27PointReg {
				short = "registered"
			}
			if rec.forced {
				run.Count("window_forced", 1)
				run.Seen("windows", short+":"+c27Names[st.Class])
			} else {
				run.Count("window_absent", 1)
				run.Seen("windows", short+":"+c27Names[st.Class]+":absent")
			}
		case "release":
			if parked != nil {
				if !g.release(parked, parkedRet) {
					fail = "watchdog:newendpoint-did-not-return"
				}
				parked = nil
			}
		case "quiet":
			if !c27WaitQuiet() {
				fail = "watchdog:mux-not-quiescent"
			}
		}
		if fail != "" {
			break
		}
	}
	if fail == "" && parked != nil && !g.release(parked, parkedRet) {
		fail = "watchdog:newendpoint-did-not-return"
	}
	if fail == "" {
		fail = g.finish()
	} else {
		g.abort()
	}
	if fail != "" {
		run.Case(desc, false)
		run.Inconclusive(fail)

		return
	}
	out := c27Evaluate(run, idx, g, map[string]any{"kind": "scripted", "steps": sc.steps, "script": sc.desc()})
	run.Case(desc, out.nontrivial)
	run.Count("scripted_runs", 1)
	run.Count("order_inversions_observed", out.inversions)
	if out.inversions > 0 {
		run.Count("scripted_runs_with_inversion", 1)
	}
	if idx <= 2 || (idx > 18 && idx <= 20) {
		run.Sample(map[string]any{"case": idx, "script": sc.desc(), "reads_per_endpoint": out.readSeqs})
	}
}

type c27Creation struct {
	Class   int `json:"class"`
	Trigger int `json:"after_datagrams"`
}

type c27RandomPlan struct {
	Classes   []int         `json:"datagram_classes"`
	Creations []c27Creation `json:"creations"`
	PerturbP  float64       `json:"perturb_p"`
	YieldP    float64       `json:"feeder_yield_p"`
}

func c27GenRandom(r *kit.Rand) *c27RandomPlan {
	p := &c27RandomPlan{PerturbP: kit.Pick(r, []float64{0.4, 0.7, 1.0}), YieldP: kit.Pick(r, []float64{0, 0.2, 0.6})}
	n := r.Range(8, 36)
	focus := r.Range(c27DTLS, c27SRTCP)
	for k := 0; k < n; k++ {
		p.Classes = append(p.Classes, c27RandClass(r, kit.Pick(r, []int{c27None, focus})))
	}
	for class := c27DTLS; class <= c27SRTCP; class++ {
		if !r.Chance(0.9) {
			continue
		}
		trig := r.Range(0, min(n, 10))
		if r.Chance(0.2) {
			trig = r.Range(0, n)
		}
		p.Creations = append(p.Creations, c27Creation{Class: class, Trigger: trig})
		if r.Chance(0.1) {
			p.Creations = append(p.Creations, c27Creation{Class: class, Trigger: r.Range(trig, n)})
		}
	}
	kit.Shuffle(r, p.Creations)

	return p
}

func c27RunRandom(run *kit.Run, idx int, r *kit.Rand, tot *c27Totals) {
	plan := c27GenRandom(r)
	desc := fmt.Sprintf("random: %v %v p=%.1f y=%.1f", plan.Classes, plan.Creations, plan.PerturbP, plan.YieldP)
	s := kit.NewSched(kit.Seed()*1000003 + uint64(idx)) //nolint:gosec
	defer s.Uninstall()
	defer tot.add(s)
	s.Perturb(plan.PerturbP)
	g, ok := newC27Rig(s)
	if !ok {
		g.abort()
		run.Case(desc, false)
		run.Inconclusive("watchdog:readloop-not-started")

		return
	}
	n := len(plan.Classes)
	for k, class := range plan.Classes {
		g.sent = append(g.sent, c27MakeDgram(r, k, class, uint16(idx))) //nolint:gosec
	}
	yields := make([]bool, n)
	for k := range yields {
		yields[k] = r.Chance(plan.YieldP)
	}
	pos := make([]chan struct{}, n+1)
	for k := range pos {
		pos[k] = make(chan struct{})
	}
	var wg sync.WaitGroup
	feedFailed := false
	wg.Add(1)
	go func() { // the transport: datagrams arrive in order 0..n-1
		defer wg.Done()
		for k := 0; k < n; k++ {
			close(pos[k])
			if feedFailed {
				continue
			}
			if yields[k] {
				runtime.Gosched()
			}
			if !g.feed(g.sent[k]) {
				feedFailed = true
			}
		}
		close(pos[n])
	}()
	for _, c := range plan.Creations {
		wg.Add(1)
		go func(c c27Creation) { // the application: creates its endpoint once `Trigger` datagrams were handed out
			defer wg.Done()
			<-pos[c.Trigger]
			g.create(c.Class)
		}(c)
	}
	joined := make(chan struct{})
	go func() { wg.Wait(); close(joined) }()
	fail := ""
	select {
	case <-joined:
		if feedFailed {
			fail = "watchdog:feed"
		}
	case <-time.After(4 * c27Watchdog):
		fail = "watchdog:workers-not-finished"
	}
	if fail == "" {
		fail = g.finish()
	} else {
		g.abort()
	}
	if fail != "" {
		run.Case(desc, false)
		run.Inconclusive(fail)

		return
	}
	out := c27Evaluate(run, idx, g, map[string]any{"kind": "random-perturbation", "plan": plan})
	run.Case(desc, out.nontrivial)
	run.Count("random_runs", 1)
	run.Count("order_inversions_observed", out.inversions)
	if out.inversions > 0 {
		run.Count("random_runs_with_inversion", 1)
	}
}

func TestVerifC27(t *testing.T) {
	run := kit.Start(t, "C27", "case 0: exhaustive first byte × second byte × length {0,1,2,3,4,8} (two fillers for length ≥3) of "+
		"MatchDTLS/MatchSRTP/MatchSRTCP vs. an RFC 7983 transcription; cases 1..S: scripted serial schedules over a real Mux on a synchronous "+
		"fake conn (1..18 enumerate class × yield point {registered, handlePending.start} × queue depth {1,2,15}, the others are seeded scripts "+
		"with the registered→flush window forced open and traffic fed inside it); cases S+1..: concurrent feeder + endpoint creators under "+
		"seeded random yields at the same points. A delivery case is non-trivial when some endpoint read at least one datagram that was queued "+
		"before the endpoint was created AND at least one that arrived after its creation started; distinct by script / plan text")
	defer run.Finish()

	if run.Want(0) {
		c27Part1(run)
		run.Exhaustive()
	}

	tot := &c27Totals{}
	nScript := kit.N(200, 8000)
	nRandom := kit.N(500, 20000)
	// schedule hooks are process-global: delivery cases run one after the other
	for i := 1; i <= nScript; i++ {
		if !run.Want(i) {
			continue
		}
		c27RunScript(run, i, c27GenScript(i, run.CaseRand(i)), tot)
	}
	for i := nScript + 1; i <= nScript+nRandom; i++ {
		if !run.Want(i) {
			continue
		}
		c27RunRandom(run, i, run.CaseRand(i), tot)
	}
	run.Set("yield_point_passes", map[string]int64{c27PointFlush: tot.passFlush, c27PointReg: tot.passReg})
	if tot.passFlush+tot.passReg == 0 && (!run.Replaying() || !run.Want(0)) {
		run.Inconclusive("no-mux-yield-point-passed (binary built without -tags verif, or hooks removed)")
	}
	if pat := os.Getenv("VERIF_RACE_LOG"); pat != "" {
		// second opinion only (thorough tier is built with -race): data races are C40's subject, recorded here
		n := 0
		files, _ := filepath.Glob(pat + ".*")
		for _, f := range files {
			if b, err := os.ReadFile(f); err == nil {
				n += strings.Count(string(b), "WARNING: DATA RACE")
			}
		}
		run.Set("race_detector_reports", n)
		if n > 0 {
			fmt.Printf("VERIF-NOTE: C27 race detector wrote %d report(s) under %s.*\n", n, pat)
		}
	}
	run.Assume("quiescence of package mux is read from a goroutine dump (no goroutine with a frame in internal/mux other than the read loop " +
		"blocked in the scripted conn and the recorders blocked in Endpoint.Read); capacity of the pending queue taken as 15 (documented constant)")
	run.Assume("arrival order = order in which the scripted conn's Read handed datagrams to the single read loop; a datagram counts as " +
		"dispatched when Read is called again")
}
