package webrtc

import (
	"fmt"
	"strings"
	"sync/atomic"
	"testing"
	"time"

	kit "github.com/pion/webrtc/v4/internal/verifkit"
)

// C03 — a rejected SetLocal/SetRemoteDescription leaves negotiation state unchanged and emits no
// signaling-state-change event.
// Monitor: before/after snapshot of SignalingState + the four description slots around every call that returns an
// error, plus a counter of OnSignalingStateChange invocations (handlers run on their own goroutine: a bounded settle
// wait precedes the "no event" conclusion — lateness can only hide an event, never invent one).

type c03Mutation struct {
	Name string
	F    func(r *kit.Rand, sdp string) (string, bool) // returns mutated text, false if not applicable
}

func c03DropLine(prefix string, which int) func(*kit.Rand, string) (string, bool) {
	// which: 0 = first occurrence, 1 = middle, 2 = last, 3 = all
	return func(_ *kit.Rand, s string) (string, bool) {
		lines := strings.Split(strings.TrimRight(s, "\r\n"), "\r\n")
		var idx []int
		for i, ln := range lines {
			if strings.HasPrefix(ln, prefix) {
				idx = append(idx, i)
			}
		}
		if len(idx) == 0 {
			return s, false
		}
		drop := map[int]bool{}
		switch which {
		case 0:
			drop[idx[0]] = true
		case 1:
			drop[idx[len(idx)/2]] = true
		case 2:
			drop[idx[len(idx)-1]] = true
		default:
			for _, i := range idx {
				drop[i] = true
			}
		}
		var out []string
		for i, ln := range lines {
			if !drop[i] {
				out = append(out, ln)
			}
		}

		return strings.Join(out, "\r\n") + "\r\n", true
	}
}

func c03ReplaceFirst(prefix, with string) func(*kit.Rand, string) (string, bool) {
	return func(_ *kit.Rand, s string) (string, bool) {
		lines := strings.Split(strings.TrimRight(s, "\r\n"), "\r\n")
		for i, ln := range lines {
			if strings.HasPrefix(ln, prefix) {
				lines[i] = with

				return strings.Join(lines, "\r\n") + "\r\n", true
			}
		}

		return s, false
	}
}

func c03AppendToFirstMedia(extra string) func(*kit.Rand, string) (string, bool) {
	return func(_ *kit.Rand, s string) (string, bool) {
		i := strings.Index(s, "\r\na=rtpmap:")
		if i < 0 {
			return s, false
		}

		return s[:i] + "\r\n" + extra + s[i:], true
	}
}

func c03Mutations() []c03Mutation {
	return []c03Mutation{
		{"unparsable:garbage", func(*kit.Rand, string) (string, bool) { return "this is not sdp", true }},
		{"unparsable:no-version", c03DropLine("v=", 0)},
		{"unparsable:bad-origin", c03ReplaceFirst("o=", "o=broken")},
		{"unparsable:truncated", func(r *kit.Rand, s string) (string, bool) { return s[:r.Range(5, len(s)/2)], true }},
		{"unparsable:bad-mline", c03ReplaceFirst("m=", "m=video")},
		{"no-mid:first", c03DropLine("a=mid:", 0)},
		{"no-mid:middle", c03DropLine("a=mid:", 1)},
		{"no-mid:last", c03DropLine("a=mid:", 2)},
		{"no-ice-ufrag", c03DropLine("a=ice-ufrag:", 3)},
		{"no-ice-pwd", c03DropLine("a=ice-pwd:", 3)},
		{"no-fingerprint", c03DropLine("a=fingerprint:", 3)},
		{"fingerprint-one-token", c03ReplaceFirst("a=fingerprint:", "a=fingerprint:sha-256")},
		{"non-numeric-payload-type", c03ReplaceFirst("a=rtpmap:", "a=rtpmap:abc VP8/90000")},
		{"rtpmap-without-clock", c03ReplaceFirst("a=rtpmap:", "a=rtpmap:96 VP8")},
		{"fmtp-apt-garbage", c03AppendToFirstMedia("a=rtpmap:119 rtx/90000\r\na=fmtp:119 apt=x")},
		{"bad-candidate", c03AppendToFirstMedia("a=candidate:1 1 udp notanumber 127.0.0.1 9 typ host")},
		{"bad-extmap", c03AppendToFirstMedia("a=extmap:notanumber urn:ietf:params:rtp-hdrext:sdes:mid")},
		{"conflicting-ice-ufrag", c03AppendToFirstMedia("a=ice-ufrag:otherUfragValue")},
	}
}

type c03Case struct {
	State  SignalingState
	Prefix string // fresh | one-exchange
	Local  bool
	Type   SDPType
	Class  string // mutation name, or wrong-type / not-last-created
}

func (c c03Case) String() string {
	m := "SetRemoteDescription"
	if c.Local {
		m = "SetLocalDescription"
	}

	return fmt.Sprintf("%s(%s) from %s [%s] class=%s", m, c.Type, c.State, c.Prefix, c.Class)
}

func TestVerifC03(t *testing.T) { //nolint:cyclop,gocognit,maintidx
	run := kit.Start(t, "C03", "every reachable signaling state (two prefixes) × side × description type × invalid class: wrong type for the state (valid "+
		"description), local description that is not the last created one, and mutations of a VALID description of the right type (unparsable ×5, "+
		"mid removed first/middle/last, ice-ufrag/ice-pwd/fingerprint removed, one-token fingerprint, non-numeric PT, rtpmap without clock, apt garbage, bad candidate, "+
		"bad extmap, conflicting ufrag). Non-trivial = the call returned an error from a non-closed state; distinct by the case tuple + seed index")
	defer run.Finish()
	muts := c03Mutations()
	var cases []c03Case
	states := []SignalingState{SignalingStateStable, SignalingStateHaveLocalOffer, SignalingStateHaveRemoteOffer, SignalingStateHaveLocalPranswer, SignalingStateHaveRemotePranswer}
	edges := jsepEdges()
	reps := kit.N(1, 12)
	for rep := 0; rep < reps; rep++ {
		for _, pre := range []string{"fresh", "one-exchange"} {
			for _, st := range states {
				for _, local := range []bool{true, false} {
					for _, typ := range []SDPType{SDPTypeOffer, SDPTypePranswer, SDPTypeAnswer} {
						if _, isEdge := edges[jsepKey{st, local, typ}]; !isEdge {
							cases = append(cases, c03Case{st, pre, local, typ, "wrong-type-for-state"})

							continue
						}
						if local {
							cases = append(cases, c03Case{st, pre, local, typ, "not-last-created"})
						}
						for _, m := range muts {
							cases = append(cases, c03Case{st, pre, local, typ, m.Name})
						}
					}
				}
			}
		}
	}
	run.Set("cases_enumerated", len(cases))
	mutByName := map[string]c03Mutation{}
	for _, m := range muts {
		mutByName[m.Name] = m
	}
	run.Parallel(len(cases), 12, func(i int) {
		c := cases[i]
		r := run.CaseRand(i)
		pc := rigMustPC(rigOpts{})
		defer rigClose(pc)
		var events atomic.Int32
		pc.OnSignalingStateChange(func(SignalingState) { events.Add(1) })
		if _, err := pc.CreateDataChannel("c03", nil); err != nil {
			panic(err)
		}
		_, _ = pc.AddTransceiverFromKind(RTPCodecTypeVideo)
		if r.Bool() {
			_, _ = pc.AddTransceiverFromKind(RTPCodecTypeAudio)
		}
		expectEvents := int32(0)
		if c.Prefix == "one-exchange" {
			expectEvents += 2
			if err := jsepExchange(pc, r, r.Bool()); err != nil {
				run.Inconclusive("setup:exchange:" + firstN(err.Error(), 50))

				return
			}
		}
		if err := jsepReach(pc, r, c.State); err != nil || pc.SignalingState() != c.State {
			run.Inconclusive("setup:reach-" + c.State.String())

			return
		}
		// a VALID description of the requested side and type for this state (as valid as the state allows)
		var desc SessionDescription
		switch {
		case c.Local && c.Type == SDPTypeOffer:
			o, err := pc.CreateOffer(nil)
			if err != nil {
				run.Inconclusive("setup:createoffer")

				return
			}
			desc = o
		case c.Local:
			a, err := pc.CreateAnswer(nil)
			if err != nil {
				// no remote offer in this state: use a foreign answer text (wrong-type cases only)
				a = genRandomOffer(r, genOpts{MaxSections: 2}).Desc(c.Type)
			}
			a.Type = c.Type
			desc = a
		case c.Type == SDPTypeOffer:
			o, err := jsepHelperOffer(r)
			if err != nil {
				run.Inconclusive("setup:helper-offer")

				return
			}
			desc = o
		default:
			base := pc.PendingLocalDescription()
			if base == nil || base.Type != SDPTypeOffer {
				o, err := jsepHelperOffer(r)
				if err != nil {
					run.Inconclusive("setup:helper-offer")

					return
				}
				base = &o
			}
			a, err := jsepHelperAnswer(*base)
			if err != nil {
				run.Inconclusive("setup:helper-answer")

				return
			}
			a.Type = c.Type
			desc = a
		}
		switch c.Class {
		case "wrong-type-for-state":
		case "not-last-created":
			// a description this PeerConnection did not create last: re-origin the text
			desc.SDP = strings.Replace(desc.SDP, "o=- ", "o=- 9", 1)
		default:
			mutated, ok := mutByName[c.Class].F(r, desc.SDP)
			if !ok {
				run.Count("mutation_not_applicable", 1)

				return
			}
			desc.SDP = mutated
		}
		// let the events of the set-up phase arrive before taking the baseline: the set-up made a known number of
		// successful transitions, each of which starts one handler goroutine
		switch c.State {
		case SignalingStateHaveLocalOffer, SignalingStateHaveRemoteOffer:
			expectEvents++
		case SignalingStateHaveLocalPranswer, SignalingStateHaveRemotePranswer:
			expectEvents += 2
		default:
		}
		if !kit.Eventually(5*time.Second, func() bool { return events.Load() >= expectEvents }) {
			run.Inconclusive("setup-events-not-delivered")

			return
		}
		st0, slots0 := jsepObserve(pc)
		ev0 := events.Load()
		var err error
		if c.Local {
			err = pc.SetLocalDescription(desc)
		} else {
			err = pc.SetRemoteDescription(desc)
		}
		if err == nil {
			run.Count("accepted", 1)
			run.Seen("accepted_classes", c.Class)
			run.Case(fmt.Sprintf("%s #%d accepted", c, i), false)

			return
		}
		run.Case(fmt.Sprintf("%s #%d", c, i), true)
		run.Seen("error_classes", c.Class)
		run.Seen("states", c.State.String())
		st1, slots1 := jsepObserve(pc)
		method := "SetRemoteDescription"
		if c.Local {
			method = "SetLocalDescription"
		}
		// the signature names the CAUSE: which check rejected the description after state had been committed
		// (the error text), not the mutation that provoked it
		sigBase := fmt.Sprintf("%s:%s:err=%s", method, c.Type, c03ErrClass(err))
		detail := map[string]any{"case": c.String(), "error": err.Error(), "state_before": st0.String(), "state_after": st1.String(),
			"slots_before": slots0, "slots_after": slots1, "sdp": desc.SDP}
		if st1 != st0 {
			run.Violation("state-changed:"+sigBase, fmt.Sprintf("%s returned %q but the signaling state went %s → %s", c, firstN(err.Error(), 100), st0, st1), i, detail)
		}
		if slots1 != slots0 {
			run.Violation("descriptions-changed:"+sigBase, fmt.Sprintf("%s returned %q but the descriptions changed: %+v → %+v", c, firstN(err.Error(), 100), slots0, slots1), i, detail)
		}
		// events: bounded settle, then compare
		if st1 != st0 || i%5 == 0 {
			time.Sleep(3 * time.Millisecond)
		} else {
			time.Sleep(300 * time.Microsecond)
		}
		if ev1 := events.Load(); ev1 != ev0 {
			run.Violation("event-emitted:"+sigBase, fmt.Sprintf("%s returned an error but OnSignalingStateChange ran %d time(s)", c, ev1-ev0), i, detail)
		}
		if i%211 == 0 {
			run.Sample(map[string]any{"case": c.String(), "error": firstN(err.Error(), 100)})
		}
	})
}

// c03ErrClass reduces an error to a stable class: its text without digits and quoted/variable parts, first 48 bytes.
func c03ErrClass(err error) string {
	s := err.Error()
	if i := strings.Index(s, " in "); i > 0 {
		s = s[:i]
	}
	var b strings.Builder
	for _, ch := range s {
		switch {
		case ch >= '0' && ch <= '9':
			continue
		case ch == ' ' || ch == ':' || ch == ',' || ch == '\'' || ch == '"':
			b.WriteByte('-')
		default:
			b.WriteRune(ch)
		}
	}
	out := b.String()
	if len(out) > 48 {
		out = out[:48]
	}

	return out
}
