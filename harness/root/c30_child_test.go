//go:build !js

package webrtc

// C30 child process: works through one chunk of cases sequentially (see c30_test.go).

import (
	"crypto/sha256"
	"encoding/hex"
	"encoding/json"
	"errors"
	"fmt"
	"os"
	"runtime"
	"runtime/debug"
	"strconv"
	"strings"
	"sync"
	"sync/atomic"
	"testing"
	"time"

	"github.com/pion/rtp"
	kit "github.com/pion/webrtc/v4/internal/verifkit"
)

const c30CallWatchdog = 20 * time.Second

var c30Timing = os.Getenv("VERIF_C30_TIMING") != "" //nolint:gochecknoglobals

type c30Seed struct {
	Name string
	SDP  string
	Typ  string // offer | answer
}

type c30Child struct {
	run   *kit.Run
	out   *os.File
	cur   *os.File
	mu    sync.Mutex
	seen  [][2]string
	count map[string]int
	gcase int
	seeds []c30Seed
	curM  map[string]any
}

func c30ChildMain(t *testing.T) {
	t.Helper()
	if os.Getenv("VERIF_C30_CHILD") == "seeds" {
		b, _ := json.Marshal(c30BuildSeeds())
		if err := os.WriteFile(os.Getenv("VERIF_C30_SEEDS"), b, 0o644); err != nil {
			t.Fatalf("write seeds: %v", err)
		}

		return
	}
	var ph, lo, hi int
	if _, err := fmt.Sscanf(os.Getenv("VERIF_C30_CHILD"), "%d:%d:%d", &ph, &lo, &hi); err != nil {
		t.Fatalf("bad VERIF_C30_CHILD: %v", err)
	}
	out, err := os.OpenFile(os.Getenv("VERIF_C30_OUT"), os.O_CREATE|os.O_WRONLY|os.O_APPEND, 0o644)
	if err != nil {
		t.Fatalf("open out: %v", err)
	}
	cur, err := os.OpenFile(os.Getenv("VERIF_C30_CUR"), os.O_CREATE|os.O_RDWR|os.O_TRUNC, 0o644)
	if err != nil {
		t.Fatalf("open cur: %v", err)
	}
	c := &c30Child{run: kit.Start(t, "C30", ""), out: out, cur: cur, count: map[string]int{}}
	if ph == c30PhFresh || ph == c30PhLive {
		if b, err := os.ReadFile(os.Getenv("VERIF_C30_SEEDS")); err == nil {
			_ = json.Unmarshal(b, &c.seeds)
		}
		if len(c.seeds) == 0 {
			c.seeds = c30BuildSeeds()
		}
	}
	for k := lo; k < hi; k++ {
		c.gcase = ph*c30Stride + k
		t0 := time.Now()
		switch ph {
		case c30PhFresh:
			c.caseFresh(k)
		case c30PhLive:
			c.caseLive(k)
		case c30PhCand:
			c.caseCandidates(k)
		case c30PhPacket:
			c.casePackets(k)
		default:
			c.caseMix(k)
		}
		if d := time.Since(t0); os.Getenv("VERIF_C30_TIMING") != "" && d > 30*time.Millisecond {
			fmt.Fprintf(os.Stderr, "C30-TIMING case %d took %v cur=%s\n", c.gcase, d, firstN(fmt.Sprint(c.curM), 300))
		}
	}
	c.emit(c30Rec{K: "done"})
	_ = out.Close()
	_ = cur.Close()
}

// ---------------------------------------------------------------- bookkeeping

func (c *c30Child) emit(r c30Rec) {
	b, _ := json.Marshal(r)
	b = append(b, '\n')
	c.mu.Lock()
	_, _ = c.out.Write(b)
	c.mu.Unlock()
}

func (c *c30Child) Seen(set, item string) {
	c.mu.Lock()
	c.seen = append(c.seen, [2]string{set, item})
	c.mu.Unlock()
}

func (c *c30Child) Count(k string, n int) {
	c.mu.Lock()
	c.count[k] += n
	c.mu.Unlock()
}

// eval records one evaluated input together with the coverage notes collected since the last one.
func (c *c30Child) eval(desc string, nontrivial bool) {
	h := sha256.Sum256([]byte(desc))
	c.mu.Lock()
	r := c30Rec{K: "case", Case: c.gcase, Desc: hex.EncodeToString(h[:10]), NT: nontrivial, Seen: c.seen, Count: c.count}
	c.seen, c.count = nil, map[string]int{}
	c.mu.Unlock()
	c.emit(r)
}

func (c *c30Child) inconclusive(reason string) {
	c.emit(c30Rec{K: "inc", Case: c.gcase, What: reason})
}

func (c *c30Child) sample(v any) { c.emit(c30Rec{K: "sample", Case: c.gcase, Detail: v}) }

// setCur replaces the current-file content: {"pos":<10 digits>, ...fields of m}.
func (c *c30Child) setCur(m map[string]any) {
	m["case"] = c.gcase
	m["seed"] = kit.Seed()
	m["tier"] = kit.Tier()
	m["property"] = "C30"
	c.curM = m
	b, _ := json.Marshal(m)
	buf := make([]byte, 0, len(b)+20)
	buf = append(buf, `{"pos":         0,`...)
	buf = append(buf, b[1:]...)
	buf = append(buf, '\n')
	_ = c.cur.Truncate(int64(len(buf)))
	_, _ = c.cur.WriteAt(buf, 0)
}

// setPos overwrites the fixed-width pos field (step / batch element in progress).
func (c *c30Child) setPos(n int) {
	_, _ = c.cur.WriteAt([]byte(fmt.Sprintf("%10d", n)), 7)
}

// curWith adds fields to the current-file.
func (c *c30Child) curWith(k string, v any) {
	m := c.curM
	if m == nil {
		m = map[string]any{}
	}
	m[k] = v
	c.setCur(m)
}

func (c *c30Child) violPanic(where string, p any, stack []byte) {
	cr := c30AnalyseCrash(string(stack), fmt.Sprint(p))
	c.emit(c30Rec{
		K: "viol", Case: c.gcase, Sig: cr.Sig,
		What:   fmt.Sprintf("%s panicked (recovered): %v at %s", where, p, cr.Top),
		Detail: map[string]any{"input": c.curM, "call": where, "message": cr.Message, "stack_top": cr.Stack},
	})
}

// call runs f with recover() and the per-call watchdog. ok=false: the call did not return or panicked (the
// PeerConnection must be abandoned).
func (c *c30Child) call(name string, f func() error) (err error, ok bool) {
	type res struct {
		err   error
		pan   any
		stack []byte
	}
	ch := make(chan res, 1)
	go func() {
		var r res
		defer func() {
			if p := recover(); p != nil {
				r.pan, r.stack = p, debug.Stack()
			}
			ch <- r
		}()
		r.err = f()
	}()
	tm := time.NewTimer(c30CallWatchdog)
	defer tm.Stop()
	t0 := time.Now()
	defer func() {
		if d := time.Since(t0); c30Timing && d > 10*time.Millisecond {
			fmt.Fprintf(os.Stderr, "C30-TIMING   call %s took %v\n", name, d)
		}
	}()
	select {
	case r := <-ch:
		if r.pan != nil {
			c.violPanic(name, r.pan, r.stack)

			return errors.New("panicked"), false
		}

		return r.err, true
	case <-tm.C:
		c.inconclusive("call-hung:" + name)
		b, _ := json.Marshal(c.curM)
		_ = os.WriteFile(fmt.Sprintf("%s/hang-seed%d-case%d.json", c30ReplayDir(), kit.Seed(), c.gcase), b, 0o644)
		if os.Getenv("VERIF_C30_HANGDUMP") != "" { // diagnosis aid: where is the call parked?
			buf := make([]byte, 8<<20)
			buf = buf[:runtime.Stack(buf, true)]
			_ = os.WriteFile(fmt.Sprintf("%s/hang-seed%d-case%d.goroutines.txt", c30ReplayDir(), kit.Seed(), c.gcase), buf, 0o644)
		}

		return errors.New("hung"), false
	}
}

// guard runs f in the current goroutine with recover (for the read loops the monitor runs like an application).
func (c *c30Child) guard(name string, f func()) {
	defer func() {
		if p := recover(); p != nil {
			c.violPanic(name, p, debug.Stack())
		}
	}()
	f()
}

func c30ErrClass(err error) string {
	if err == nil {
		return "ok"
	}
	s := err.Error()
	s = c30ReQuoted.ReplaceAllString(s, "Q")
	s = c30ReHexArg.ReplaceAllString(s, "H")
	s = c30ReDigits.ReplaceAllString(s, "#")
	if len(s) > 56 {
		s = s[:56]
	}

	return s
}

// finish closes pc and waits for its operations queue, so that background work of this case is over (or has
// crashed the process) before the next case starts.
func (c *c30Child) finish(pcs ...*PeerConnection) {
	for _, pc := range pcs {
		if pc == nil {
			continue
		}
		pc := pc
		if _, ok := c.call("Close", func() error { return pc.Close() }); !ok {
			continue
		}
		_, _ = c.call("drain-after-close", func() error {
			rigDrain(pc)

			return nil
		})
	}
	time.Sleep(300 * time.Microsecond)
}

// ---------------------------------------------------------------- peers

type c30PCOpt struct {
	Sem  SDPSemantics
	Icpt int // 0 none, 1 simulcast header extensions only, 2 default interceptors
	SE   func(*SettingEngine)
	Prof *c30Profile // nil: the default application (default MediaEngine, default Configuration)
}

func c30NewPC(o c30PCOpt) *PeerConnection {
	if o.Prof != nil {
		// a generated application profile: its own MediaEngine, Configuration policies and SettingEngine switches;
		// Icpt==1 (simulcast header extensions) is part of the profile's header-extension choice
		return rigMustPC(rigOpts{
			ME: o.Prof.mediaEngine(), Interceptors: o.Icpt == 2,
			Cfg: Configuration{SDPSemantics: o.Sem, BundlePolicy: o.Prof.bundle, RTCPMuxPolicy: o.Prof.rtcpMux},
			SE: func(se *SettingEngine) {
				o.Prof.settingEngine(se)
				if o.SE != nil {
					o.SE(se)
				}
			},
		})
	}
	me := &MediaEngine{}
	if err := me.RegisterDefaultCodecs(); err != nil {
		panic(err)
	}
	if o.Icpt == 1 {
		if err := ConfigureSimulcastExtensionHeaders(me); err != nil {
			panic(err)
		}
	}

	return rigMustPC(rigOpts{ME: me, Interceptors: o.Icpt == 2, Cfg: Configuration{SDPSemantics: o.Sem}, SE: o.SE})
}

var c30TrackSeq atomic.Int64 //nolint:gochecknoglobals

func c30Track(kind RTPCodecType, rid string, capb RTPCodecCapability) *TrackLocalStaticRTP {
	n := c30TrackSeq.Add(1)
	var opts []func(*TrackLocalStaticRTP)
	id := fmt.Sprintf("%s-%d", kind, n)
	if rid != "" {
		opts = append(opts, WithRTPStreamID(rid))
		id = "simulcast"
	}
	t, err := NewTrackLocalStaticRTP(capb, id, fmt.Sprintf("stream-%d", n%3), opts...)
	if err != nil {
		panic(err)
	}

	return t
}

// capFor returns the codec a local track of the given kind uses. The default application sends VP8 / Opus. A
// profiled application sends the first primary codec it registered; in a pair where either side is profiled the
// choice is narrowed to what the other side can receive (sendCaps) - an application does not add tracks nobody
// can negotiate, and a pion peer refuses an answer that rejects one of its sending tracks, which would only keep
// the pair from ever connecting. ok=false: no track of this kind.
func (p *c30Peer) capFor(kind RTPCodecType) (RTPCodecCapability, bool) {
	if p.sendCaps != nil {
		if c := p.sendCaps[kind]; c != nil {
			return *c, true
		}

		return RTPCodecCapability{}, false
	}
	if p.prof != nil {
		return p.prof.trackCap(kind)
	}
	if kind == RTPCodecTypeAudio {
		return RTPCodecCapability{MimeType: MimeTypeOpus, ClockRate: 48000, Channels: 2}, true
	}

	return RTPCodecCapability{MimeType: MimeTypeVP8, ClockRate: 90000}, true
}

// c30Peer is a PeerConnection with its local tracks and the counters of the application-style read loops.
type c30Peer struct {
	pc   *PeerConnection
	prof *c30Profile
	// sendCaps, when non-nil, overrides the codec of local tracks per kind (nil entry: no track of that kind)
	sendCaps map[RTPCodecType]*RTPCodecCapability
	tracks   []*TrackLocalStaticRTP
	seq      uint16
	onTrk    atomic.Int64
	rtpIn    atomic.Int64
	rtcpIn   atomic.Int64
}

func (c *c30Child) newPeer(o c30PCOpt) *c30Peer {
	p := &c30Peer{pc: c30NewPC(o), prof: o.Prof}
	p.pc.OnTrack(func(t *TrackRemote, rcv *RTPReceiver) {
		p.onTrk.Add(1)
		go c.guard("app:TrackRemote.ReadRTP", func() {
			for {
				if _, _, err := t.ReadRTP(); err != nil {
					if errors.Is(err, errRTPTooShort) || strings.Contains(err.Error(), "unmarshal") ||
						strings.Contains(err.Error(), "too small") || strings.Contains(err.Error(), "size") {
						continue // a malformed packet: keep reading like an application would
					}

					return
				}
				p.rtpIn.Add(1)
			}
		})
		go c.guard("app:RTPReceiver.ReadRTCP", func() {
			for {
				var err error
				if rid := t.RID(); rid != "" {
					_, _, err = rcv.ReadSimulcastRTCP(rid)
				} else {
					_, _, err = rcv.ReadRTCP()
				}
				if err != nil {
					if strings.Contains(err.Error(), "closed") || strings.Contains(err.Error(), "EOF") ||
						strings.Contains(err.Error(), "not found") {
						return
					}

					continue
				}
				p.rtcpIn.Add(1)
			}
		})
	})
	p.pc.OnDataChannel(func(d *DataChannel) { d.OnMessage(func(DataChannelMessage) {}) })

	return p
}

func (c *c30Child) readSenderRTCP(p *c30Peer, s *RTPSender) {
	go c.guard("app:RTPSender.ReadRTCP", func() {
		for {
			if _, _, err := s.ReadRTCP(); err != nil {
				if strings.Contains(err.Error(), "closed") || strings.Contains(err.Error(), "EOF") {
					return
				}

				continue
			}
			p.rtcpIn.Add(1)
		}
	})
}

func (c *c30Child) addTrack(p *c30Peer, kind RTPCodecType) {
	capb, ok := p.capFor(kind)
	if !ok {
		return
	}
	t := c30Track(kind, "", capb)
	s, err := p.pc.AddTrack(t)
	if err != nil {
		return
	}
	p.tracks = append(p.tracks, t)
	c.readSenderRTCP(p, s)
}

func (c *c30Child) addSimulcast(p *c30Peer) {
	capb, ok := p.capFor(RTPCodecTypeVideo)
	if !ok {
		return
	}
	q, h, f := c30Track(RTPCodecTypeVideo, "q", capb), c30Track(RTPCodecTypeVideo, "h", capb), c30Track(RTPCodecTypeVideo, "f", capb)
	tr, err := p.pc.AddTransceiverFromTrack(q, RTPTransceiverInit{Direction: RTPTransceiverDirectionSendonly})
	if err != nil {
		return
	}
	_ = tr.Sender().AddEncoding(h)
	_ = tr.Sender().AddEncoding(f)
	p.tracks = append(p.tracks, q, h, f)
	c.readSenderRTCP(p, tr.Sender())
}

// setup prepares local state: 0 nothing, 1 recvonly transceivers, 2 audio+video tracks, 3 data channel,
// 4 tracks + data channel + second video track, 5 recvonly video + data channel, 6 simulcast sender.
func (c *c30Child) setup(p *c30Peer, mode int) {
	switch mode {
	case 1:
		_, _ = p.pc.AddTransceiverFromKind(RTPCodecTypeAudio, RTPTransceiverInit{Direction: RTPTransceiverDirectionRecvonly})
		_, _ = p.pc.AddTransceiverFromKind(RTPCodecTypeVideo, RTPTransceiverInit{Direction: RTPTransceiverDirectionRecvonly})
	case 2:
		c.addTrack(p, RTPCodecTypeAudio)
		c.addTrack(p, RTPCodecTypeVideo)
	case 3:
		_, _ = p.pc.CreateDataChannel("c30", nil)
	case 4:
		c.addTrack(p, RTPCodecTypeAudio)
		c.addTrack(p, RTPCodecTypeVideo)
		c.addTrack(p, RTPCodecTypeVideo)
		_, _ = p.pc.CreateDataChannel("c30", nil)
	case 5:
		_, _ = p.pc.AddTransceiverFromKind(RTPCodecTypeVideo, RTPTransceiverInit{Direction: RTPTransceiverDirectionRecvonly})
		_, _ = p.pc.CreateDataChannel("c30", nil)
	case 6:
		c.addSimulcast(p)
	default:
	}
}

// sendMedia writes n RTP packets on every local track (errors ignored: the track may be unbound).
func (p *c30Peer) sendMedia(n int) {
	for i := 0; i < n; i++ {
		p.seq++
		for _, t := range p.tracks {
			_ = t.WriteRTP(&rtp.Packet{
				Header:  rtp.Header{Version: 2, SequenceNumber: p.seq, Timestamp: uint32(p.seq) * 3000, Marker: true},
				Payload: []byte{0x90, 0x90, 0x90, byte(p.seq)},
			})
		}
	}
}

// ---------------------------------------------------------------- seed corpus

func c30BuildSeeds() []c30Seed {
	var seeds []c30Seed
	for _, l := range c30RepoLiterals {
		seeds = append(seeds, c30Seed{l.Name, l.SDP, "offer"}, c30Seed{l.Name + "+completed", c30Complete(l.SDP), "offer"})
	}
	for _, l := range c30BrowserLiterals {
		typ := "offer"
		if strings.Contains(l.Name, "answer") {
			typ = "answer"
		}
		seeds = append(seeds, c30Seed{l.Name, l.SDP, typ})
	}
	c := &c30Child{count: map[string]int{}}
	c.out, _ = os.Open(os.DevNull)
	pair := func(name string, semA, semB SDPSemantics, icpt, setupA, setupB int) {
		a, b := c.newPeer(c30PCOpt{Sem: semA, Icpt: icpt}), c.newPeer(c30PCOpt{Sem: semB, Icpt: icpt})
		defer rigClose(a.pc, b.pc)
		c.setup(a, setupA)
		c.setup(b, setupB)
		offer, err := rigOffer(a.pc, true)
		if err != nil {
			return
		}
		seeds = append(seeds, c30Seed{"pion-offer:" + name, offer.SDP, "offer"})
		answer, err := rigAnswer(b.pc, offer, true)
		if err != nil {
			return
		}
		seeds = append(seeds, c30Seed{"pion-answer:" + name, answer.SDP, "answer"})
	}
	pair("unified-av-dc", SDPSemanticsUnifiedPlan, SDPSemanticsUnifiedPlan, 1, 4, 2)
	pair("planb-two-video", SDPSemanticsPlanB, SDPSemanticsPlanB, 0, 4, 4)
	pair("simulcast", SDPSemanticsUnifiedPlan, SDPSemanticsUnifiedPlan, 1, 6, 0)
	pair("recvonly-default-interceptors", SDPSemanticsUnifiedPlan, SDPSemanticsUnifiedPlan, 2, 1, 2)
	pair("dc-only", SDPSemanticsUnifiedPlan, SDPSemanticsUnifiedPlanWithFallback, 0, 3, 0)
	pair("fallback-av", SDPSemanticsUnifiedPlanWithFallback, SDPSemanticsUnifiedPlan, 2, 2, 2)
	_ = c.out.Close()

	return seeds
}

var c30Sems = []SDPSemantics{SDPSemanticsUnifiedPlan, SDPSemanticsPlanB, SDPSemanticsUnifiedPlanWithFallback} //nolint:gochecknoglobals

func (c *c30Child) pickSeed(r *kit.Rand) c30Seed {
	if r.Chance(0.22) {
		g := genRandomOffer(r, genOpts{
			MaxSections: 6, Unknown: true, MidStyle: -1, AbsentDir: true, PTRemap: r.Bool(), PTPerSection: true, ExtPermute: true,
			NoBundle: true, RejectedOK: true, MediaLevelSec: true,
		})
		if r.Chance(0.3) {
			for _, m := range g.Media {
				if m.Kind == "video" && r.Bool() {
					m.Rids = []string{"q", "h", "f"}[:r.Range(1, 3)]
				}
			}
		}

		return c30Seed{"gen", g.String(), "offer"}
	}

	return kit.Pick(r, c.seeds)
}

func c30SDPType(role string) SDPType {
	switch role {
	case "answer":
		return SDPTypeAnswer
	case "pranswer":
		return SDPTypePranswer
	default:
		return SDPTypeOffer
	}
}

// applyRemote performs one "remote description arrives" step on v and records what happened.
// role offer: SetRemoteDescription -> CreateAnswer -> SetLocalDescription, continuing through errors.
// It returns false when the PeerConnection must be abandoned (panic / hang).
func (c *c30Child) applyRemote(v *PeerConnection, role, text, tag string) (alive, srdOK bool) { //nolint:cyclop
	desc := SessionDescription{Type: c30SDPType(role), SDP: text}
	probe := desc
	perr, ok := c.call("SessionDescription.Unmarshal", func() error {
		_, e := probe.Unmarshal()

		return e
	})
	if !ok {
		return false, false
	}
	parsed := perr == nil
	defer func() {
		c.eval(fmt.Sprintf("%s|%s|%s", tag, role, text), parsed)
	}()
	if parsed {
		c.Count("sdp_parsed", 1)
	}
	err, ok := c.call("SetRemoteDescription("+role+")", func() error { return v.SetRemoteDescription(desc) })
	if !ok {
		return false, false
	}
	switch {
	case err == nil:
		c.Seen("sdp_stage", role+":srd-ok")
		c.Count("sdp_srd_ok", 1)
	case !parsed:
		c.Seen("sdp_stage", role+":parse-error")
	default:
		c.Seen("sdp_stage", role+":srd-error")
		c.Seen("sdp_error", "srd:"+c30ErrClass(err))
	}
	srdOK = err == nil
	if role != "offer" {
		return true, srdOK
	}
	var answer SessionDescription
	err, ok = c.call("CreateAnswer", func() error {
		var e error
		answer, e = v.CreateAnswer(nil)

		return e
	})
	if !ok {
		return false, srdOK
	}
	if err != nil {
		c.Seen("sdp_stage", "answer-error")
		if srdOK {
			c.Seen("sdp_error", "answer:"+c30ErrClass(err))
		}
		// continue through the error: SetLocalDescription with an empty answer
		answer = SessionDescription{Type: SDPTypeAnswer}
	} else {
		c.Seen("sdp_stage", "answer-ok")
		c.Count("sdp_answer_ok", 1)
	}
	err, ok = c.call("SetLocalDescription(answer)", func() error { return v.SetLocalDescription(answer) })
	if !ok {
		return false, srdOK
	}
	if err != nil {
		c.Seen("sdp_stage", "sld-error")
		if answer.SDP != "" {
			c.Seen("sdp_error", "sld:"+c30ErrClass(err))
		}
	} else {
		c.Seen("sdp_stage", "sld-ok")
		c.Count("sdp_sld_ok", 1)
	}

	return true, srdOK
}

func c30SemName(s SDPSemantics) string { return s.String() }

// ---------------------------------------------------------------- phase 0: fresh PeerConnections

func (c *c30Child) caseFresh(k int) { //nolint:cyclop,gocognit
	r := c.run.CaseRand(c.gcase)
	sem := kit.Pick(r, c30Sems)
	role := kit.Pick(r, []string{"offer", "offer", "offer", "offer", "answer", "answer", "answer", "pranswer"})
	icpt := kit.Pick(r, []int{0, 0, 1, 1, 1, 2})
	setup := kit.Pick(r, []int{0, 0, 1, 2, 2, 3, 4, 5, 6})
	if role != "offer" {
		setup = kit.Pick(r, []int{1, 2, 2, 3, 4, 4, 5, 6})
	}
	nmut := kit.Pick(r, []int{0, 1, 1, 1, 2, 2, 3, 4})
	if kit.Tier() == "thorough" && r.Chance(0.3) {
		nmut += r.Range(2, 8) // thorough: pile up mutations
	}
	var prof *c30Profile
	if r.Chance(0.3) {
		prof = c30GenProfile(r) // configuration dimension, see c30_config_test.go
	}
	v := c.newPeer(c30PCOpt{Sem: sem, Icpt: icpt, Prof: prof, SE: func(se *SettingEngine) {
		if k%7 == 3 {
			se.SetHandleUndeclaredSSRCWithoutAnswer(true)
		}
		if k%5 == 1 {
			se.SetFireOnTrackBeforeFirstRTP(true)
		}
	}})
	c.setup(v, setup)
	tag := fmt.Sprintf("fresh|%s|icpt%d|setup%d|cfg=%s", c30SemName(sem), icpt, setup, prof.Key())
	if prof != nil {
		c.Seen("victim_media_engine", prof.ME)
		c.Count("fresh_victim_profiled", 1)
	}
	seed := c.pickSeed(r)
	base := seed.SDP
	if role != "offer" {
		offer, err := v.pc.CreateOffer(nil)
		if err == nil {
			err = v.pc.SetLocalDescription(offer)
		}
		if err != nil {
			if prof == nil {
				c.inconclusive("fresh:local-offer-failed")
			} else {
				c.Count("fresh_profiled_local_offer_failed", 1) // e.g. a track whose codec the narrow MediaEngine lacks
			}
			c.finish(v.pc)

			return
		}
		switch x := r.Intn(10); {
		case x < 4: // the answer a real pion peer gives to this offer
			h := c30NewPC(c30PCOpt{Sem: kit.Pick(r, c30Sems), Icpt: icpt})
			if r.Bool() {
				_, _ = h.AddTransceiverFromKind(RTPCodecTypeVideo)
			}
			if ans, e := rigAnswer(h, offer, false); e == nil {
				base, seed.Name = ans.SDP, "pion-answer-to-own-offer"
			}
			rigClose(h)
		case x < 6: // the own offer echoed back
			base, seed.Name = strings.ReplaceAll(offer.SDP, "a=setup:actpass", "a=setup:active"), "echo-of-own-offer"
		default:
		}
	}
	text, names := c30MutateSDP(r, base, nmut, false)
	c.setCur(map[string]any{
		"phase": "sdp-fresh", "semantics": c30SemName(sem), "role": role, "local_setup": setup, "interceptors": icpt,
		"seed_name": seed.Name, "mutators": names, "sdp": text, "victim_profile": prof,
	})
	for _, n := range names {
		c.Seen("mutators", strings.SplitN(n, ":", 2)[0])
	}
	c.Seen("sdp_mode", fmt.Sprintf("%s/%s", c30SemName(sem), role))
	c.Seen("seed_class", strings.SplitN(seed.Name, ":", 2)[0])
	if k%4000 == 0 {
		c.sample(map[string]any{"phase": "sdp-fresh", "semantics": c30SemName(sem), "role": role, "mutators": names, "sdp_head": firstN(text, 400)})
	}
	c.setPos(1)
	alive, srdOK := c.applyRemote(v.pc, role, text, tag)
	if alive && role == "pranswer" && srdOK {
		text2, _ := c30MutateSDP(r, base, r.Intn(3), false)
		c.curWith("sdp_after_pranswer", text2)
		c.setPos(2)
		alive, _ = c.applyRemote(v.pc, "answer", text2, tag)
	}
	if alive && r.Chance(0.3) {
		c.setPos(3)
		for n := r.Range(1, 3); n > 0 && alive; n-- {
			cand := c30GenCandidate(r, []string{"genUfrag1"})
			c.curWith("candidate", cand)
			_, alive = c.call("AddICECandidate", func() error { return v.pc.AddICECandidate(ICECandidateInit{Candidate: cand}) })
		}
	}
	if alive && r.Chance(0.3) {
		// second round on the same PeerConnection (renegotiation paths when the first round reached stable)
		text3, names3 := c30MutateSDP(r, base, r.Range(0, 3), false)
		role3 := "offer"
		if v.pc.SignalingState() == SignalingStateHaveLocalOffer {
			role3 = "answer"
		} else if r.Chance(0.3) && v.pc.SignalingState() == SignalingStateStable {
			if offer, err := v.pc.CreateOffer(nil); err == nil && v.pc.SetLocalDescription(offer) == nil {
				role3 = "answer"
			}
		}
		c.curWith("second_round", map[string]any{"role": role3, "mutators": names3, "sdp": text3})
		c.setPos(4)
		c.Count("sdp_second_round", 1)
		alive, _ = c.applyRemote(v.pc, role3, text3, tag+"|round2")
	}
	c.setPos(5)
	if alive {
		time.Sleep(time.Millisecond)
		c.finish(v.pc)
	} else {
		go func() { _ = v.pc.Close() }()
	}
}

func c30Itoa(n int) string { return strconv.Itoa(n) }
