package webrtc

// Shared rig of the /verif root-package monitors (overlaid into /repo as vf_rig_test.go).
// It deliberately does not use any helper of the repository's own tests.

import (
	"crypto/ecdsa"
	"crypto/elliptic"
	"crypto/rand"
	"fmt"
	"strings"
	"sync"
	"time"

	"github.com/pion/ice/v4"
	"github.com/pion/interceptor"
	"github.com/pion/logging"
)

var (
	rigCertOnce sync.Once   //nolint:gochecknoglobals
	rigCertVal  Certificate //nolint:gochecknoglobals
)

// rigCert returns one process-wide ECDSA certificate (saves ~1 ms per PeerConnection).
func rigCert() Certificate {
	rigCertOnce.Do(func() {
		sk, err := ecdsa.GenerateKey(elliptic.P256(), rand.Reader)
		if err != nil {
			panic(err)
		}
		c, err := GenerateCertificate(sk)
		if err != nil {
			panic(err)
		}
		rigCertVal = *c
	})

	return rigCertVal
}

type rigOpts struct {
	SE           func(*SettingEngine) // extra SettingEngine configuration
	ME           *MediaEngine         // nil: default codecs
	Cfg          Configuration        // Certificates default to rigCert
	Interceptors bool                 // false: empty interceptor registry (no NACK/TWCC/report goroutines)
	Quiet        bool                 // true: disable logging entirely
	OwnCert      bool                 // true: let the PeerConnection generate its own certificate
}

type rigNullLoggerFactory struct{}

type rigNullLogger struct{}

func (rigNullLogger) Trace(string)          {}
func (rigNullLogger) Tracef(string, ...any) {}
func (rigNullLogger) Debug(string)          {}
func (rigNullLogger) Debugf(string, ...any) {}
func (rigNullLogger) Info(string)           {}
func (rigNullLogger) Infof(string, ...any)  {}
func (rigNullLogger) Warn(string)           {}
func (rigNullLogger) Warnf(string, ...any)  {}
func (rigNullLogger) Error(string)          {}
func (rigNullLogger) Errorf(string, ...any) {}

func (rigNullLoggerFactory) NewLogger(string) logging.LeveledLogger { return rigNullLogger{} }

// rigSettingEngine returns a SettingEngine for fast offline use: loopback host candidates only, UDP4, no mDNS.
func rigSettingEngine() SettingEngine {
	se := SettingEngine{}
	se.SetIncludeLoopbackCandidate(true)
	se.SetInterfaceFilter(func(name string) bool { return name == "lo" })
	se.SetNetworkTypes([]NetworkType{NetworkTypeUDP4})
	se.SetICEMulticastDNSMode(ice.MulticastDNSModeDisabled)
	se.LoggerFactory = rigNullLoggerFactory{}

	return se
}

// rigNewPC creates a PeerConnection for monitors.
func rigNewPC(o rigOpts) (*PeerConnection, error) {
	se := rigSettingEngine()
	if o.SE != nil {
		o.SE(&se)
	}
	me := o.ME
	if me == nil {
		me = &MediaEngine{}
		if err := me.RegisterDefaultCodecs(); err != nil {
			return nil, err
		}
	}
	opts := []func(*API){WithSettingEngine(se), WithMediaEngine(me)}
	if !o.Interceptors {
		opts = append(opts, WithInterceptorRegistry(&interceptor.Registry{}))
	}
	cfg := o.Cfg
	if len(cfg.Certificates) == 0 && !o.OwnCert {
		cfg.Certificates = []Certificate{rigCert()}
	}

	return NewAPI(opts...).NewPeerConnection(cfg)
}

// rigMustPC panics on error (monitor set-up failures are harness errors, not property violations).
func rigMustPC(o rigOpts) *PeerConnection {
	pc, err := rigNewPC(o)
	if err != nil {
		panic(fmt.Sprintf("rig: NewPeerConnection: %v", err))
	}

	return pc
}

// rigGatherDone waits (watchdog) for ICE gathering to complete on pc.
func rigGatherDone(pc *PeerConnection, d time.Duration) bool {
	select {
	case <-GatheringCompletePromise(pc):
		return true
	case <-time.After(d):
		return false
	}
}

type rigMunge func(sdp string) string

// rigHalf performs the offerer half: CreateOffer + SetLocalDescription; returns the offer (with candidates if wait).
func rigOffer(offerer *PeerConnection, waitGather bool) (SessionDescription, error) {
	offer, err := offerer.CreateOffer(nil)
	if err != nil {
		return offer, fmt.Errorf("CreateOffer: %w", err)
	}
	if err = offerer.SetLocalDescription(offer); err != nil {
		return offer, fmt.Errorf("SetLocalDescription(offer): %w", err)
	}
	if waitGather {
		if !rigGatherDone(offerer, 10*time.Second) {
			return offer, fmt.Errorf("gathering watchdog")
		}
		offer = *offerer.LocalDescription()
	}

	return offer, nil
}

// rigAnswer applies offer on answerer and produces + applies the answer locally.
func rigAnswer(answerer *PeerConnection, offer SessionDescription, waitGather bool) (SessionDescription, error) {
	if err := answerer.SetRemoteDescription(offer); err != nil {
		return SessionDescription{}, fmt.Errorf("SetRemoteDescription(offer): %w", err)
	}
	answer, err := answerer.CreateAnswer(nil)
	if err != nil {
		return answer, fmt.Errorf("CreateAnswer: %w", err)
	}
	if err = answerer.SetLocalDescription(answer); err != nil {
		return answer, fmt.Errorf("SetLocalDescription(answer): %w", err)
	}
	if waitGather {
		if !rigGatherDone(answerer, 10*time.Second) {
			return answer, fmt.Errorf("gathering watchdog")
		}
		answer = *answerer.LocalDescription()
	}

	return answer, nil
}

// rigExchange runs one complete offer/answer exchange (non-trickle: candidates inside the descriptions).
// mo / ma may rewrite the offer / answer text on its way to the other peer.
func rigExchange(offerer, answerer *PeerConnection, mo, ma rigMunge) (offer, answer SessionDescription, err error) {
	offer, err = rigOffer(offerer, true)
	if err != nil {
		return offer, answer, err
	}
	sent := offer
	if mo != nil {
		sent.SDP = mo(sent.SDP)
	}
	answer, err = rigAnswer(answerer, sent, true)
	if err != nil {
		return offer, answer, err
	}
	back := answer
	if ma != nil {
		back.SDP = ma(back.SDP)
	}
	if err = offerer.SetRemoteDescription(back); err != nil {
		return offer, answer, fmt.Errorf("SetRemoteDescription(answer): %w", err)
	}

	return offer, answer, nil
}

// rigWaitState waits (watchdog) until both peers report PeerConnectionStateConnected.
func rigWaitConnected(d time.Duration, pcs ...*PeerConnection) bool {
	deadline := time.Now().Add(d)
	for {
		ok := true
		for _, pc := range pcs {
			if pc.ConnectionState() != PeerConnectionStateConnected {
				ok = false
			}
		}
		if ok {
			return true
		}
		if time.Now().After(deadline) {
			return false
		}
		time.Sleep(time.Millisecond)
	}
}

// rigClose closes the given PeerConnections, ignoring errors.
func rigClose(pcs ...*PeerConnection) {
	for _, pc := range pcs {
		if pc != nil {
			_ = pc.Close()
		}
	}
}

// rigDrain waits until the internal operations queue of pc is empty (white-box: ops.Done()).
func rigDrain(pc *PeerConnection) { pc.ops.Done() }

// rigReplaceLine rewrites SDP lines: f returns (replacement lines, keep?) per line (without CRLF).
func rigMapLines(sdp string, f func(line string) []string) string {
	lines := strings.Split(strings.TrimRight(strings.ReplaceAll(sdp, "\r\n", "\n"), "\n"), "\n")
	var out []string
	for _, ln := range lines {
		out = append(out, f(ln)...)
	}

	return strings.Join(out, "\r\n") + "\r\n"
}

// rigSectionIndex returns for every line index the m-section index it belongs to (-1 = session part).
func rigSplitSections(sdp string) (session []string, sections [][]string) {
	lines := strings.Split(strings.TrimRight(strings.ReplaceAll(sdp, "\r\n", "\n"), "\n"), "\n")
	cur := -1
	for _, ln := range lines {
		if strings.HasPrefix(ln, "m=") {
			sections = append(sections, nil)
			cur++
		}
		if cur < 0 {
			session = append(session, ln)
		} else {
			sections[cur] = append(sections[cur], ln)
		}
	}

	return session, sections
}

func rigJoinSections(session []string, sections [][]string) string {
	all := append([]string{}, session...)
	for _, s := range sections {
		all = append(all, s...)
	}

	return strings.Join(all, "\r\n") + "\r\n"
}

func firstN(s string, n int) string {
	if len(s) > n {
		return s[:n]
	}

	return s
}

// rigVnetMu serialises construction of vnet routers/nets: vnet hands out MAC addresses from an unsynchronised package
// global (pion/transport, a test-only dependency), which the race detector flags when monitors build networks in parallel.
var rigVnetMu sync.Mutex
