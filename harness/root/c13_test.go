package webrtc

import (
	"fmt"
	"strings"
	"sync/atomic"
	"testing"
	"time"

	"github.com/pion/dtls/v3/pkg/protocol/handshake"
	kit "github.com/pion/webrtc/v4/internal/verifkit"
)

// C13 — for every combination of ICE-lite on each side, the answerer's configured DTLS role and the offer's a=setup
// value: the answer's a=setup is active or passive (never actpass); the two endpoints take opposite DTLS roles
// consistent with the exchanged a=setup values; exactly one is the ICE controlling agent, chosen per RFC 8445 §6.1.1.
//
// Exhaustive over 2 x 2 x 3 x 4 = 48 configurations. Everything SDP-level is read from the SDP text with kit.ParseSDP.
// ICE roles through the public ICETransport.Role(). DTLS roles: (a) white-box dtlsTransport.role() once the transport
// has left "new" (prepareStart has then used exactly this value), (b) black-box confirmation through the public
// SettingEngine DTLS ClientHello / ServerHello message hooks (a ClientHello is only ever produced by the DTLS client,
// a ServerHello only by the DTLS server).

type c13Cfg struct {
	LiteOfferer, LiteAnswerer bool
	AnsweringRole             string // unset / client / server
	Offered                   string // actpass / active / passive / absent
}

func (c c13Cfg) String() string {
	return fmt.Sprintf("lite_offerer=%v lite_answerer=%v answering_role=%s offered_setup=%s", c.LiteOfferer, c.LiteAnswerer, c.AnsweringRole, c.Offered)
}

func c13All() []c13Cfg {
	var out []c13Cfg
	for _, lo := range []bool{false, true} {
		for _, la := range []bool{false, true} {
			for _, role := range []string{"unset", "client", "server"} {
				for _, off := range []string{"actpass", "active", "passive", "absent"} {
					out = append(out, c13Cfg{lo, la, role, off})
				}
			}
		}
	}

	return out
}

// c13ExpectedICE is RFC 8445 §6.1.1 written as a table: (offerer lite, answerer lite) -> (offerer role, answerer role).
func c13ExpectedICE(liteOfferer, liteAnswerer bool) (ICERole, ICERole) {
	type k struct{ o, a bool }
	table := map[k][2]ICERole{
		{false, false}: {ICERoleControlling, ICERoleControlled}, // both full: the initiating agent (offerer) controls
		{true, true}:   {ICERoleControlling, ICERoleControlled}, // both lite: the initiating agent controls
		{true, false}:  {ICERoleControlled, ICERoleControlling}, // exactly one lite: the full agent controls
		{false, true}:  {ICERoleControlling, ICERoleControlled},
	}
	v := table[k{liteOfferer, liteAnswerer}]

	return v[0], v[1]
}

type c13Hello struct{ client, server atomic.Int32 }

func (h *c13Hello) install(se *SettingEngine) {
	se.SetDTLSClientHelloMessageHook(func(m handshake.MessageClientHello) handshake.Message {
		h.client.Add(1)

		return &m
	})
	se.SetDTLSServerHelloMessageHook(func(m handshake.MessageServerHello) handshake.Message {
		h.server.Add(1)

		return &m
	})
}

func (h *c13Hello) String() string {
	return fmt.Sprintf("clientHello=%d serverHello=%d", h.client.Load(), h.server.Load())
}

// c13Setups returns every a=setup value of the description (session level first), and whether some m-section has none
// at either level.
func c13Setups(d *kit.SDPDesc) (vals []string, missing bool) {
	sess := d.AttrAll("setup")
	vals = append(vals, sess...)
	for _, m := range d.Media {
		mv := m.AttrAll("setup")
		vals = append(vals, mv...)
		if len(mv) == 0 && len(sess) == 0 {
			missing = true
		}
	}

	return vals, missing
}

func c13Uniform(vals []string) string {
	if len(vals) == 0 {
		return "absent"
	}
	for _, v := range vals {
		if v != vals[0] {
			return "mixed"
		}
	}

	return vals[0]
}

func c13MungeSetup(sdp, to string) string {
	return rigMapLines(sdp, func(line string) []string {
		if !strings.HasPrefix(line, "a=setup:") {
			return []string{line}
		}
		if to == "absent" {
			return nil
		}

		return []string{"a=setup:" + to}
	})
}

func c13Inverse(role string) string {
	switch role {
	case "client":
		return "server"
	case "server":
		return "client"
	default:
		return "?"
	}
}

// c13RoleOfSetup: RFC 4145/5763 — setup:active initiates (DTLS client), setup:passive accepts (DTLS server).
func c13RoleOfSetup(setup string) string {
	switch setup {
	case "active":
		return "client"
	case "passive":
		return "server"
	default:
		return "?"
	}
}

func c13WaitDTLSStarted(d time.Duration, pcs ...*PeerConnection) bool {
	return kit.Eventually(d, func() bool {
		for _, pc := range pcs {
			if pc.SCTP().Transport().State() == DTLSTransportStateNew {
				return false
			}
		}

		return true
	})
}

func TestVerifC13(t *testing.T) { //nolint:gocognit,cyclop,maintidx
	run := kit.Start(t, "C13", "exhaustive product lite_offerer{off,on} x lite_answerer{off,on} x answering DTLS role{unset,client,server} x offered "+
		"a=setup{actpass (pion's own offer), active, passive, absent (offer text rewritten before the answerer sees it)}; each configuration on a fresh "+
		"pair of PeerConnections (data channel + audio section, loopback host candidates, non-trickle). thorough repeats each configuration 20x, half "+
		"of them with the answerer created first. A case is non-trivial when the answerer produced an answer; distinct by configuration")
	defer run.Finish()
	run.Exhaustive()
	run.Assume("a=setup:active <=> DTLS client, a=setup:passive <=> DTLS server (RFC 4145 / RFC 5763); an offerer that sent actpass is consistent with either role")
	run.Assume("both-lite pairs never connect by design (neither agent sends checks): for those 12 configurations only the SDP-level and ICE-role " +
		"oracles apply; the DTLS role actually used is not observable because DTLS never starts")
	run.Assume("when the offer text was rewritten to setup:active/passive/absent the offerer itself still believes it offered actpass; it must still " +
		"take the role opposite to the answer's explicit a=setup")
	run.Assume("DTLS role used = dtlsTransport.role() read after the transport left state new (white-box), confirmed on connected pairs by which " +
		"peer's ClientHello / ServerHello hook fired (public API)")

	cfgs := c13All()
	reps := kit.N(1, 20)
	n := len(cfgs) * reps
	run.Set("configurations", len(cfgs))
	run.Set("repetitions", reps)

	run.Parallel(n, 8, func(i int) {
		cfg := cfgs[i%len(cfgs)]
		variant := i / len(cfgs)
		answererFirst := variant%2 == 1
		desc := cfg.String()
		detail := map[string]any{"config": desc, "answerer_created_first": answererFirst}
		bothLite := cfg.LiteOfferer && cfg.LiteAnswerer

		helloO, helloA := &c13Hello{}, &c13Hello{}
		mkOfferer := func() *PeerConnection {
			return rigMustPC(rigOpts{SE: func(se *SettingEngine) {
				se.SetLite(cfg.LiteOfferer)
				helloO.install(se)
			}})
		}
		mkAnswerer := func() *PeerConnection {
			return rigMustPC(rigOpts{SE: func(se *SettingEngine) {
				se.SetLite(cfg.LiteAnswerer)
				switch cfg.AnsweringRole {
				case "client":
					_ = se.SetAnsweringDTLSRole(DTLSRoleClient)
				case "server":
					_ = se.SetAnsweringDTLSRole(DTLSRoleServer)
				default:
				}
				helloA.install(se)
			}})
		}
		var offerer, answerer *PeerConnection
		if answererFirst {
			answerer = mkAnswerer()
			offerer = mkOfferer()
		} else {
			offerer = mkOfferer()
			answerer = mkAnswerer()
		}
		defer rigClose(offerer, answerer)

		if _, err := offerer.CreateDataChannel("c13", nil); err != nil {
			run.Inconclusive("harness: CreateDataChannel")

			return
		}
		if _, err := offerer.AddTransceiverFromKind(RTPCodecTypeAudio); err != nil {
			run.Inconclusive("harness: AddTransceiverFromKind")

			return
		}
		offer, err := rigOffer(offerer, true)
		if err != nil {
			run.Inconclusive("harness: offer: " + firstN(err.Error(), 60))

			return
		}
		po, err := kit.ParseSDP(offer.SDP)
		if err != nil {
			run.Inconclusive("harness: offer unparsable")

			return
		}
		ownVals, ownMissing := c13Setups(po)
		if own := c13Uniform(ownVals); own != "actpass" || ownMissing {
			// the "actpass" column relies on pion offering actpass; anything else is outside this monitor's preconditions
			run.Inconclusive("precondition: pion offer a=setup is " + own)
			run.Count("model_divergence", 1)

			return
		}
		_, offerLite := po.Attr("ice-lite")
		sent := offer
		if cfg.Offered != "actpass" {
			sent.SDP = c13MungeSetup(offer.SDP, cfg.Offered)
		}
		ps, _ := kit.ParseSDP(sent.SDP)
		sentVals, _ := c13Setups(ps)
		detail["offer_setup_sent"] = sentVals
		detail["offer_ice_lite"] = offerLite
		if got := c13Uniform(sentVals); got != cfg.Offered {
			run.Inconclusive("harness: munge produced " + got)

			return
		}

		answer, err := rigAnswer(answerer, sent, true)
		if err != nil {
			run.Inconclusive("harness: answer: " + firstN(err.Error(), 60))
			run.Seen("answer_errors", desc+": "+firstN(err.Error(), 60))

			return
		}
		run.Case(desc, true)
		pa, err := kit.ParseSDP(answer.SDP)
		if err != nil {
			run.Inconclusive("harness: answer unparsable")

			return
		}
		ansVals, ansMissing := c13Setups(pa)
		answered := c13Uniform(ansVals)
		_, answerLite := pa.Attr("ice-lite")
		detail["answer_setup"] = ansVals
		detail["answer_ice_lite"] = answerLite
		run.Seen("answer_setup_values", answered)

		// ---- oracle 1: active or passive, never actpass, in every section
		sdpOK := true
		if ansMissing || (answered != "active" && answered != "passive") {
			sdpOK = false
			v := answered
			if ansMissing && answered != "absent" {
				v = "missing-in-some-section"
			}
			run.Violation("answer-setup-invalid:"+v, fmt.Sprintf("%s: answer a=setup values %v (must be active or passive in every section)", desc, ansVals),
				i, detail)
		}
		// ---- oracle 2: complementary to an explicit offered value
		complementary := true
		if sdpOK && (cfg.Offered == "active" || cfg.Offered == "passive") && answered == cfg.Offered {
			complementary = false
			sig := fmt.Sprintf("answer-setup-not-complementary:offered=%s:answered=%s:answering_role=%s", cfg.Offered, answered, cfg.AnsweringRole)
			if cfg.AnsweringRole == "unset" {
				sig += fmt.Sprintf(":lite_offerer=%v", cfg.LiteOfferer)
			}
			run.Violation(sig, fmt.Sprintf("%s: offer said a=setup:%s and the answer says a=setup:%s too — both peers claim the same DTLS role",
				desc, cfg.Offered, answered), i, detail)
		}

		// ---- apply the answer, then oracle 3: ICE roles
		if err = offerer.SetRemoteDescription(answer); err != nil {
			run.Inconclusive("harness: offerer.SetRemoteDescription(answer): " + firstN(err.Error(), 60))

			return
		}
		iceO, iceA := offerer.SCTP().Transport().ICETransport(), answerer.SCTP().Transport().ICETransport()
		if !kit.Eventually(15*time.Second, func() bool { return iceO.Role() != ICERoleUnknown && iceA.Role() != ICERoleUnknown }) {
			run.Inconclusive("watchdog: ICE role not set")

			return
		}
		gotO, gotA := iceO.Role(), iceA.Role()
		wantO, wantA := c13ExpectedICE(cfg.LiteOfferer, cfg.LiteAnswerer)
		detail["ice_roles"] = fmt.Sprintf("offerer=%s answerer=%s", gotO, gotA)
		run.Count("ice_role_checks", 1)
		if gotO != wantO || gotA != wantA {
			run.Violation(fmt.Sprintf("ice-role:lite_offerer=%v:lite_answerer=%v:offerer=%s:answerer=%s", cfg.LiteOfferer, cfg.LiteAnswerer, gotO, gotA),
				fmt.Sprintf("%s: ICE roles offerer=%s answerer=%s, RFC 8445 §6.1.1 requires offerer=%s answerer=%s", desc, gotO, gotA, wantO, wantA),
				i, detail)
		}
		summary := fmt.Sprintf("%s -> answer=%s ice=%s/%s", desc, answered, gotO, gotA)
		if offerLite != cfg.LiteOfferer || answerLite != cfg.LiteAnswerer {
			run.Count("model_divergence", 1) // a=ice-lite not signaled as configured: outside the statement, recorded only
			run.Seen("ice_lite_attribute_divergence", desc)
		}

		if bothLite {
			run.Count("both_lite_sdp_and_ice_role_checks_only", 1)
			run.Seen("outcomes", summary+" dtls=not-started(both-lite)")

			return
		}
		if !sdpOK {
			run.Seen("outcomes", summary+" dtls=not-checked(answer invalid)")

			return
		}

		// ---- oracle 4: DTLS roles actually used
		if !c13WaitDTLSStarted(15*time.Second, offerer, answerer) {
			run.Inconclusive("watchdog: DTLS not started")
			run.Seen("outcomes", summary+" dtls=not-started(watchdog)")

			return
		}
		usedO, usedA := offerer.dtlsTransport.role().String(), answerer.dtlsTransport.role().String()
		announcedA := c13RoleOfSetup(answered)
		detail["dtls_used"] = fmt.Sprintf("offerer=%s answerer=%s", usedO, usedA)
		run.Count("dtls_role_checks", 1)
		// (4b) the offerer takes the role opposite to the answer's explicit a=setup
		if usedO != c13Inverse(announcedA) {
			run.Violation(fmt.Sprintf("offerer-dtls-role-not-opposite-to-answer:answer=%s:used=%s", answered, usedO),
				fmt.Sprintf("%s: answer says a=setup:%s but the offerer runs DTLS as %s", desc, answered, usedO), i, detail)
		}
		// (4a) the answerer uses what its own answer announced. When oracle 2 already failed the announced value itself is
		// the reported defect (same cause), so it is not reported a second time here.
		if complementary && usedA != announcedA {
			run.Violation(fmt.Sprintf("answerer-dtls-role-differs-from-own-setup:answer=%s:used=%s:offered=%s", answered, usedA, cfg.Offered),
				fmt.Sprintf("%s: the answerer announced a=setup:%s but runs DTLS as %s", desc, answered, usedA), i, detail)
		}
		if !complementary {
			run.Count("dtls_answerer_check_skipped_same_cause", 1)
			run.Seen("outcomes", fmt.Sprintf("%s dtls=%s/%s (answer not complementary; connection not expected)", summary, usedO, usedA))

			return
		}
		if usedO == usedA {
			// both client or both server: the handshake cannot complete; already reported above by 4a or 4b
			run.Seen("outcomes", fmt.Sprintf("%s dtls=%s/%s same-role", summary, usedO, usedA))

			return
		}
		// opposite roles consistent with the SDP: the pair must be able to connect (watchdog only => inconclusive)
		if !rigWaitConnected(15*time.Second, offerer, answerer) {
			run.Inconclusive("watchdog: not connected")
			run.Seen("outcomes", fmt.Sprintf("%s dtls=%s/%s not-connected(watchdog)", summary, usedO, usedA))

			return
		}
		run.Count("connected_pairs", 1)
		dO, dA := offerer.SCTP().Transport().State(), answerer.SCTP().Transport().State()
		if dO != DTLSTransportStateConnected || dA != DTLSTransportStateConnected {
			run.Violation("dtls-not-connected-on-connected-pair", fmt.Sprintf("%s: PeerConnections connected but DTLS states are %s/%s", desc, dO, dA), i, detail)
		}
		// black-box confirmation of the handshake direction
		detail["hello_hooks"] = fmt.Sprintf("offerer{%s} answerer{%s}", helloO, helloA)
		hookRole := func(h *c13Hello) string {
			c, s := h.client.Load() > 0, h.server.Load() > 0
			switch {
			case c && !s:
				return "client"
			case s && !c:
				return "server"
			case c && s:
				return "both"
			default:
				return "none"
			}
		}
		hO, hA := hookRole(helloO), hookRole(helloA)
		if hO != usedO || hA != usedA {
			run.Violation(fmt.Sprintf("dtls-handshake-direction-differs:offerer=%s/%s:answerer=%s/%s", usedO, hO, usedA, hA),
				fmt.Sprintf("%s: roles offerer=%s answerer=%s but hello messages were produced by offerer as %s, answerer as %s", desc, usedO, usedA, hO, hA),
				i, detail)
		}
		run.Seen("outcomes", fmt.Sprintf("%s dtls=%s/%s connected", summary, usedO, usedA))
		run.Sample(map[string]any{"config": desc, "answer_setup": answered, "ice": detail["ice_roles"], "dtls_used": detail["dtls_used"],
			"hello_hooks": detail["hello_hooks"], "connected": true})
	})
}
