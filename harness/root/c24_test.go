package webrtc

import (
	"fmt"
	"net"
	"runtime"
	"sort"
	"strings"
	"sync"
	"testing"
	"time"

	"github.com/pion/ice/v4"
	kit "github.com/pion/webrtc/v4/internal/verifkit"
)

// C24 — OnICECandidate reports every gathered local candidate exactly once, then the nil end-of-gathering marker
// exactly once, and nothing after it — with or without a candidate pool, however SetLocalDescription's pool flush
// interleaves with the gathering callbacks.
//
// Monitor: trace checker over the recorded handler invocations (candidate identity or nil, in invocation order), compared
// at quiescence with the local candidates of the pion/ice agent itself; scripted schedules park the end-of-gathering
// callback, a candidate callback or the flush at the compiled-in yield points of icegatherer.go.
//
// Independence of the deciding oracle: the path under judgement turns every ice.Candidate into an ICECandidate with
// newICECandidateFromICE (and drops the candidate when that fails). The reference set therefore must NOT pass through
// that conversion (ICEGatherer.GetLocalCandidates does) and the handler events must not be keyed by a string that
// round-trips through the webrtc-level conversions (ICECandidate.ToJSON -> ToICE -> Marshal). Both sides are keyed by
// the candidate's transport identity "type proto address port [tcptype] [raddr rport]", rendered here: on the reference
// side from the ice.Candidate getters of the agent's own candidates, on the handler side from the plain struct fields of
// the reported ICECandidate with private renderers for the two enums.

// c24TypName renders an ICECandidateType without webrtc's String()/convertTypeFromICE.
func c24TypName(t ICECandidateType) string {
	switch t {
	case ICECandidateTypeHost:
		return "host"
	case ICECandidateTypeSrflx:
		return "srflx"
	case ICECandidateTypePrflx:
		return "prflx"
	case ICECandidateTypeRelay:
		return "relay"
	default:
		return fmt.Sprintf("typ(%d)", int(t))
	}
}

// c24IceTypName renders an ice.CandidateType from the ice package's constants.
func c24IceTypName(t ice.CandidateType) string {
	switch t {
	case ice.CandidateTypeHost:
		return "host"
	case ice.CandidateTypeServerReflexive:
		return "srflx"
	case ice.CandidateTypePeerReflexive:
		return "prflx"
	case ice.CandidateTypeRelay:
		return "relay"
	default:
		return fmt.Sprintf("icetyp(%d)", int(t))
	}
}

func c24ProtoName(p ICEProtocol) string {
	switch p {
	case ICEProtocolUDP:
		return "udp"
	case ICEProtocolTCP:
		return "tcp"
	default:
		return fmt.Sprintf("proto(%d)", int(p))
	}
}

func c24IceProtoName(n ice.NetworkType) string {
	switch {
	case n.IsUDP():
		return "udp"
	case n.IsTCP():
		return "tcp"
	default:
		return fmt.Sprintf("iceproto(%d)", int(n))
	}
}

func c24Key(typ, proto, addr string, port int, tcpType, raddr string, rport int) string {
	k := fmt.Sprintf("%s %s %s %d", typ, proto, strings.ToLower(addr), port)
	if tcpType != "" {
		k += " tcptype " + tcpType
	}
	if raddr != "" {
		k += fmt.Sprintf(" raddr %s rport %d", strings.ToLower(raddr), rport)
	}

	return k
}

// c24KeyOfReported: identity of a candidate as the handler received it (struct fields only).
func c24KeyOfReported(c *ICECandidate) string {
	return c24Key(c24TypName(c.Typ), c24ProtoName(c.Protocol), c.Address, int(c.Port), c.TCPType, c.RelatedAddress, int(c.RelatedPort))
}

// c24KeyOfGathered: identity of a candidate as the pion/ice agent holds it.
func c24KeyOfGathered(c ice.Candidate) string {
	tcpType := ""
	if c.TCPType() != ice.TCPTypeUnspecified {
		tcpType = c.TCPType().String()
	}
	raddr, rport := "", 0
	if ra := c.RelatedAddress(); ra != nil {
		raddr, rport = ra.Address, ra.Port
	}

	return c24Key(c24IceTypName(c.Type()), c24IceProtoName(c.NetworkType()), c.Address(), c.Port(), tcpType, raddr, rport)
}

type c24Ev struct {
	isNil bool
	key   string // independent identity (deciding)
	line  string // the candidate line as webrtc renders it (replay detail only, never compared)
}

type c24Rec struct {
	mu          sync.Mutex
	evs         []c24Ev
	lateHandler bool // the handler was registered after gathering had already ended
	// lateDecided: ... and by then the end-of-gathering callback had already taken its decision (with the pool still
	// active that decision is "leave the nil to the flush"), so the no-op handler it loaded cannot swallow anything.
	lateDecided bool
	sldSeen     bool   // the first SetLocalDescription of this case was issued
	order       string // whether the end-of-gathering callback had decided before the first SetLocalDescription
	cleanup     []func()
	gate        *c24Gate
	pool        uint8
	newErr      error
}

func (r *c24Rec) handler(c *ICECandidate) {
	ev := c24Ev{isNil: c == nil}
	if c != nil {
		ev.key = c24KeyOfReported(c)
		ev.line = c.ToJSON().Candidate
	}
	r.mu.Lock()
	r.evs = append(r.evs, ev)
	r.mu.Unlock()
}

func (r *c24Rec) snapshot() []c24Ev {
	r.mu.Lock()
	defer r.mu.Unlock()

	return append([]c24Ev{}, r.evs...)
}

// c24Lines renders the event log for the replay detail: "" for nil (as before), else "<identity> <= <webrtc line>".
func c24Lines(evs []c24Ev) []string {
	out := make([]string, 0, len(evs))
	for _, e := range evs {
		if e.isNil {
			out = append(out, "")
		} else {
			out = append(out, e.key+" <= "+e.line)
		}
	}

	return out
}

func (r *c24Rec) nils() int {
	n := 0
	for _, e := range r.snapshot() {
		if e.isNil {
			n++
		}
	}

	return n
}

// ---- gathering configurations -------------------------------------------------------------------------------------
//
// The statement quantifies over whatever the gathering produces: several candidates, one, or none at all (then the
// handler stream is just the one nil). c24Gather is a point of the configuration space that decides the yield: transport
// policy (no ICE server is ever configured, so relay / nohost have nothing to gather from), interface filter, IP filter,
// loopback inclusion, network types (TCP with or without a TCP mux), 1:1 NAT mapping as host or srflx candidates.
// The yield is never predicted by the monitor: it is read off the agent's own candidate list at the end.
type c24Gather struct {
	policy string // all | relay | nohost
	iface  string // lo | all | non-lo | none
	ipf    string // off | all | loopback | non-loopback | none
	loop   bool   // SetIncludeLoopbackCandidate
	nets   string // udp4 | udp4+udp6 | udp6 | tcp4 | udp4+tcp4 | all
	nat    string // off | host | srflx
	tcpMux bool
}

func (g c24Gather) String() string {
	return fmt.Sprintf("policy=%s iface=%s ipf=%s loopback=%v nets=%s nat=%s tcpmux=%v", g.policy, g.iface, g.ipf, g.loop, g.nets, g.nat, g.tcpMux)
}

// c24DefaultGather is the configuration all schedules ran with before the configuration class existed.
func c24DefaultGather() c24Gather {
	return c24Gather{policy: "all", iface: "all", ipf: "off", loop: true, nets: "udp4", nat: "off"}
}

// c24GenGather draws a configuration: permissive knobs first, then (half of the time) one or two knobs that shrink the
// yield, often to nothing.
func c24GenGather(r *kit.Rand) c24Gather {
	g := c24Gather{policy: "all", loop: true}
	g.iface = kit.Pick(r, []string{"lo", "all", "all", "non-lo"})
	g.ipf = kit.Pick(r, []string{"off", "off", "all", "loopback", "non-loopback"})
	g.nets = kit.Pick(r, []string{"udp4", "udp4", "udp4+udp6", "udp4+tcp4", "all"})
	g.nat = kit.Pick(r, []string{"off", "off", "off", "host", "srflx"})
	if r.Bool() {
		for k, n := 0, 1+r.Intn(2); k < n; k++ {
			switch r.Intn(7) {
			case 0:
				g.policy = "relay"
			case 1:
				g.policy = "nohost"
			case 2:
				g.iface = "none"
			case 3:
				g.ipf = "none"
			case 4:
				g.loop = false
			case 5:
				g.nets = kit.Pick(r, []string{"tcp4", "udp6"})
			default:
				g.iface, g.ipf = "lo", "non-loopback"
			}
		}
	}
	if strings.Contains(g.nets, "tcp") || g.nets == "all" {
		g.tcpMux = r.Chance(0.6)
	}
	// (a 1:1 NAT mapping for a candidate type that the transport policy excludes is rejected as a configuration error)
	if (g.nat == "host" && g.policy != "all") || (g.nat == "srflx" && g.policy == "relay") {
		g.nat = "off"
	}

	return g
}

// c24InGatherCycle: is the caller running inside the agent's gathering cycle (as opposed to the agent's construction,
// which consults the same filters synchronously inside NewPeerConnection / SetLocalDescription)?
func c24InGatherCycle() bool {
	pcs := make([]uintptr, 48)
	n := runtime.Callers(2, pcs)
	frames := runtime.CallersFrames(pcs[:n])
	for {
		f, more := frames.Next()
		if strings.Contains(f.Function, "(*Agent).gatherCandidates") {
			return true
		}
		if !more {
			return false
		}
	}
}

// c24Gate holds the gathering cycle inside the application's interface filter (a user callback that takes its time)
// until the monitor opens it: this is how SetLocalDescription / the handler registration are placed BEFORE a gathering
// that would otherwise be over within microseconds (nothing to gather). Bounded: an unopened gate gives way after d.
type c24Gate struct {
	ch      chan struct{}
	once    sync.Once
	reached chan struct{}
	rOnce   sync.Once
}

func c24NewGate() *c24Gate { return &c24Gate{ch: make(chan struct{}), reached: make(chan struct{})} }

func (g *c24Gate) open() {
	if g != nil {
		g.once.Do(func() { close(g.ch) })
	}
}

func (g *c24Gate) wait(d time.Duration) {
	g.rOnce.Do(func() { close(g.reached) })
	select {
	case <-g.ch:
	case <-time.After(d):
	}
}

func (g c24Gather) transportPolicy() ICETransportPolicy {
	switch g.policy {
	case "relay":
		return ICETransportPolicyRelay
	case "nohost":
		return ICETransportPolicyNoHost
	default:
		return ICETransportPolicyAll
	}
}

// apply configures the SettingEngine (on top of the rig's: no mDNS, silent logger).
func (g c24Gather) apply(se *SettingEngine, gate *c24Gate, rec *c24Rec) {
	keepIface := func(name string) bool {
		switch g.iface {
		case "lo":
			return name == "lo"
		case "non-lo":
			return name != "lo"
		case "none":
			return false
		default:
			return true
		}
	}
	se.SetInterfaceFilter(func(name string) bool {
		if gate != nil && c24InGatherCycle() {
			gate.wait(10 * time.Second)
		}

		return keepIface(name)
	})
	switch g.ipf {
	case "all":
		se.SetIPFilter(func(net.IP) bool { return true })
	case "none":
		se.SetIPFilter(func(net.IP) bool { return false })
	case "loopback":
		se.SetIPFilter(func(ip net.IP) bool { return ip.IsLoopback() })
	case "non-loopback":
		se.SetIPFilter(func(ip net.IP) bool { return !ip.IsLoopback() })
	default:
	}
	se.SetIncludeLoopbackCandidate(g.loop)
	switch g.nets {
	case "udp4+udp6":
		se.SetNetworkTypes([]NetworkType{NetworkTypeUDP4, NetworkTypeUDP6})
	case "udp6":
		se.SetNetworkTypes([]NetworkType{NetworkTypeUDP6})
	case "tcp4":
		se.SetNetworkTypes([]NetworkType{NetworkTypeTCP4})
	case "udp4+tcp4":
		se.SetNetworkTypes([]NetworkType{NetworkTypeUDP4, NetworkTypeTCP4})
	case "all":
		se.SetNetworkTypes([]NetworkType{NetworkTypeUDP4, NetworkTypeUDP6, NetworkTypeTCP4, NetworkTypeTCP6})
	default:
		se.SetNetworkTypes([]NetworkType{NetworkTypeUDP4})
	}
	switch g.nat {
	case "host":
		se.SetNAT1To1IPs([]string{"198.51.100.7"}, ICECandidateTypeHost)
	case "srflx":
		se.SetNAT1To1IPs([]string{"198.51.100.7"}, ICECandidateTypeSrflx)
	default:
	}
	if g.tcpMux {
		if l, err := net.ListenTCP("tcp4", &net.TCPAddr{IP: net.IPv4(127, 0, 0, 1)}); err == nil {
			mux := NewICETCPMux(rigNullLogger{}, l, 8)
			se.SetICETCPMux(mux)
			rec.cleanup = append(rec.cleanup, func() { _ = mux.Close(); _ = l.Close() })
		}
	}
}

// c24NilDecided (white-box, harness synchronisation only — never an oracle input): has the end-of-gathering callback of
// the current gathering taken its decision (emit the nil itself / leave it to the flush)? The flag is set in the same
// critical section as that decision.
func c24NilDecided(pc *PeerConnection) bool {
	g := pc.iceGatherer
	g.candidatePoolLock.Lock()
	defer g.candidatePoolLock.Unlock()

	return g.gatheringComplete
}

// c24Cfg: what a schedule is run with.
type c24Cfg struct {
	g        c24Gather
	gated    bool          // hold the gathering cycle until the handler is registered (see c24Gate)
	pool     uint8         // pool size, for the schedules that do not fix it
	afterEnd bool          // renegotiation schedule with a pool: first SetLocalDescription after the end of gathering
	delay    time.Duration // seeded-timing schedule: pause before SetLocalDescription
	cls      bool          // case of the configuration class (signatures carry pool and observed yield)
}

func TestVerifC24(t *testing.T) { //nolint:cyclop,gocognit,maintidx
	run := kit.Start(t, "C24", "real PeerConnections, candidate pool size 0 and 1. (a) host candidates on loopback + eth0: scripted schedules park the "+
		"end-of-gathering callback at each of its yield points while SetLocalDescription flushes the pool, park the flush at each of its three yield "+
		"points while gathering completes, and park a candidate callback during the flush; plus perturbed random timing of SetLocalDescription. "+
		"(b) configuration class: the same schedules (plus SetLocalDescription before the gathering cycle starts, and renegotiation with a pool) "+
		"crossed with seeded gathering configurations — transport policy all/relay/nohost without servers, interface filter, IP filter, loopback "+
		"inclusion, network types incl. TCP with/without mux, 1:1 NAT as host/srflx — whose yield (0, 1 or several candidates) is read off the "+
		"agent's own candidate list. Non-trivial = the nil was reported (with zero candidates that is the whole stream) and the run used a pool or "+
		"a scripted point; distinct by schedule + pool + event shape")
	defer run.Finish()
	sched := kit.NewSched(kit.Seed())
	defer sched.Uninstall()
	const wd = 10 * time.Second

	// newPC creates the PeerConnection under test with gathering configuration cfg.g and registers the recording handler.
	// With cfg.gated the gathering cycle is held (inside the interface filter) until the gate is opened: right after the
	// handler registration, or by the schedule itself when holdGate is set.
	newPC := func(pool uint8, rec *c24Rec, cfg c24Cfg, holdGate bool) *PeerConnection {
		rec.pool = pool
		if cfg.gated {
			rec.gate = c24NewGate()
		}
		before := sched.Passes("gather.nil.stateComplete")
		pc, err := rigNewPC(rigOpts{
			Cfg: Configuration{ICECandidatePoolSize: pool, ICETransportPolicy: cfg.g.transportPolicy()},
			SE:  func(se *SettingEngine) { cfg.g.apply(se, rec.gate, rec) },
		})
		if err != nil {
			if !cfg.cls {
				panic(fmt.Sprintf("c24: NewPeerConnection: %v", err))
			}
			rec.newErr = err

			return nil
		}
		pc.OnICECandidate(rec.handler)
		if sched.Passes("gather.nil.stateComplete") != before || pc.iceGatherer.State() == ICEGathererStateComplete {
			// With a candidate pool gathering starts inside NewPeerConnection; here it had already reached its end before
			// the handler could be registered, so the end-of-gathering callback holds the no-op handler it loaded at its
			// start. What the (late) handler sees then says nothing about the property: the case is not judged — unless
			// that callback has already decided (the pool is still active: it left the nil to the flush, which loads the
			// handler afresh).
			decided := c24NilDecided(pc)
			rec.mu.Lock()
			rec.lateHandler = true
			rec.lateDecided = decided
			rec.mu.Unlock()
		}
		if !holdGate {
			rec.gate.open()
		}
		if _, err := pc.CreateDataChannel("c24", nil); err != nil {
			panic(err)
		}

		return pc
	}
	finish := func(pc *PeerConnection, rec *c24Rec) {
		rec.gate.open()
		rigClose(pc)
		for _, f := range rec.cleanup {
			f()
		}
	}
	setLocal := func(pc *PeerConnection, rec *c24Rec) error {
		offer, err := pc.CreateOffer(nil)
		if err != nil {
			return err
		}
		rec.mu.Lock()
		first := !rec.sldSeen
		rec.sldSeen = true
		rec.mu.Unlock()
		if first {
			order := "SLD<nil-decided"
			if c24NilDecided(pc) {
				order = "nil-decided<SLD"
			}
			rec.mu.Lock()
			rec.order = order
			rec.mu.Unlock()
		}

		return pc.SetLocalDescription(offer)
	}
	// awaitNil waits (watchdog) for the nil marker. It gives up early once the stream is quiescent without one: every
	// SetLocalDescription of the case has returned (the flush emits synchronously) and the end-of-gathering callback has
	// decided — after that decision the nil is at most one yield point away — plus a generous settle.
	awaitNil := func(pc *PeerConnection, rec *c24Rec) bool {
		var decidedAt time.Time
		kit.Eventually(wd, func() bool {
			if rec.nils() >= 1 {
				return true
			}
			if decidedAt.IsZero() {
				if c24NilDecided(pc) {
					decidedAt = time.Now()
				}

				return false
			}

			return time.Since(decidedAt) > time.Second
		})

		return rec.nils() >= 1
	}
	// evaluate runs the oracles once gathering is complete and the handler stream has settled.
	evaluate := func(idx int, label string, pc *PeerConnection, rec *c24Rec, scripted bool, cfg c24Cfg) {
		pool := rec.pool
		rec.mu.Lock()
		late := rec.lateHandler && !rec.lateDecided
		order := rec.order
		rec.mu.Unlock()
		if late && label != "flush-after-completion" && label != "renegotiate-after-completion" {
			run.Inconclusive("gathering-ended-before-handler-registered:" + label)

			return
		}
		if !kit.Eventually(wd, func() bool { return pc.ICEGatheringState() == ICEGatheringStateComplete }) {
			run.Inconclusive("gathering-not-complete:" + label)

			return
		}
		gotNil := awaitNil(pc, rec)
		time.Sleep(15 * time.Millisecond) // settle: surplus events can only add to the log
		evs := rec.snapshot()
		// reference: what the pion/ice agent itself gathered (no webrtc-level conversion on this side)
		agent := pc.iceGatherer.getAgent()
		if agent == nil {
			run.Inconclusive("agent-gone:" + label)

			return
		}
		local, err := agent.GetLocalCandidates()
		if err != nil {
			run.Inconclusive("agent.GetLocalCandidates:" + firstN(err.Error(), 40))

			return
		}
		want := map[string]int{}
		for _, c := range local {
			want[c24KeyOfGathered(c)]++
		}
		yield := "ncand"
		switch len(local) {
		case 0:
			yield = "0cand"
		case 1:
			yield = "1cand"
		}
		// signatures: schedule; in the configuration class also pool and observed yield (the schedules of part (a) fix both)
		sfx := label
		if cfg.cls {
			sfx = fmt.Sprintf("%s:pool%d:%s", label, pool, yield)
			run.Count("class_cases", 1)
			run.Seen("class_yield_pool_order", fmt.Sprintf("%s|pool%d|%s", yield, pool, order))
			run.Seen("class_yield_by_schedule", label+"|"+yield)
			run.Seen("class_gather_knobs", "policy="+cfg.g.policy)
			run.Seen("class_gather_knobs", "iface="+cfg.g.iface)
			run.Seen("class_gather_knobs", "ipf="+cfg.g.ipf)
			run.Seen("class_gather_knobs", fmt.Sprintf("loopback=%v", cfg.g.loop))
			run.Seen("class_gather_knobs", "nets="+cfg.g.nets)
			run.Seen("class_gather_knobs", "nat="+cfg.g.nat)
			run.Seen("class_gather_knobs", fmt.Sprintf("tcpmux=%v", cfg.g.tcpMux))
			run.Seen("class_gather_configs", cfg.g.String())
			run.Seen("class_candidate_counts", fmt.Sprintf("%d", len(local)))
		}
		if !gotNil && len(evs) == len(rec.snapshot()) && rec.nils() == 0 {
			run.Violation("no-end-of-gathering:"+sfx, fmt.Sprintf("%s pool=%d: gathering is complete (%d candidate(s) gathered, %s) but the nil marker was never reported (%d candidates reported)",
				label, pool, len(local), order, len(evs)), idx, map[string]any{"schedule": label, "pool": pool, "gather_config": cfg.g.String(), "gated": cfg.gated,
				"order": order, "events": c24Lines(evs), "gatherer_candidates": keysOf(want)})
			run.Case(fmt.Sprintf("%s|pool%d|%s|no-nil", label, pool, yield), true)

			return
		}
		got := map[string]int{}
		nils, afterNil, firstNil := 0, 0, -1
		for i, e := range evs {
			if e.isNil {
				nils++
				if firstNil < 0 {
					firstNil = i
				}

				continue
			}
			got[e.key]++
			if firstNil >= 0 {
				afterNil++
			}
		}
		shape := make([]string, 0, len(evs))
		for _, e := range evs {
			if e.isNil {
				shape = append(shape, "nil")
			} else {
				shape = append(shape, "cand")
			}
		}
		desc := fmt.Sprintf("%s|pool%d|%s", label, pool, strings.Join(shape, " "))
		run.Case(desc, nils >= 1 && (pool > 0 || scripted))
		run.Count("handler_events", len(evs))
		run.Seen("event_shapes", fmt.Sprintf("pool%d:%dcand+%dnil", pool, len(evs)-nils, nils))
		detail := map[string]any{"schedule": label, "pool": pool, "events": c24Lines(evs), "gatherer_candidates": keysOf(want)}
		if cfg.cls {
			detail["gather_config"] = cfg.g.String()
			detail["gated"] = cfg.gated
			detail["order"] = order
		}
		if nils > 1 {
			run.Violation("end-of-gathering-twice:"+sfx, fmt.Sprintf("%s: nil marker reported %d times: %s", desc, nils, strings.Join(shape, " ")), idx, detail)
		}
		if afterNil > 0 {
			run.Violation("candidate-after-end-of-gathering:"+sfx, fmt.Sprintf("%s: %d candidate(s) reported after the nil marker: %s", desc, afterNil, strings.Join(shape, " ")), idx, detail)
		}
		for c, n := range got {
			if n > 1 && n > want[c] { // (two gathered candidates with one identity cannot be told apart: not judged)
				run.Violation("candidate-twice:"+sfx, fmt.Sprintf("%s: candidate %q reported %d times", desc, c, n), idx, detail)

				break
			}
		}
		for c, n := range want {
			if got[c] == 0 || got[c] < n {
				run.Violation("candidate-never-reported:"+sfx, fmt.Sprintf("%s: gathered candidate %q was never reported", desc, c), idx, detail)

				break
			}
		}
		for c := range got {
			if want[c] == 0 {
				run.Count("model_divergence_reported_candidate_not_among_agent_candidates", 1)

				break
			}
		}
		if (!cfg.cls && idx%60 == 0) || (cfg.cls && idx%29 == 0) {
			smp := map[string]any{"schedule": label, "pool": pool, "shape": strings.Join(shape, " ")}
			if cfg.cls {
				smp["gather_config"] = cfg.g.String()
				smp["order"] = order
			}
			run.Sample(smp)
		}
	}

	type script struct {
		name string
		f    func(cfg c24Cfg) (pc *PeerConnection, rec *c24Rec, ok bool)
	}
	parkNil := func(point string) func(c24Cfg) (*PeerConnection, *c24Rec, bool) {
		return func(cfg c24Cfg) (*PeerConnection, *c24Rec, bool) {
			rec := &c24Rec{}
			sched.Block(point, 1)
			pc := newPC(1, rec, cfg, false) // pool: gathering starts now, candidates are pooled
			if pc == nil || !sched.WaitReached(point, wd) {
				return pc, rec, false
			}
			err := setLocal(pc, rec) // flush while the end-of-gathering callback is parked
			sched.Release(point)

			return pc, rec, err == nil
		}
	}
	parkFlush := func(point string) func(c24Cfg) (*PeerConnection, *c24Rec, bool) {
		return func(cfg c24Cfg) (*PeerConnection, *c24Rec, bool) {
			rec := &c24Rec{}
			sched.Block("gather.nil.stateComplete", 1) // hold the end of gathering until the flush is parked
			pc := newPC(1, rec, cfg, false)
			if pc == nil || !sched.WaitReached("gather.nil.stateComplete", wd) {
				return pc, rec, false
			}
			// NOTE: the gatherer state is already "complete" here (the point sits right after setState)
			arrivals := sched.Passes(point)
			sched.Block(point, 1)
			done := make(chan error, 1)
			go func() { done <- setLocal(pc, rec) }()
			var sldErr error
			returned := false
			if !kit.Eventually(wd, func() bool {
				if sched.Passes(point) > arrivals {
					return true
				}
				select {
				case sldErr = <-done:
					returned = true
				default:
				}

				return returned
			}) {
				sched.Release("gather.nil.stateComplete")

				return pc, rec, false
			}
			if returned {
				// SetLocalDescription came back without its flush passing the point: the intended park did not happen, but
				// the history (flush complete while the end-of-gathering callback was parked) is as legitimate as any other
				run.Count("flush_returned_without_passing_the_parking_point", 1)
				sched.Release("gather.nil.stateComplete")

				return pc, rec, sldErr == nil
			}
			before := sched.Passes("gather.nil.beforePoolCheck")
			sched.Release("gather.nil.stateComplete")
			// let the end-of-gathering callback finish its pool check / nil emission
			kit.Eventually(2*time.Second, func() bool { return sched.Passes("gather.nil.beforePoolCheck") > before })
			time.Sleep(5 * time.Millisecond)
			sched.Release(point)
			select {
			case err := <-done:
				return pc, rec, err == nil
			case <-time.After(wd):
				return pc, rec, false
			}
		}
	}
	scripts := []script{
		{"nil-parked@stateComplete|flush", parkNil("gather.nil.stateComplete")},
		{"nil-parked@beforePoolCheck|flush", parkNil("gather.nil.beforePoolCheck")},
		{"renegotiate-after-completion", func(cfg c24Cfg) (*PeerConnection, *c24Rec, bool) {
			// a later SetLocalDescription (no ICE restart) flushes again: the nil marker must not be reported again (and one
			// that is still owed must not get lost)
			rec := &c24Rec{}
			pc := newPC(cfg.pool, rec, cfg, false)
			if pc == nil {
				return pc, rec, false
			}
			if cfg.pool > 0 && cfg.afterEnd {
				kit.Eventually(2*time.Second, func() bool { return c24NilDecided(pc) })
			}
			if setLocal(pc, rec) != nil {
				return pc, rec, false
			}
			if !kit.Eventually(wd, func() bool { return pc.ICEGatheringState() == ICEGatheringStateComplete }) {
				return pc, rec, false
			}
			awaitNil(pc, rec) // (a missing nil is for evaluate to report)
			ans, err := jsepHelperAnswer(*pc.LocalDescription())
			if err != nil || pc.SetRemoteDescription(ans) != nil {
				return pc, rec, false
			}
			if _, err = pc.AddTransceiverFromKind(RTPCodecTypeAudio); err != nil {
				return pc, rec, false
			}

			return pc, rec, setLocal(pc, rec) == nil
		}},
		{"flush-parked@poolTaken|gathering-completes", parkFlush("flush.poolTaken")},
		{"flush-parked@stateRead|gathering-completes", parkFlush("flush.stateRead")},
		{"flush-parked@candidatesEmitted|gathering-completes", parkFlush("flush.candidatesEmitted")},
		{"flush-before-any-candidate", func(cfg c24Cfg) (*PeerConnection, *c24Rec, bool) {
			rec := &c24Rec{}
			sched.Block("gather.cand.beforeEmit", 0)
			pc := newPC(1, rec, cfg, false)
			if pc == nil {
				return pc, rec, false
			}
			err := setLocal(pc, rec) // pool still empty or partially filled; later candidates bypass the pool
			sched.Release("gather.cand.beforeEmit")

			return pc, rec, err == nil
		}},
		{"flush-after-completion", func(cfg c24Cfg) (*PeerConnection, *c24Rec, bool) {
			rec := &c24Rec{}
			pc := newPC(1, rec, cfg, false)
			if pc == nil || !kit.Eventually(wd, func() bool { return pc.iceGatherer.State() == ICEGathererStateComplete }) {
				return pc, rec, false
			}
			kit.Eventually(2*time.Second, func() bool { return c24NilDecided(pc) })
			time.Sleep(5 * time.Millisecond)

			return pc, rec, setLocal(pc, rec) == nil
		}},
		{"no-pool", func(cfg c24Cfg) (*PeerConnection, *c24Rec, bool) {
			rec := &c24Rec{}
			pc := newPC(0, rec, cfg, false)
			if pc == nil {
				return pc, rec, false
			}

			return pc, rec, setLocal(pc, rec) == nil
		}},
	}
	legacy := c24Cfg{g: c24DefaultGather()}
	reps := kit.N(4, 100)
	idx := 0
	for rep := 0; rep < reps; rep++ {
		for _, sc := range scripts {
			if !run.Want(idx) {
				idx++

				continue
			}
			if rep%2 == 1 {
				sched.Perturb(0.3)
			}
			pc, rec, ok := sc.f(legacy)
			sched.Perturb(0)
			sched.ReleaseAll()
			if !ok {
				run.Inconclusive("scripted-point-not-reached:" + sc.name)
			} else {
				evaluate(idx, sc.name, pc, rec, true, legacy)
				run.Seen("schedules", sc.name)
			}
			finish(pc, rec)
			idx++
		}
	}
	nScripted := idx
	// ---- random: SetLocalDescription at a seeded moment relative to gathering, yield points perturbed
	nRand := kit.N(100, 5000)
	sched.Perturb(0.5)
	for i := nScripted; i < nScripted+nRand; i++ {
		if !run.Want(i) {
			continue
		}
		r := run.CaseRand(i)
		rec := &c24Rec{}
		pool := uint8(r.Intn(2))
		pc := newPC(pool, rec, legacy, false)
		time.Sleep(time.Duration(r.Intn(3000)) * time.Microsecond)
		if err := setLocal(pc, rec); err != nil {
			run.Inconclusive("random-setlocal:" + firstN(err.Error(), 40))
			finish(pc, rec)

			continue
		}
		evaluate(i, "random", pc, rec, false, legacy)
		finish(pc, rec)
	}
	sched.Perturb(0)

	// ---- configuration class: every schedule above (and two more) x seeded gathering configuration x pool
	clsScripts := append(append([]script{}, scripts...),
		script{"flush-before-gathering-cycle", func(cfg c24Cfg) (*PeerConnection, *c24Rec, bool) {
			// SetLocalDescription returns before the gathering cycle has looked at a single interface (it is held in the
			// application's interface filter): whatever is gathered, and the end of gathering, come after the flush
			rec := &c24Rec{}
			cfg.gated = true
			pc := newPC(cfg.pool, rec, cfg, true)
			if pc == nil {
				return pc, rec, false
			}
			err := setLocal(pc, rec)
			rec.gate.open()

			return pc, rec, err == nil
		}},
		script{"random", func(cfg c24Cfg) (*PeerConnection, *c24Rec, bool) {
			rec := &c24Rec{}
			pc := newPC(cfg.pool, rec, cfg, false)
			if pc == nil {
				return pc, rec, false
			}
			time.Sleep(cfg.delay)

			return pc, rec, setLocal(pc, rec) == nil
		}},
	)
	nCls := kit.N(260, 8000)
	base := nScripted + nRand
	for i := base; i < base+nCls; i++ {
		if !run.Want(i) {
			continue
		}
		r := run.CaseRand(i)
		cfg := c24Cfg{g: c24GenGather(r), gated: r.Chance(0.7), pool: uint8(r.Intn(2)), afterEnd: r.Bool(), cls: true,
			delay: time.Duration(r.Intn(3000)) * time.Microsecond}
		k := r.Intn(len(clsScripts) + 2)
		if k >= len(clsScripts) {
			k = len(clsScripts) - 1 // three shares of seeded timing
		}
		sc := clsScripts[k]
		sched.Perturb(kit.Pick(r, []float64{0, 0.3, 0.5}))
		pc, rec, ok := sc.f(cfg)
		sched.Perturb(0)
		sched.ReleaseAll()
		switch {
		case rec.newErr != nil:
			run.Inconclusive("class-newpc:" + firstN(rec.newErr.Error(), 40))
		case !ok:
			run.Inconclusive("class-scripted-point-not-reached:" + sc.name)
		default:
			evaluate(i, sc.name, pc, rec, sc.name != "random", cfg)
			run.Seen("class_schedules", sc.name)
		}
		finish(pc, rec)
	}
	run.Set("hook_passes", sched.AllPasses())
}

func keysOf(m map[string]int) []string {
	out := make([]string, 0, len(m))
	for k := range m {
		out = append(out, k)
	}
	sort.Strings(out)

	return out
}
