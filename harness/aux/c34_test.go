package verifaux

import (
	"bytes"
	"errors"
	"fmt"
	"io"
	"strings"
	"testing"

	kit "github.com/pion/webrtc/v4/internal/verifkit"
	"github.com/pion/webrtc/v4/pkg/media/h264reader"
	"github.com/pion/webrtc/v4/pkg/media/h265reader"
)

// C34 — Annex-B readers return exactly the framed NAL units.
//
// Generator: random NAL sequences obeying the statement's preconditions (no 00 00 00 / 00 00 01 inside a unit, last
// byte of a unit non-zero), every unit type incl. SEI at any position (first / middle / LAST / consecutive), lengths
// 1..10 KiB, 3- and 4-byte start codes mixed, delivered through an io.Reader that hands out chunks of 1..4096 bytes.
// Oracle (shares no code with the readers): list returned by NextNAL == generated list (minus the SEI units when SEI
// inclusion is off), header fields == the fields decoded from the header bytes by the layout of H.264 §7.3.1 /
// RFC 7798 §1.1.4, then io.EOF on every further call.

const (
	c34H264 = 0
	c34H265 = 1
)

var c34CodecName = [2]string{"h264", "h265"} //nolint:gochecknoglobals

type c34Unit struct {
	Data []byte
	SC   int // start-code width, 3 or 4
}

// c34Type extracts the unit type from the header by the standard's bit layout.
func c34Type(codec int, b []byte) int {
	if codec == c34H264 {
		return int(b[0] & 0x1f)
	}

	return int(b[0]>>1) & 0x3f
}

// c34IsSEI: H.264 SEI = 6; H.265 prefix SEI = 39, suffix SEI = 40.
func c34IsSEI(codec int, b []byte) bool {
	t := c34Type(codec, b)
	if codec == c34H264 {
		return t == 6
	}

	return t == 39 || t == 40
}

// c34Sanitize enforces the statement's preconditions on one unit without touching its first hdr bytes:
// no 00 00 00 / 00 00 01 anywhere inside, last byte non-zero. Returns false when only the header could be changed.
func c34Sanitize(r *kit.Rand, b []byte, hdr int) bool {
	for i := 2; i < len(b); i++ {
		if b[i-2] == 0 && b[i-1] == 0 && b[i] <= 1 {
			if i < hdr {
				return false
			}
			b[i] = byte(2 + r.Intn(254))
		}
	}
	if b[len(b)-1] == 0 {
		if len(b)-1 < hdr {
			return false
		}
		b[len(b)-1] = byte(2 + r.Intn(254)) // >= 2, so it cannot complete a 00 00 01
	}

	return true
}

// c34PreconditionOK is the independent statement of the precondition (used as a generator self-check).
func c34PreconditionOK(b []byte) bool {
	if len(b) == 0 || b[len(b)-1] == 0 {
		return false
	}
	for i := 2; i < len(b); i++ {
		if b[i-2] == 0 && b[i-1] == 0 && b[i] <= 1 {
			return false
		}
	}

	return true
}

// c34Fill fills b[from:] with bytes biased towards the values that matter to a start-code scanner.
func c34Fill(r *kit.Rand, b []byte, from int, style int) {
	for i := from; i < len(b); i++ {
		switch style {
		case 0: // plain random
			b[i] = byte(r.Intn(256))
		case 1: // zero-heavy
			switch x := r.Intn(100); {
			case x < 40:
				b[i] = 0
			case x < 55:
				b[i] = 1
			case x < 65:
				b[i] = byte(2 + r.Intn(2))
			default:
				b[i] = byte(r.Intn(256))
			}
		default: // near-start-code motifs: 00 00 02 / 00 00 03 / 00 01 / 01 00 00 ..
			switch x := r.Intn(100); {
			case x < 30:
				b[i] = 0
			case x < 40:
				b[i] = 1
			case x < 50:
				b[i] = 3
			default:
				b[i] = byte(r.Intn(256))
			}
		}
	}
}

func c34Len(r *kit.Rand) int {
	switch x := r.Intn(100); {
	case x < 22:
		return r.Range(1, 4)
	case x < 50:
		return r.Range(5, 64)
	case x < 75:
		return r.Range(65, 1500)
	case x < 92:
		return r.Range(1501, 10240)
	default:
		return kit.Pick(r, []int{1, 2, 3, 4095, 4096, 4097, 8191, 8192, 8193, 10239, 10240})
	}
}

func c34Header(r *kit.Rand, codec int, sei bool) []byte {
	if codec == c34H264 {
		t := 6
		if !sei {
			for {
				if r.Chance(0.7) {
					t = kit.Pick(r, []int{1, 5, 7, 8, 9, 12, 2, 3, 4, 10, 11, 14, 15, 19, 20})
				} else {
					t = r.Intn(32)
				}
				if t != 6 {
					break
				}
			}
		}
		h := byte(t) | byte(r.Intn(4))<<5
		if r.Chance(0.08) {
			h |= 0x80 // forbidden bit set: still must be reported faithfully
		}

		return []byte{h}
	}
	t := 39 + r.Intn(2)
	if !sei {
		for {
			if r.Chance(0.7) {
				t = kit.Pick(r, []int{0, 1, 19, 20, 21, 32, 33, 34, 35, 38, 16, 8, 9})
			} else {
				t = r.Intn(64)
			}
			if t != 39 && t != 40 {
				break
			}
		}
	}
	layer := 0
	if r.Chance(0.3) {
		layer = r.Intn(64)
	}
	tid := r.Intn(8)
	if r.Chance(0.6) {
		tid = 1
	}
	h0 := byte(t)<<1 | byte(layer>>5)
	if r.Chance(0.08) {
		h0 |= 0x80
	}

	return []byte{h0, byte(layer&0x1f)<<3 | byte(tid)}
}

func c34GenUnit(r *kit.Rand, codec int, sei bool, style int) c34Unit {
	n := c34Len(r)
	for {
		hdr := c34Header(r, codec, sei)
		b := make([]byte, n)
		h := copy(b, hdr)
		c34Fill(r, b, h, style)
		if c34Sanitize(r, b, h) {
			sc := 3
			if r.Bool() {
				sc = 4
			}

			return c34Unit{Data: b, SC: sc}
		}
		// the header alone violated the precondition (e.g. 1-byte unit 0x00): draw another header
	}
}

type c34Case struct {
	Codec   int
	Units   []c34Unit
	Pattern string
}

func c34Gen(r *kit.Rand, codec int) c34Case {
	c := c34Case{Codec: codec}
	n := 0
	switch x := r.Intn(100); {
	case x < 2:
		n = 0
	case x < 12:
		n = 1
	case x < 30:
		n = 2
	default:
		n = r.Range(3, 14)
	}
	pSEI := kit.Pick(r, []float64{0, 0.15, 0.3, 0.3, 0.5, 0.8})
	pat := kit.Pick(r, []string{"free", "free", "free", "sei-last", "sei-last", "sei-first", "sei-run-last", "all-sei", "sei-run-mid", "no-sei"})
	style := r.Intn(3)
	c.Pattern = pat
	for i := 0; i < n; i++ {
		sei := r.Chance(pSEI)
		switch pat {
		case "sei-last":
			if i == n-1 {
				sei = true
			}
		case "sei-first":
			if i == 0 {
				sei = true
			}
		case "sei-run-last":
			if i >= n-3 {
				sei = true
			}
		case "sei-run-mid":
			if n >= 4 && (i == n/2 || i == n/2-1) {
				sei = true
			}
			if i == n-1 {
				sei = false
			}
		case "all-sei":
			sei = true
		case "no-sei":
			sei = false
		}
		c.Units = append(c.Units, c34GenUnit(r, codec, sei, style))
	}
	// start-code width policy
	switch r.Intn(4) {
	case 0:
		for i := range c.Units {
			c.Units[i].SC = 3
		}
	case 1:
		for i := range c.Units {
			c.Units[i].SC = 4
		}
	}

	return c
}

func (c *c34Case) stream() []byte {
	var b []byte
	for _, u := range c.Units {
		if u.SC == 4 {
			b = append(b, 0)
		}
		b = append(b, 0, 0, 1)
		b = append(b, u.Data...)
	}

	return b
}

func (c *c34Case) desc() string {
	var sb strings.Builder
	fmt.Fprintf(&sb, "%s:", c34CodecName[c.Codec])
	for _, u := range c.Units {
		fmt.Fprintf(&sb, " %d/t%d/%d", u.SC, c34Type(c.Codec, u.Data), len(u.Data))
	}

	return sb.String()
}

// c34ChunkReader delivers data in chunks of random size (1..4096), never more than asked for.
type c34ChunkReader struct {
	data        []byte
	pos         int
	r           *kit.Rand
	mode        int
	eofWithData bool // final chunk returned together with io.EOF (allowed by io.Reader, outside "chunk sizes")
	chunks      int
	eofCalls    int
}

func (c *c34ChunkReader) Read(p []byte) (int, error) {
	if c.pos >= len(c.data) {
		c.eofCalls++

		return 0, io.EOF
	}
	n := 1
	switch c.mode {
	case 0:
		n = c.r.Range(1, 4096)
	case 1:
		n = c.r.Range(1, 3)
	case 2:
		n = 1
	case 3:
		n = 4096
	case 4:
		if c.r.Chance(0.7) {
			n = c.r.Range(1, 8)
		} else {
			n = c.r.Range(9, 4096)
		}
	default:
		n = c.r.Range(1, 64)
	}
	if n > len(p) {
		n = len(p)
	}
	if n > len(c.data)-c.pos {
		n = len(c.data) - c.pos
	}
	copy(p, c.data[c.pos:c.pos+n])
	c.pos += n
	c.chunks++
	if c.eofWithData && c.pos >= len(c.data) {
		return n, io.EOF
	}

	return n, nil
}

type c34Got struct {
	Data []byte // as returned (retained, not copied)
	Copy []byte // copied immediately
	// parsed header fields as reported by the reader
	F          bool
	Type       int
	RefIdc     int // H.264
	Layer, TID int // H.265
}

// c34Read drains a reader; returns the units, the terminating error, errors seen on the extra calls after EOF.
func c34Read(codec int, src io.Reader, mode int, limit int) (got []c34Got, endErr error, after []string, panicked any) {
	defer func() {
		if p := recover(); p != nil {
			panicked = p
		}
	}()
	var next func() (*c34Got, error)
	if codec == c34H264 {
		var rd *h264reader.H264Reader
		var err error
		switch mode {
		case 0:
			rd, err = h264reader.NewReader(src) // documented default: SEI skipped
		case 1:
			rd, err = h264reader.NewReaderWithOptions(src, h264reader.WithIncludeSEI(false))
		default:
			rd, err = h264reader.NewReaderWithOptions(src, h264reader.WithIncludeSEI(true))
		}
		if err != nil {
			return nil, err, nil, nil
		}
		next = func() (*c34Got, error) {
			n, e := rd.NextNAL()
			if n == nil {
				return nil, e
			}

			return &c34Got{
				Data: n.Data, Copy: append([]byte(nil), n.Data...), F: n.ForbiddenZeroBit,
				Type: int(n.UnitType), RefIdc: int(n.RefIdc),
			}, e
		}
	} else {
		var rd *h265reader.H265Reader
		var err error
		switch mode {
		case 0:
			rd, err = h265reader.NewReader(src)
		case 1:
			rd, err = h265reader.NewReaderWithOptions(src, h265reader.WithIncludeSEI(false))
		default:
			rd, err = h265reader.NewReaderWithOptions(src, h265reader.WithIncludeSEI(true))
		}
		if err != nil {
			return nil, err, nil, nil
		}
		next = func() (*c34Got, error) {
			n, e := rd.NextNAL()
			if n == nil {
				return nil, e
			}

			return &c34Got{
				Data: n.Data, Copy: append([]byte(nil), n.Data...), F: n.ForbiddenZeroBit,
				Type: int(n.NalUnitType), Layer: int(n.LayerID), TID: int(n.TemporalIDPlus1),
			}, e
		}
	}
	for len(got) < limit {
		g, e := next()
		if e != nil {
			endErr = e

			break
		}
		if g == nil {
			endErr = errors.New("nil NAL with nil error")

			break
		}
		got = append(got, *g)
	}
	if endErr != nil && errors.Is(endErr, io.EOF) {
		for k := 0; k < 3; k++ {
			g, e := next()
			switch {
			case g != nil:
				after = append(after, fmt.Sprintf("call %d after EOF returned a NAL of %d bytes", k+1, len(g.Data)))
			case !errors.Is(e, io.EOF):
				after = append(after, fmt.Sprintf("call %d after EOF returned err=%v", k+1, e))
			}
		}
	}

	return got, endErr, after, nil
}

// c34Classify names the cause of a list mismatch.
func c34Classify(c *c34Case, exp [][]byte, got []c34Got, seiOff bool) (sig, what string) {
	codec := c34CodecName[c.Codec]
	k := 0
	for k < len(exp) && k < len(got) && bytes.Equal(exp[k], got[k].Copy) {
		k++
	}
	short := func(b []byte) string {
		if len(b) > 24 {
			return fmt.Sprintf("%x…(%d bytes)", b[:24], len(b))
		}

		return fmt.Sprintf("%x", b)
	}
	switch {
	case k == len(exp) && k < len(got):
		last := c.Units[len(c.Units)-1].Data
		if seiOff && len(got) == len(exp)+1 && bytes.Equal(got[k].Copy, last) && c34IsSEI(c.Codec, last) {
			return "trailing-sei-returned:" + codec, fmt.Sprintf(
				"SEI inclusion off, stream of %d units ends with a SEI unit (type %d, %d bytes): NextNAL returned it as unit #%d instead of skipping it",
				len(c.Units), c34Type(c.Codec, last), len(last), k)
		}
		if seiOff && c34IsSEI(c.Codec, got[k].Copy) {
			return "sei-not-skipped:" + codec, fmt.Sprintf("SEI inclusion off, unit #%d returned is a SEI %s", k, short(got[k].Copy))
		}

		return "extra-nal:" + codec, fmt.Sprintf("%d units expected, %d returned; first extra %s", len(exp), len(got), short(got[k].Copy))
	case k == len(got) && k < len(exp):
		return "nal-missing:" + codec, fmt.Sprintf("%d units expected, only %d returned; first missing #%d %s", len(exp), len(got), k, short(exp[k]))
	default:
		g, e := got[k].Copy, exp[k]
		switch {
		case seiOff && c34IsSEI(c.Codec, g):
			return "sei-not-skipped:" + codec, fmt.Sprintf("SEI inclusion off, unit #%d returned is a SEI %s (expected %s)", k, short(g), short(e))
		case len(g) < len(e) && bytes.HasPrefix(e, g):
			return "nal-truncated:" + codec, fmt.Sprintf("unit #%d returned with %d of its %d bytes", k, len(g), len(e))
		case len(g) > len(e) && bytes.HasPrefix(g, e):
			return "nal-overlong:" + codec, fmt.Sprintf("unit #%d returned with %d bytes, it has %d (extra tail %s)", k, len(g), len(e), short(g[len(e):]))
		case len(g) > 0 && bytes.HasSuffix(e, g):
			return "nal-head-lost:" + codec, fmt.Sprintf("unit #%d returned without its first %d bytes", k, len(e)-len(g))
		default:
			return "nal-content-mismatch:" + codec, fmt.Sprintf("unit #%d: expected %s got %s", k, short(e), short(g))
		}
	}
}

func TestVerifC34(t *testing.T) {
	run := kit.Start(t, "C34", "per case index: one random NAL sequence for H.264 (even index) or H.265 (odd index) — 0..14 units, lengths 1..10240 "+
		"(boundary lengths 4095..4097, 8191..8193 included), unit types drawn from the whole type space with SEI forced first / last / in runs / everywhere by pattern, "+
		"bodies biased to 00/01/03 bytes then repaired to contain no 00 00 00 / 00 00 01 and to end non-zero, start codes 3/4 bytes mixed; "+
		"each sequence is read twice (SEI inclusion off, on) through a reader delivering chunks of 1..4096 bytes (uniform / 1..3 / 1 / 4096 / mixed). "+
		"An evaluation is non-trivial when the stream has >= 2 units and arrives in >= 2 chunks; distinct by codec + (start-code width, type, length) list + SEI flag")
	defer run.Finish()
	run.Assume("SEI unit = H.264 nal_unit_type 6; H.265 nal_unit_type 39 (prefix) or 40 (suffix), decided on the header bits of the unit alone")
	run.Assume("header oracle: H.264 byte0 = F(1) ref_idc(2) type(5); H.265 bytes0-1 = F(1) type(6) layer_id(6) tid+1(3), compared only for H.265 units of >= 2 bytes")
	run.Assume("the stream's Read returns (n>0, nil) until the data is exhausted, then (0, io.EOF); the (n>0, io.EOF) convention is exercised separately and only counted")

	n := kit.N(8000, 200000)
	run.Parallel(n, 16, func(i int) {
		r := run.CaseRand(i)
		codec := i % 2
		c := c34Gen(r, codec)
		for ui, u := range c.Units {
			if !c34PreconditionOK(u.Data) {
				t.Errorf("harness bug: generated unit %d violates the precondition: %x", ui, u.Data)

				return
			}
		}
		stream := c.stream()
		cname := c34CodecName[codec]
		nSEI := 0
		for _, u := range c.Units {
			if c34IsSEI(codec, u.Data) {
				nSEI++
			}
		}
		lastSEI := len(c.Units) > 0 && c34IsSEI(codec, c.Units[len(c.Units)-1].Data)
		eofWithData := r.Chance(0.04)
		// per-pass choices are drawn up front so that the case content does not depend on how often the reader calls Read
		ctorMode := r.Intn(2) // NewReader default / explicit WithIncludeSEI(false)
		chunkMode := [2]int{r.Intn(6), r.Intn(6)}
		chunkSeed := [2]uint64{r.Uint64(), r.Uint64()}

		for pass := 0; pass < 2; pass++ {
			seiOff := pass == 0
			mode := 2
			if seiOff {
				mode = ctorMode
			}
			var exp [][]byte
			for _, u := range c.Units {
				if seiOff && c34IsSEI(codec, u.Data) {
					continue
				}
				exp = append(exp, u.Data)
			}
			src := &c34ChunkReader{data: stream, r: kit.NewRand(chunkSeed[pass], uint64(pass)), mode: chunkMode[pass], eofWithData: eofWithData}
			got, endErr, after, pan := c34Read(codec, src, mode, len(c.Units)+8)

			desc := fmt.Sprintf("%s sei_off=%v", c.desc(), seiOff)
			run.Case(desc, len(c.Units) >= 2 && src.chunks >= 2)
			run.Count("units_expected", len(exp))
			run.Count("bytes_streamed", len(stream))
			run.Count("chunks_delivered", src.chunks)
			run.Seen("chunk_mode", fmt.Sprintf("mode%d", src.mode))
			run.Seen("pattern", c.Pattern)
			if seiOff {
				run.Count("sei_units_to_skip", nSEI)
				if lastSEI {
					run.Count("streams_ending_in_sei_with_sei_off:"+cname, 1)
				}
				if nSEI == len(c.Units) && nSEI > 0 {
					run.Count("all_sei_streams_with_sei_off", 1)
				}
			}
			for _, u := range c.Units {
				run.Seen("unit_type:"+cname, fmt.Sprintf("%02d", c34Type(codec, u.Data)))
			}
			if i < 6 && pass == 0 {
				run.Sample(map[string]any{"case": i, "units(sc/type/len)": c.desc(), "pattern": c.Pattern, "stream_bytes": len(stream), "chunks": src.chunks, "returned_with_sei_off": len(got)})
			}

			detail := func() map[string]any {
				units := make([]map[string]any, 0, len(c.Units))
				for _, u := range c.Units {
					h := kit.Hex(u.Data)
					if len(u.Data) > 64 {
						h = kit.Hex(u.Data[:32]) + "…" + kit.Hex(u.Data[len(u.Data)-8:])
					}
					units = append(units, map[string]any{"sc": u.SC, "type": c34Type(codec, u.Data), "len": len(u.Data), "data": h})
				}
				gl := make([]string, 0, len(got))
				for _, g := range got {
					gl = append(gl, fmt.Sprintf("t%d/%d", c34Type(codec, g.Copy), len(g.Copy)))
				}
				d := map[string]any{"codec": cname, "sei_off": seiOff, "ctor_mode": mode, "chunk_mode": src.mode, "units": units, "returned(type/len)": gl, "end_err": fmt.Sprint(endErr)}
				if len(stream) <= 4096 {
					d["stream_hex"] = kit.Hex(stream)
				}

				return d
			}

			if eofWithData {
				// outside the statement ("chunk sizes"): record, never a violation
				ok := pan == nil && len(got) == len(exp)
				for k := 0; ok && k < len(exp); k++ {
					ok = bytes.Equal(exp[k], got[k].Copy)
				}
				if !ok {
					run.Count("model_divergence", 1)
					run.Seen("divergence", "final-chunk-with-io.EOF-loses-data:"+cname)
				}
				run.Count("eof_with_data_evaluations", 1)

				continue
			}

			if pan != nil {
				run.Violation("panic:NextNAL:"+cname, fmt.Sprintf("NextNAL panicked: %v on %s", pan, desc), i, detail())

				continue
			}
			if endErr == nil {
				run.Violation("no-eof:"+cname, fmt.Sprintf("reader kept returning units: %d returned for %d framed (%s)", len(got), len(c.Units), desc), i, detail())

				continue
			}
			mismatch := len(got) != len(exp)
			for k := 0; !mismatch && k < len(exp); k++ {
				mismatch = !bytes.Equal(exp[k], got[k].Copy)
			}
			if mismatch {
				sig, what := c34Classify(&c, exp, got, seiOff)
				run.Violation(sig, what+" ["+desc+"]", i, detail())
			} else {
				// retained slices must still hold the unit (not a statement clause: only counted)
				for k := range got {
					if !bytes.Equal(got[k].Data, got[k].Copy) {
						run.Count("model_divergence", 1)
						run.Seen("divergence", "returned-Data-overwritten-by-later-calls:"+cname)

						break
					}
				}
			}
			if !errors.Is(endErr, io.EOF) {
				run.Violation("unexpected-error:"+cname, fmt.Sprintf("after %d units NextNAL returned %v instead of io.EOF (%s)", len(got), endErr, desc), i, detail())
			}
			for _, a := range after {
				run.Violation("eof-not-sticky:"+cname, a+" ("+desc+")", i, detail())

				break
			}
			// header fields of every returned unit against its own header bytes
			for k, g := range got {
				b := g.Copy
				if len(b) == 0 {
					continue
				}
				var bad []string
				if codec == c34H264 {
					if g.F != (b[0]>>7 == 1) {
						bad = append(bad, "forbidden_zero_bit")
					}
					if g.RefIdc != int(b[0]>>5)&3 {
						bad = append(bad, "ref_idc")
					}
					if g.Type != int(b[0])&0x1f {
						bad = append(bad, "unit_type")
					}
				} else if len(b) >= 2 {
					if g.F != (b[0]>>7 == 1) {
						bad = append(bad, "forbidden_zero_bit")
					}
					if g.Type != int(b[0]>>1)&0x3f {
						bad = append(bad, "unit_type")
					}
					if g.Layer != int(b[0]&1)<<5|int(b[1]>>3) {
						bad = append(bad, "layer_id")
					}
					if g.TID != int(b[1]&7) {
						bad = append(bad, "temporal_id_plus1")
					}
				} else {
					run.Count("h265_one_byte_units_header_not_compared", 1)
				}
				run.Count("headers_compared", 1)
				for _, f := range bad {
					d := detail()
					d["unit_index"] = k
					d["reported"] = map[string]any{"F": g.F, "type": g.Type, "ref_idc": g.RefIdc, "layer": g.Layer, "tid": g.TID}
					run.Violation("header-field-mismatch:"+cname+":"+f, fmt.Sprintf("unit #%d header %x: reported %s does not match the header bytes (%s)", k, b[:min(2, len(b))], f, desc), i, d)
				}
			}
		}
	})
}
