package webrtc

// C12 — a successful offer describes exactly the local transceivers and data channels.
//
// Oracle, evaluated after every successful CreateOffer (Unified Plan) against the API-visible state read right after the call:
//   * every transceiver of GetTransceivers() has a mid and exactly one non-application m-section carries that mid; no other
//     non-application section exists; the section's media kind and its single direction attribute equal Kind() / Direction();
//   * a sending track (Sender().Track() != nil and direction sendrecv/sendonly) is announced with `a=msid:<streamID> <trackID>`;
//     the set of a=ssrc ids, the a=ssrc-group:FID pairs and the a=ssrc-group:FEC-FR pairs equal what
//     Sender().GetParameters().Encodings holds (SSRC, RTX.SSRC, FEC.SSRC); before any remote description was applied, a video
//     sender of an engine with an attached rtx / a flexfec codec must carry an RTX / FEC ssrc (that is "when those are enabled");
//     with more than one encoding every RID has an `a=rid:<rid> send` line;
//   * an application section is present exactly when this side created a data channel or AlwaysNegotiateDataChannels is set.
// The SDP side is read with kit.ParseSDP only.

import (
	"fmt"
	"sort"
	"strconv"
	"strings"
	"testing"
	"time"

	kit "github.com/pion/webrtc/v4/internal/verifkit"
)

// ------------------------------------------------------------------ engines

type c12EngineSpec struct {
	Name string
	RTX  bool
	FEC  bool
}

var c12Engines = []c12EngineSpec{ //nolint:gochecknoglobals
	{"default", true, false}, // RegisterDefaultCodecs: rtx, no flexfec
	{"plain", false, false},
	{"rtx", true, false},
	{"rtx+fec", true, true},
	{"fec", false, true},
}

func c12BuildEngine(s c12EngineSpec) *MediaEngine {
	me := &MediaEngine{}
	if s.Name == "default" {
		if err := me.RegisterDefaultCodecs(); err != nil {
			panic(err)
		}
	} else {
		fb := []RTCPFeedback{{Type: "nack"}, {Type: "nack", Parameter: "pli"}, {Type: "goog-remb"}}
		reg := func(c RTPCodecParameters, typ RTPCodecType) {
			if err := me.RegisterCodec(c, typ); err != nil {
				panic(err)
			}
		}
		reg(RTPCodecParameters{RTPCodecCapability: RTPCodecCapability{MimeType: MimeTypeOpus, ClockRate: 48000, Channels: 2, SDPFmtpLine: "minptime=10;useinbandfec=1"}, PayloadType: 111}, RTPCodecTypeAudio)
		reg(RTPCodecParameters{RTPCodecCapability: RTPCodecCapability{MimeType: MimeTypePCMU, ClockRate: 8000}, PayloadType: 0}, RTPCodecTypeAudio)
		reg(RTPCodecParameters{RTPCodecCapability: RTPCodecCapability{MimeType: MimeTypeVP8, ClockRate: 90000, RTCPFeedback: fb}, PayloadType: 96}, RTPCodecTypeVideo)
		reg(RTPCodecParameters{RTPCodecCapability: RTPCodecCapability{
			MimeType: MimeTypeH264, ClockRate: 90000, SDPFmtpLine: "level-asymmetry-allowed=1;packetization-mode=1;profile-level-id=42001f", RTCPFeedback: fb,
		}, PayloadType: 102}, RTPCodecTypeVideo)
		if s.RTX {
			reg(RTPCodecParameters{RTPCodecCapability: RTPCodecCapability{MimeType: MimeTypeRTX, ClockRate: 90000, SDPFmtpLine: "apt=96"}, PayloadType: 97}, RTPCodecTypeVideo)
			reg(RTPCodecParameters{RTPCodecCapability: RTPCodecCapability{MimeType: MimeTypeRTX, ClockRate: 90000, SDPFmtpLine: "apt=102"}, PayloadType: 103}, RTPCodecTypeVideo)
		}
		if s.FEC {
			reg(RTPCodecParameters{RTPCodecCapability: RTPCodecCapability{MimeType: MimeTypeFlexFEC03, ClockRate: 90000, SDPFmtpLine: "repair-window=10000000"}, PayloadType: 118}, RTPCodecTypeVideo)
		}
	}
	for _, uri := range []string{"urn:ietf:params:rtp-hdrext:sdes:mid", "urn:ietf:params:rtp-hdrext:sdes:rtp-stream-id", "urn:ietf:params:rtp-hdrext:sdes:repaired-rtp-stream-id"} {
		for _, typ := range []RTPCodecType{RTPCodecTypeAudio, RTPCodecTypeVideo} {
			if err := me.RegisterHeaderExtension(RTPHeaderExtensionCapability{URI: uri}, typ); err != nil {
				panic(err)
			}
		}
	}

	return me
}

// ------------------------------------------------------------------ case

type c12Step struct {
	Op     string `json:"op"`
	Detail string `json:"detail,omitempty"`
	Err    string `json:"err,omitempty"`
}

type c12Case struct {
	run  *kit.Run
	idx  int
	r    *kit.Rand
	eng  c12EngineSpec
	pc   *PeerConnection
	peer *PeerConnection

	always    bool // Configuration.AlwaysNegotiateDataChannels
	dcCreated bool // this side created a data channel
	remoteSet int  // number of remote descriptions applied on pc
	nTrack    int
	steps     []c12Step
	nontriv   bool
	offers    int
	dead      bool // an exchange failed: the signaling state is not reliable any more
}

func (c *c12Case) step(op, detail string, err error) {
	s := c12Step{Op: op, Detail: detail}
	if err != nil {
		s.Err = err.Error()
	}
	c.steps = append(c.steps, s)
}

func (c *c12Case) violation(sig, what, sdp string) {
	c.run.Violation(sig, what, c.idx, map[string]any{
		"engine": c.eng.Name, "always_negotiate_datachannels": c.always, "steps": c.steps, "offer": sdp, "state": c.stateDump(),
	})
}

func (c *c12Case) stateDump() []string {
	var out []string
	for i, t := range c.pc.GetTransceivers() {
		s := fmt.Sprintf("#%d mid=%q kind=%s dir=%s", i, t.Mid(), t.Kind(), t.Direction())
		if snd := t.Sender(); snd != nil {
			if tr := snd.Track(); tr != nil {
				s += fmt.Sprintf(" track=%s/%s", tr.StreamID(), tr.ID())
			} else {
				s += " track=nil"
			}
			for _, e := range snd.GetParameters().Encodings {
				s += fmt.Sprintf(" enc{rid=%q ssrc=%d rtx=%d fec=%d}", e.RID, e.SSRC, e.RTX.SSRC, e.FEC.SSRC)
			}
		} else {
			s += " sender=nil"
		}
		out = append(out, s)
	}

	return out
}

func (c *c12Case) newTrack(kind RTPCodecType, rid string) *TrackLocalStaticSample {
	c.nTrack++
	capab := RTPCodecCapability{MimeType: MimeTypeVP8, ClockRate: 90000}
	if kind == RTPCodecTypeAudio {
		capab = RTPCodecCapability{MimeType: MimeTypeOpus, ClockRate: 48000, Channels: 2}
	} else if c.r.Chance(0.3) {
		capab = RTPCodecCapability{MimeType: MimeTypeH264, ClockRate: 90000, SDPFmtpLine: "level-asymmetry-allowed=1;packetization-mode=1;profile-level-id=42001f"}
	}
	var opts []func(*TrackLocalStaticRTP)
	if rid != "" {
		opts = append(opts, WithRTPStreamID(rid))
	}
	tr, err := NewTrackLocalStaticSample(capab, fmt.Sprintf("track%d", c.nTrack), fmt.Sprintf("stream%d", c.r.Intn(3)), opts...)
	if err != nil {
		panic(err)
	}

	return tr
}

func (c *c12Case) kind() RTPCodecType {
	if c.r.Chance(0.4) {
		return RTPCodecTypeAudio
	}

	return RTPCodecTypeVideo
}

// ------------------------------------------------------------------ oracle

func c12SSRCGroups(m *kit.SDPMedia, semantic string) []string {
	var out []string
	for _, v := range m.AttrAll("ssrc-group") {
		f := strings.Fields(v)
		if len(f) >= 1 && f[0] == semantic {
			out = append(out, strings.Join(f[1:], " "))
		}
	}
	sort.Strings(out)

	return out
}

func c12Uniq(xs []string) []string {
	sort.Strings(xs)
	var out []string
	for i, x := range xs {
		if i == 0 || xs[i-1] != x {
			out = append(out, x)
		}
	}

	return out
}

func (c *c12Case) checkOffer(offer SessionDescription) { //nolint:cyclop,gocognit
	d, err := kit.ParseSDP(offer.SDP)
	if err != nil {
		c.violation("offer-unparsable", err.Error(), offer.SDP)

		return
	}
	c.offers++
	c.run.Count("offers_checked", 1)
	trs := append([]*RTPTransceiver{}, c.pc.GetTransceivers()...)
	var media, apps []*kit.SDPMedia
	for _, m := range d.Media {
		if m.Kind == "application" {
			apps = append(apps, m)
		} else {
			media = append(media, m)
		}
	}
	byMid := map[string][]*kit.SDPMedia{}
	for _, m := range media {
		mid, ok := m.Mid()
		if !ok {
			c.violation("section-without-mid", "media section without a=mid: "+m.Lines[0], offer.SDP)

			continue
		}
		byMid[mid] = append(byMid[mid], m)
	}
	owned := map[*kit.SDPMedia]bool{}
	sending := 0
	for i, t := range trs {
		c.run.Count("transceivers_checked", 1)
		mid := t.Mid()
		if mid == "" {
			c.violation("transceiver-without-mid", fmt.Sprintf("transceiver #%d (%s %s) has no mid after a successful CreateOffer", i, t.Kind(), t.Direction()), offer.SDP)

			continue
		}
		secs := byMid[mid]
		switch {
		case len(secs) == 0:
			c.violation("transceiver-missing-section", fmt.Sprintf("transceiver #%d mid=%q (%s %s) has no m-section in the offer", i, mid, t.Kind(), t.Direction()), offer.SDP)

			continue
		case len(secs) > 1:
			c.violation("transceiver-multiple-sections", fmt.Sprintf("mid %q of transceiver #%d appears in %d media sections", mid, i, len(secs)), offer.SDP)

			continue
		}
		m := secs[0]
		if owned[m] {
			c.violation("two-transceivers-one-section", fmt.Sprintf("mid %q is shared by two transceivers", mid), offer.SDP)

			continue
		}
		owned[m] = true
		if m.Kind != t.Kind().String() {
			c.violation("kind-mismatch", fmt.Sprintf("mid %q: section is m=%s, transceiver kind is %s", mid, m.Kind, t.Kind()), offer.SDP)
		}
		dirs := m.Directions()
		dir := t.Direction()
		c.run.Seen("directions_checked", dir.String())
		if len(dirs) != 1 || dirs[0] != dir.String() {
			c.violation("direction-mismatch:"+dir.String(), fmt.Sprintf("mid %q: section direction attributes %v, transceiver Direction() is %s", mid, dirs, dir), offer.SDP)
		}
		snd := t.Sender()
		if snd == nil || (dir != RTPTransceiverDirectionSendrecv && dir != RTPTransceiverDirectionSendonly) {
			continue
		}
		track := snd.Track()
		if track == nil {
			c.run.Count("senders_without_track", 1)

			continue
		}
		sending++
		c.run.Count("sending_tracks_checked", 1)
		wantMsid := track.StreamID() + " " + track.ID()
		found := false
		for _, v := range m.AttrAll("msid") {
			if v == wantMsid {
				found = true
			}
		}
		if !found {
			c.violation("msid-missing", fmt.Sprintf("mid %q: sending track not announced: want a=msid:%s, section has %v", mid, wantMsid, m.AttrAll("msid")), offer.SDP)
		}
		encs := snd.GetParameters().Encodings
		var wantSSRC, wantFID, wantFEC []string
		for _, e := range encs {
			wantSSRC = append(wantSSRC, strconv.FormatUint(uint64(e.SSRC), 10))
			if e.RTX.SSRC != 0 {
				wantSSRC = append(wantSSRC, strconv.FormatUint(uint64(e.RTX.SSRC), 10))
				wantFID = append(wantFID, fmt.Sprintf("%d %d", e.SSRC, e.RTX.SSRC))
			}
			if e.FEC.SSRC != 0 {
				wantSSRC = append(wantSSRC, strconv.FormatUint(uint64(e.FEC.SSRC), 10))
				wantFEC = append(wantFEC, fmt.Sprintf("%d %d", e.SSRC, e.FEC.SSRC))
			}
		}
		var gotSSRC []string
		for _, v := range m.AttrAll("ssrc") {
			id, _, _ := strings.Cut(v, " ")
			gotSSRC = append(gotSSRC, id)
		}
		wantSSRC, gotSSRC = c12Uniq(wantSSRC), c12Uniq(gotSSRC)
		sort.Strings(wantFID)
		sort.Strings(wantFEC)
		if strings.Join(wantSSRC, ",") != strings.Join(gotSSRC, ",") {
			c.violation("ssrc-set-mismatch", fmt.Sprintf("mid %q: a=ssrc ids %v, sender encodings use %v", mid, gotSSRC, wantSSRC), offer.SDP)
		}
		if got := c12SSRCGroups(m, "FID"); strings.Join(got, ",") != strings.Join(wantFID, ",") {
			c.violation("ssrc-group-fid-mismatch", fmt.Sprintf("mid %q: a=ssrc-group:FID %v, sender encodings give %v", mid, got, wantFID), offer.SDP)
		}
		if got := c12SSRCGroups(m, "FEC-FR"); strings.Join(got, ",") != strings.Join(wantFEC, ",") {
			c.violation("ssrc-group-fec-mismatch", fmt.Sprintf("mid %q: a=ssrc-group:FEC-FR %v, sender encodings give %v", mid, got, wantFEC), offer.SDP)
		}
		if len(wantFID) > 0 {
			c.run.Count("sending_tracks_with_rtx", 1)
		}
		if len(wantFEC) > 0 {
			c.run.Count("sending_tracks_with_fec", 1)
		}
		if c.remoteSet == 0 && t.Kind() == RTPCodecTypeVideo {
			// "when those are enabled": known from the engine this case registered, only while nothing was negotiated yet
			if c.eng.RTX && len(wantFID) != len(encs) {
				c.violation("rtx-enabled-without-rtx-ssrc", fmt.Sprintf("mid %q: engine %s registers rtx, sender has %d encodings but %d RTX ssrcs", mid, c.eng.Name, len(encs), len(wantFID)), offer.SDP)
			}
			if c.eng.FEC && len(wantFEC) != len(encs) {
				c.violation("fec-enabled-without-fec-ssrc", fmt.Sprintf("mid %q: engine %s registers flexfec, sender has %d encodings but %d FEC ssrcs", mid, c.eng.Name, len(encs), len(wantFEC)), offer.SDP)
			}
		}
		if len(encs) > 1 {
			c.run.Count("simulcast_senders_checked", 1)
			rids := map[string]bool{}
			for _, v := range m.AttrAll("rid") {
				f := strings.Fields(v)
				if len(f) >= 2 && f[1] == "send" {
					rids[f[0]] = true
				}
			}
			for _, e := range encs {
				if !rids[e.RID] {
					c.violation("rid-missing", fmt.Sprintf("mid %q: encoding rid %q has no a=rid:%s send line (rid lines: %v)", mid, e.RID, e.RID, m.AttrAll("rid")), offer.SDP)
				}
			}
		}
	}
	for _, m := range media {
		if mid, ok := m.Mid(); ok && !owned[m] && len(byMid[mid]) == 1 {
			c.violation("section-without-transceiver", fmt.Sprintf("media section mid %q (%s) corresponds to no transceiver", mid, m.Lines[0]), offer.SDP)
		}
	}
	wantApp := c.dcCreated || c.always
	c.run.Seen("application_expected", fmt.Sprintf("dc=%v always=%v", c.dcCreated, c.always))
	switch {
	case wantApp && len(apps) == 0:
		c.violation("application-section-missing", fmt.Sprintf("data channel created=%v AlwaysNegotiateDataChannels=%v but the offer has no application section", c.dcCreated, c.always), offer.SDP)
	case !wantApp && len(apps) > 0:
		c.violation("application-section-unexpected", "no data channel was created and AlwaysNegotiateDataChannels is off, but the offer has an application section", offer.SDP)
	case len(apps) > 1:
		c.violation("application-section-duplicated", fmt.Sprintf("%d application sections", len(apps)), offer.SDP)
	}
	if len(trs) >= 1 && sending >= 1 && len(d.Media) >= 2 {
		c.nontriv = true
		c.run.Count("offers_nontrivial", 1)
	}
	if c.remoteSet > 0 {
		c.run.Count("offers_checked_renegotiation", 1)
	}
}

// ------------------------------------------------------------------ operations

func (c *c12Case) offerAndCheck() {
	offer, err := c.pc.CreateOffer(nil)
	if err != nil {
		c.step("CreateOffer", "", err)
		c.run.Seen("create_offer_errors", c12ErrClass(err))

		return
	}
	c.checkOffer(offer)
}

func c12ErrClass(err error) string {
	s := err.Error()
	if len(s) > 70 {
		s = s[:70]
	}

	return s
}

func (c *c12Case) exchange(offerer, answerer *PeerConnection, what string) bool {
	_, _, err := rigExchange(offerer, answerer, nil, nil)
	c.step(what, "", err)
	if err != nil {
		c.run.Seen("exchange_errors", c12ErrClass(err))
		c.dead = true

		return false
	}
	c.remoteSet++
	c.run.Count("exchanges", 1)

	return true
}

func (c *c12Case) op() { //nolint:cyclop,gocognit
	r := c.r
	pc := c.pc
	dirs := []RTPTransceiverDirection{RTPTransceiverDirectionSendrecv, RTPTransceiverDirectionSendonly, RTPTransceiverDirectionRecvonly}
	switch k := r.Intn(100); {
	case k < 16:
		tr := c.newTrack(c.kind(), "")
		_, err := pc.AddTrack(tr)
		c.step("AddTrack", tr.Kind().String()+" "+tr.StreamID()+"/"+tr.ID(), err)
		c.run.Seen("ops", "AddTrack")
	case k < 30:
		kind, dir := c.kind(), kit.Pick(r, dirs)
		_, err := pc.AddTransceiverFromKind(kind, RTPTransceiverInit{Direction: dir})
		c.step("AddTransceiverFromKind", kind.String()+" "+dir.String(), err)
		c.run.Seen("ops", "AddTransceiverFromKind "+dir.String())
	case k < 42:
		tr := c.newTrack(c.kind(), "")
		init := RTPTransceiverInit{Direction: kit.Pick(r, dirs[:2])}
		detail := tr.Kind().String() + " " + init.Direction.String() + " " + tr.StreamID() + "/" + tr.ID()
		if r.Chance(0.25) {
			init.SendEncodings = []RTPEncodingParameters{{RTPCodingParameters{SSRC: SSRC(r.Range(1, 1<<30))}}}
			detail += fmt.Sprintf(" ssrc=%d", init.SendEncodings[0].SSRC)
		}
		_, err := pc.AddTransceiverFromTrack(tr, init)
		c.step("AddTransceiverFromTrack", detail, err)
		c.run.Seen("ops", "AddTransceiverFromTrack "+init.Direction.String())
	case k < 50:
		// simulcast: base track with a RID, further encodings through AddEncoding
		rids := []string{"q", "h", "f"}[:r.Range(2, 3)]
		base := c.newTrack(RTPCodecTypeVideo, rids[0])
		t, err := pc.AddTransceiverFromTrack(base, RTPTransceiverInit{Direction: kit.Pick(r, dirs[:2])})
		c.step("AddTransceiverFromTrack(simulcast)", base.StreamID()+"/"+base.ID()+" rid="+rids[0], err)
		if err == nil {
			for _, rid := range rids[1:] {
				tr, terr := NewTrackLocalStaticSample(base.Codec(), base.ID(), base.StreamID(), WithRTPStreamID(rid))
				if terr != nil {
					panic(terr)
				}
				err = t.Sender().AddEncoding(tr)
				c.step("AddEncoding", "rid="+rid, err)
			}
		}
		c.run.Seen("ops", "simulcast")
	case k < 58:
		senders := pc.GetSenders()
		if len(senders) == 0 {
			return
		}
		n := r.Intn(len(senders))
		err := pc.RemoveTrack(senders[n])
		c.step("RemoveTrack", fmt.Sprintf("sender %d of %d", n, len(senders)), err)
		c.run.Seen("ops", "RemoveTrack")
	case k < 68:
		senders := pc.GetSenders()
		if len(senders) == 0 {
			return
		}
		n := r.Intn(len(senders))
		snd := senders[n]
		var err error
		switch r.Intn(4) {
		case 0:
			err = snd.ReplaceTrack(nil)
			c.step("ReplaceTrack", fmt.Sprintf("sender %d: nil", n), err)
			c.run.Seen("ops", "ReplaceTrack nil")
		default:
			kind := RTPCodecTypeVideo
			if tr := snd.Track(); tr != nil {
				kind = tr.Kind()
			} else if t := c.transceiverOf(snd); t != nil {
				kind = t.Kind()
			}
			tr := c.newTrack(kind, "")
			err = snd.ReplaceTrack(tr)
			c.step("ReplaceTrack", fmt.Sprintf("sender %d: %s/%s", n, tr.StreamID(), tr.ID()), err)
			c.run.Seen("ops", "ReplaceTrack track")
		}
	case k < 74:
		trs := pc.GetTransceivers()
		if len(trs) == 0 {
			return
		}
		n := r.Intn(len(trs))
		err := trs[n].Stop()
		c.step("Stop", fmt.Sprintf("transceiver %d", n), err)
		c.run.Seen("ops", "Stop")
	case k < 84:
		_, err := pc.CreateDataChannel(fmt.Sprintf("dc%d", len(c.steps)), nil)
		c.step("CreateDataChannel", "", err)
		if err == nil {
			c.dcCreated = true
		}
		c.run.Seen("ops", "CreateDataChannel")
	case k < 96:
		if len(pc.GetTransceivers()) == 0 && !c.dcCreated && !c.always {
			return // an offer without m-sections cannot be applied by the peer (no ICE credentials)
		}
		if !c.exchange(pc, c.peer, "exchange(pc offers)") {
			return
		}
		c.run.Seen("ops", "exchange")
		if r.Chance(0.4) {
			if !rigWaitConnected(15*time.Second, pc, c.peer) {
				c.run.Count("exchange_not_connected", 1)
			} else {
				rigDrain(pc)
				c.run.Count("exchange_connected", 1)
			}
		}
	default:
		// the peer adds media and offers; everything this side holds is negotiated first, so that mids are known to both
		if len(pc.GetTransceivers()) == 0 && !c.dcCreated && !c.always {
			return
		}
		if !c.exchange(pc, c.peer, "exchange(pc offers)") {
			return
		}
		kind, dir := c.kind(), kit.Pick(r, dirs)
		_, err := c.peer.AddTransceiverFromKind(kind, RTPTransceiverInit{Direction: dir})
		c.step("peer.AddTransceiverFromKind", kind.String()+" "+dir.String(), err)
		if err != nil {
			return
		}
		if c.exchange(c.peer, pc, "exchange(peer offers)") {
			c.run.Seen("ops", "peer offers "+dir.String())
		}
	}
}

func (c *c12Case) transceiverOf(s *RTPSender) *RTPTransceiver {
	for _, t := range c.pc.GetTransceivers() {
		if t.Sender() == s {
			return t
		}
	}

	return nil
}

func TestVerifC12(t *testing.T) {
	run := kit.Start(t, "C12", "case = engine (default / plain / rtx / rtx+flexfec / flexfec) x AlwaysNegotiateDataChannels x a history of 1-9 operations "+
		"(AddTrack, AddTransceiverFromKind/FromTrack in all directions, simulcast AddEncoding, RemoveTrack, ReplaceTrack incl. nil, Stop, CreateDataChannel, "+
		"complete exchange with a pion peer, peer-initiated offer), CreateOffer checked after every operation; non-trivial when some checked offer had "+
		">= 2 m-sections and >= 1 sending track; distinct by the operation history")
	defer run.Finish()
	run.Assume("kit.ParseSDP line splitter is the trusted base; API state (GetTransceivers, Direction, Sender, GetParameters) is read right after CreateOffer returns, no concurrent mutators")
	run.Assume("the remote side of exchanges is a pion PeerConnection with an identically configured MediaEngine")

	n := kit.N(2000, 30000)
	run.Parallel(n, 16, func(i int) {
		r := run.CaseRand(i)
		c := &c12Case{run: run, idx: i, r: r, eng: kit.Pick(r, c12Engines), always: r.Chance(0.15)}
		defer func() {
			if p := recover(); p != nil {
				fmt.Printf("C12: case %d panicked: %v\n  steps: %+v\n", i, p, c.steps)
				run.Inconclusive(fmt.Sprintf("panic: %v", p))
			}
		}()
		var err error
		c.pc, err = rigNewPC(rigOpts{ME: c12BuildEngine(c.eng), Cfg: Configuration{AlwaysNegotiateDataChannels: c.always}, Quiet: true})
		if err != nil {
			run.Inconclusive("new-peerconnection: " + err.Error())

			return
		}
		c.peer, err = rigNewPC(rigOpts{ME: c12BuildEngine(c.eng), Quiet: true})
		if err != nil {
			rigClose(c.pc)
			run.Inconclusive("new-peerconnection: " + err.Error())

			return
		}
		defer rigClose(c.pc, c.peer)
		if r.Chance(0.1) {
			c.offerAndCheck() // empty PeerConnection
		}
		nOps := r.Range(1, 9)
		for k := 0; k < nOps && !c.dead; k++ {
			c.op()
			if c.dead {
				break
			}
			c.offerAndCheck()
		}
		var hist []string
		for _, s := range c.steps {
			hist = append(hist, s.Op+" "+s.Detail+" "+s.Err)
		}
		run.Case(c.eng.Name+fmt.Sprint(c.always)+"|"+strings.Join(hist, ";"), c.nontriv)
		run.Seen("engine", c.eng.Name)
		if i < 30 && c.nontriv && c.offers >= 3 {
			run.Sample(map[string]any{"case": i, "engine": c.eng.Name, "always": c.always, "steps": c.steps, "final_state": c.stateDump()})
		}
	})
}
