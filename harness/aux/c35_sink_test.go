package verifaux

import (
	"bytes"
	"errors"
	"fmt"
	"io"
	"os"
	"strings"

	"github.com/pion/rtp"
	kit "github.com/pion/webrtc/v4/internal/verifkit"
	"github.com/pion/webrtc/v4/pkg/media/h264reader"
	"github.com/pion/webrtc/v4/pkg/media/h264writer"
	"github.com/pion/webrtc/v4/pkg/media/h265reader"
	"github.com/pion/webrtc/v4/pkg/media/h265writer"
)

// C35, output sinks. The statement speaks of "the H264Writer/H265Writer output": the writers have two constructors,
// NewWith(io.Writer) and New(filename), and the output of the second one is the FILE of that name as it stands after
// Close. A file, unlike a fresh buffer, has a history: the path may not exist, may be empty, may hold arbitrary bytes or
// one or several earlier recordings (longer or shorter than the one judged; of the same or of the other codec). The
// oracle is the same for every sink and every history: what the matching reader reads back == the units carried by
// THIS session's packets from its first keyframe unit on.

type c35Step struct {
	Kind  string   // "rec" earlier recording through New(path) (same codec), "rec-other" (other codec's writer), "bytes", "empty"
	Rec   *c35Case // rec / rec-other
	Bytes []byte   // bytes
	Size  int      // observed: size of the file after the step
}

type c35Sink struct {
	File    bool
	History []c35Step
}

// c35GenSink draws the sink of a case. It is called after c35Gen so that the judged session of case i is the same
// whatever the sink.
func c35GenSink(r *kit.Rand, codec int) *c35Sink {
	s := &c35Sink{}
	if r.Intn(100) < 62 {
		return s
	}
	s.File = true
	if r.Intn(100) < 20 {
		return s // fresh path
	}
	for n := 1 + r.Intn(3); n > 0; n-- {
		st := c35Step{}
		switch x := r.Intn(100); {
		case x < 48:
			st.Kind = "rec"
			st.Rec = c35Gen(r, codec)
		case x < 62:
			st.Kind = "rec-other"
			st.Rec = c35Gen(r, 1-codec)
		case x < 90:
			st.Kind = "bytes"
			st.Bytes = c35JunkBytes(r)
		default:
			st.Kind = "empty"
		}
		if st.Rec != nil {
			if st.Rec.Mode == 2 {
				st.Rec.Mode = r.Intn(2) // histories are recorded from pion's payloaders only
			}
			st.Rec.packetise()
		}
		s.History = append(s.History, st)
	}

	return s
}

// c35JunkBytes: what else a path may hold: random bytes, an Annex-B looking stream, text; 1..12000 bytes.
func c35JunkBytes(r *kit.Rand) []byte {
	n := 0
	switch x := r.Intn(100); {
	case x < 25:
		n = r.Range(1, 64)
	case x < 70:
		n = r.Range(65, 3000)
	default:
		n = r.Range(3001, 12000)
	}
	var b []byte
	switch r.Intn(3) {
	case 0:
		b = r.Bytes(n)
	case 1:
		for len(b) < n {
			b = append(b, 0, 0, 0, 1)
			b = append(b, c35Body(r, []byte{byte(1 + r.Intn(23)), 0x01}, r.Range(2, 400), 1)...)
		}
		b = b[:n]
	default:
		b = bytes.Repeat([]byte("previous content of this path\n"), n/30+1)[:n]
	}

	return b
}

func (s *c35Sink) desc() string {
	if !s.File {
		return ""
	}
	if len(s.History) == 0 {
		return " => New(fresh path)"
	}
	parts := make([]string, 0, len(s.History))
	for _, st := range s.History {
		switch st.Kind {
		case "rec", "rec-other":
			tot := 0
			for _, u := range st.Rec.Units {
				tot += len(u)
			}
			parts = append(parts, fmt.Sprintf("%s:%s/mode%d/mtu%d/%du/%dB", st.Kind, c35CodecName[st.Rec.Codec], st.Rec.Mode, st.Rec.MTU, len(st.Rec.Units), tot))
		case "bytes":
			parts = append(parts, fmt.Sprintf("bytes:%dB:%x", len(st.Bytes), st.Bytes[:min(4, len(st.Bytes))]))
		default:
			parts = append(parts, st.Kind)
		}
	}

	return " => New(path that went through: " + strings.Join(parts, ", ") + ")"
}

func (s *c35Sink) class() string {
	switch {
	case !s.File:
		return "NewWith(buffer)"
	case len(s.History) == 0:
		return "New(fresh path)"
	default:
		return "New(existing path)"
	}
}

type c35RTPWriter interface {
	WriteRTP(*rtp.Packet) error
	Close() error
}

// c35Open opens the writer of the codec on a buffer (path == "") or through the filename constructor.
func c35Open(codec int, buf *bytes.Buffer, path string) (c35RTPWriter, error) {
	switch {
	case codec == c35H264 && path == "":
		return h264writer.NewWith(buf), nil
	case codec == c35H264:
		return h264writer.New(path)
	case path == "":
		return h265writer.NewWith(buf), nil
	default:
		return h265writer.New(path)
	}
}

// c35Feed sends the packets of one session and closes the writer.
func c35Feed(c *c35Case, w c35RTPWriter) (writeErrs []string) {
	for pi, p := range c.Packets {
		last := pi == len(c.Packets)-1 || c.PktGroup[pi+1] != c.PktGroup[pi]
		pkt := &rtp.Packet{
			Header: rtp.Header{
				Version: 2, PayloadType: 96, SequenceNumber: uint16(1000 + pi), //nolint:gosec
				Timestamp: uint32(90000 + 3000*c.PktGroup[pi]), SSRC: 0x35, Marker: last, //nolint:gosec
			},
			Payload: append([]byte(nil), p...),
		}
		if err := w.WriteRTP(pkt); err != nil {
			writeErrs = append(writeErrs, fmt.Sprintf("packet %d: %v", pi, err))
		}
	}
	if err := w.Close(); err != nil {
		writeErrs = append(writeErrs, fmt.Sprintf("close: %v", err))
	}

	return writeErrs
}

// c35ReadBack reads raw with the matching reader (SEI included), at most limit units.
func c35ReadBack(codec int, raw []byte, limit int) (got [][]byte, readErr error) {
	var next func() ([]byte, error)
	if codec == c35H264 {
		rd, err := h264reader.NewReaderWithOptions(bytes.NewReader(raw), h264reader.WithIncludeSEI(true))
		if err != nil {
			return nil, err
		}
		next = func() ([]byte, error) {
			n, e := rd.NextNAL()
			if e != nil {
				return nil, e
			}

			return n.Data, nil
		}
	} else {
		rd, err := h265reader.NewReaderWithOptions(bytes.NewReader(raw), h265reader.WithIncludeSEI(true))
		if err != nil {
			return nil, err
		}
		next = func() ([]byte, error) {
			n, e := rd.NextNAL()
			if e != nil {
				return nil, e
			}

			return n.Data, nil
		}
	}
	for len(got) < limit {
		d, e := next()
		if e != nil {
			if !errors.Is(e, io.EOF) {
				readErr = e
			}

			break
		}
		got = append(got, append([]byte(nil), d...))
	}

	return got, readErr
}

type c35Outcome struct {
	Got       [][]byte // units read back from the judged output (the buffer, or the file after Close)
	Raw       []byte   // the judged output
	WriteErrs []string
	ReadErr   error
	Panicked  any
	// file sinks only
	Before     []byte // content of the path just before the judged New(path); nil when the path did not exist
	Existed    bool
	RawMem     []byte // what the same packets give through NewWith(buffer): used to name the cause only, never to judge
	HarnessErr string // the history could not be laid down / New(path) failed: the case is undecided
}

// c35Run lays down the history of the sink (if any), records the judged session and reads the output back.
func c35Run(c *c35Case, s *c35Sink, path string) (o c35Outcome) {
	defer func() {
		if p := recover(); p != nil {
			o.Panicked = p
		}
	}()
	limit := len(c.Units)*2 + 16
	var mem bytes.Buffer
	w, _ := c35Open(c.Codec, &mem, "")
	memErrs := c35Feed(c, w)
	if !s.File {
		o.WriteErrs = memErrs
		o.Raw = append([]byte(nil), mem.Bytes()...)
		o.Got, o.ReadErr = c35ReadBack(c.Codec, o.Raw, limit)

		return o
	}
	o.RawMem = append([]byte(nil), mem.Bytes()...)
	defer func() { _ = os.Remove(path) }()
	for si := range s.History {
		st := &s.History[si]
		switch st.Kind {
		case "rec", "rec-other":
			hw, err := c35Open(st.Rec.Codec, nil, path)
			if err != nil {
				o.HarnessErr = fmt.Sprintf("history step %d: New(path): %v", si, err)

				return o
			}
			func() {
				defer func() {
					if recover() != nil {
						_ = hw.Close()
					}
				}()
				c35Feed(st.Rec, hw)
			}()
		case "bytes":
			if err := os.WriteFile(path, st.Bytes, 0o600); err != nil {
				o.HarnessErr = fmt.Sprintf("history step %d: %v", si, err)

				return o
			}
		default:
			if err := os.WriteFile(path, nil, 0o600); err != nil {
				o.HarnessErr = fmt.Sprintf("history step %d: %v", si, err)

				return o
			}
		}
		if fi, err := os.Stat(path); err == nil {
			st.Size = int(fi.Size())
		}
	}
	if b, err := os.ReadFile(path); err == nil { //nolint:gosec
		o.Before, o.Existed = b, true
	}
	fw, err := c35Open(c.Codec, nil, path)
	if err != nil {
		o.HarnessErr = fmt.Sprintf("New(path) of the judged session: %v", err)

		return o
	}
	o.WriteErrs = c35Feed(c, fw)
	raw, err := os.ReadFile(path) //nolint:gosec
	if err != nil {
		o.HarnessErr = fmt.Sprintf("reading the file back: %v", err)

		return o
	}
	o.Raw = raw
	o.Got, o.ReadErr = c35ReadBack(c.Codec, raw, limit)

	return o
}

// c35ClassifySink names the cause when the FILE holds something else than what the writer emitted for this session
// (sig == "" when the file is byte-identical to the writer's byte stream: then the cause is in WriteRTP, not in the sink).
func c35ClassifySink(codec int, o *c35Outcome) (sig, what string) {
	cname := c35CodecName[codec]
	n, m := len(o.RawMem), len(o.Before)
	switch {
	case bytes.Equal(o.Raw, o.RawMem):
		return "", ""
	case o.Existed && m > n && len(o.Raw) == m && bytes.Equal(o.Raw[:n], o.RawMem) && bytes.Equal(o.Raw[n:], o.Before[n:]):
		return "filename-ctor-keeps-old-content:" + cname, fmt.Sprintf(
			"New(filename) on a path that already held %d bytes did not discard them: this session's %d output bytes overwrote the head of the file, "+
				"the last %d bytes of the previous content are still there and are read back glued to / after this session's units", m, n, m-n)
	case o.Existed && m > 0 && len(o.Raw) == m+n && bytes.Equal(o.Raw[:m], o.Before) && bytes.Equal(o.Raw[m:], o.RawMem):
		return "filename-ctor-appends-to-old-content:" + cname, fmt.Sprintf(
			"New(filename) on a path that already held %d bytes appended this session's %d output bytes to them", m, n)
	case len(o.Raw) < n && bytes.Equal(o.Raw, o.RawMem[:len(o.Raw)]):
		return "file-output-truncated:" + cname, fmt.Sprintf(
			"the file holds only the first %d of the %d bytes the writer emits for these packets", len(o.Raw), n)
	default:
		j := 0
		for j < len(o.Raw) && j < n && o.Raw[j] == o.RawMem[j] {
			j++
		}

		return "file-differs-from-writer-stream:" + cname, fmt.Sprintf(
			"the file written through New(filename) (%d bytes; path held %d bytes before) differs from the byte stream the same packets give through NewWith (%d bytes) at offset %d",
			len(o.Raw), m, n, j)
	}
}
