package verifaux

import (
	"bytes"
	"encoding/binary"
	"errors"
	"fmt"
	"io"
	"os"
	"path/filepath"
	"strings"
	"testing"

	"github.com/pion/rtp"
	kit "github.com/pion/webrtc/v4/internal/verifkit"
	"github.com/pion/webrtc/v4/pkg/media/oggreader"
	"github.com/pion/webrtc/v4/pkg/media/oggwriter"
)

// C33 — Ogg/Opus writer output is valid Ogg that reads back as the written packets.
//
// Oracle: the monitor's own Ogg page parser + CRC (RFC 3533: polynomial 0x04C11DB7, MSB first, init 0, no final
// xor) and its own Opus TOC duration table (RFC 6716 §3.1) run over the raw output bytes; the repo's oggreader is
// run over the same bytes and must agree page by page. Nothing is shared with oggwriter/oggreader code.

// ------------------------------------------------------------------ CRC (own implementation)

func c33CRCByte(crc uint32, b byte) uint32 {
	crc ^= uint32(b) << 24
	for k := 0; k < 8; k++ {
		if crc&0x80000000 != 0 {
			crc = crc<<1 ^ 0x04C11DB7
		} else {
			crc <<= 1
		}
	}

	return crc
}

var c33CRCTab = func() (t [256]uint32) { //nolint:gochecknoglobals
	for i := range t {
		t[i] = c33CRCByte(0, byte(i))
	}

	return t
}()

func c33CRC(init uint32, b []byte) uint32 {
	crc := init
	for _, v := range b {
		crc = crc<<8 ^ c33CRCTab[byte(crc>>24)^v]
	}

	return crc
}

// ------------------------------------------------------------------ page parser (own implementation)

type c33Page struct {
	Off     int
	HType   byte
	Granule uint64
	Serial  uint32
	Seq     uint32
	CRC     uint32
	CRCCalc uint32
	Segs    []byte
	Body    []byte
}

const c33NoGranule = ^uint64(0)

func c33ParsePages(b []byte) ([]c33Page, error) {
	var pages []c33Page
	off := 0
	for off < len(b) {
		if len(b)-off < 27 {
			return pages, fmt.Errorf("truncated page header at offset %d (%d bytes left)", off, len(b)-off)
		}
		if string(b[off:off+4]) != "OggS" {
			return pages, fmt.Errorf("no capture pattern at offset %d: % x", off, b[off:off+4])
		}
		if b[off+4] != 0 {
			return pages, fmt.Errorf("stream structure version %d at offset %d", b[off+4], off)
		}
		le := binary.LittleEndian
		p := c33Page{
			Off: off, HType: b[off+5], Granule: le.Uint64(b[off+6:]), Serial: le.Uint32(b[off+14:]),
			Seq: le.Uint32(b[off+18:]), CRC: le.Uint32(b[off+22:]),
		}
		nseg := int(b[off+26])
		if len(b)-off < 27+nseg {
			return pages, fmt.Errorf("truncated segment table at offset %d", off)
		}
		p.Segs = b[off+27 : off+27+nseg]
		body := 0
		for _, s := range p.Segs {
			body += int(s)
		}
		if len(b)-off < 27+nseg+body {
			return pages, fmt.Errorf("truncated page body at offset %d: need %d, have %d", off, body, len(b)-off-27-nseg)
		}
		p.Body = b[off+27+nseg : off+27+nseg+body]
		crc := c33CRC(0, b[off:off+22])
		crc = c33CRC(crc, []byte{0, 0, 0, 0})
		crc = c33CRC(crc, b[off+26:off+27+nseg+body])
		p.CRCCalc = crc
		pages = append(pages, p)
		off += 27 + nseg + body
	}

	return pages, nil
}

// ------------------------------------------------------------------ Opus TOC (RFC 6716 section 3.1, table 2)

// samples per frame at 48 kHz for each of the 32 configurations.
var c33SamplesPerFrame = [32]int{ //nolint:gochecknoglobals
	480, 960, 1920, 2880, // SILK NB   10/20/40/60 ms
	480, 960, 1920, 2880, // SILK MB
	480, 960, 1920, 2880, // SILK WB
	480, 960, // Hybrid SWB 10/20 ms
	480, 960, // Hybrid FB
	120, 240, 480, 960, // CELT NB   2.5/5/10/20 ms
	120, 240, 480, 960, // CELT WB
	120, 240, 480, 960, // CELT SWB
	120, 240, 480, 960, // CELT FB
}

// c33PacketSamples: number of 48 kHz samples of a well-formed packet; ok=false when RFC 6716 calls it malformed
// as far as the TOC/frame-count byte goes ([R1] at least one byte, [R5] code 3 has >= 2 bytes and M >= 1, total <= 120 ms).
func c33PacketSamples(p []byte) (int, bool) {
	if len(p) == 0 {
		return 0, false
	}
	spf := c33SamplesPerFrame[p[0]>>3]
	var frames int
	switch p[0] & 3 {
	case 0:
		frames = 1
	case 1, 2:
		frames = 2
	default:
		if len(p) < 2 {
			return 0, false
		}
		frames = int(p[1] & 0x3f)
		if frames == 0 {
			return 0, false
		}
	}
	if spf*frames > 5760 {
		return 0, false
	}

	return spf * frames, true
}

// ------------------------------------------------------------------ in-memory seekable output

type c33MemFile struct {
	data     []byte
	pos      int64
	writeAts int
}

func (m *c33MemFile) Write(p []byte) (int, error) {
	end := m.pos + int64(len(p))
	if end > int64(len(m.data)) {
		m.data = append(m.data, make([]byte, end-int64(len(m.data)))...)
	}
	copy(m.data[m.pos:], p)
	m.pos = end

	return len(p), nil
}

func (m *c33MemFile) Seek(off int64, whence int) (int64, error) {
	var base int64
	switch whence {
	case io.SeekStart:
	case io.SeekCurrent:
		base = m.pos
	case io.SeekEnd:
		base = int64(len(m.data))
	default:
		return 0, errors.New("c33MemFile: bad whence")
	}
	if base+off < 0 {
		return 0, errors.New("c33MemFile: negative position")
	}
	m.pos = base + off

	return m.pos, nil
}

func (m *c33MemFile) WriteAt(p []byte, off int64) (int, error) {
	m.writeAts++
	end := off + int64(len(p))
	if end > int64(len(m.data)) {
		m.data = append(m.data, make([]byte, end-int64(len(m.data)))...)
	}
	copy(m.data[off:], p)

	return len(p), nil
}

type c33PlainWriter struct{ buf *bytes.Buffer }

func (w c33PlainWriter) Write(p []byte) (int, error) { return w.buf.Write(p) }

// ------------------------------------------------------------------ case model

type c33Comment struct{ Name, Value string }

type c33Track struct {
	SSRC       uint32
	Serial     uint32
	SerialSet  bool
	SampleRate uint32
	Family     uint8
	Channels   uint8
	Streams    uint8
	Coupled    uint8
	Mapping    []byte
	Vendor     string
	VendorSet  bool // vendor explicitly configured (by writer or track option)
	Comments   []c33Comment
	opts       []oggwriter.TrackOption

	// filled while writing
	accepted       [][]byte
	live           [][]byte // the slices that were handed to WriteRTP (caller-owned: may have been overwritten since)
	samples        []int
	granuleUnknown bool
}

type c33Op struct {
	Track   int
	Payload []byte
	Kind    string // "valid", "empty", "invalid:<why>"
}

type c33Case struct {
	Mode   string // single-newwith-plain | single-newwith-seekable | single-file | multi-plain | multi-seekable | multi-file
	Tracks []*c33Track
	Ops    []c33Op
	// Buf is the caller's buffer discipline. The payload slice handed to WriteRTP belongs to the caller again as soon as
	// WriteRTP has returned: "fresh" never touches it again, "scribble" overwrites every payload right after its WriteRTP
	// returned (pooled buffer handed back), "reuse" is a receive loop with ONE wire buffer and ONE rtp.Packet for all
	// packets of all tracks (header+payload marshalled into the buffer, rtp.Packet.Unmarshal aliases it), overwritten
	// once more before Close.
	Buf      string
	Scribble string // what the caller writes over a buffer it owns again: complement | zero | random
	wopts    []oggwriter.WriterOption
}

func (c *c33Case) scribble(r *kit.Rand, b []byte) {
	switch c.Scribble {
	case "complement":
		for k := range b {
			b[k] = ^b[k]
		}
	case "zero":
		clear(b)
	default:
		copy(b, r.Bytes(len(b)))
	}
}

func c33Size(r *kit.Rand, bigBudget *int) int {
	x := r.Intn(100)
	switch {
	case x < 28:
		return r.Range(1, 40)
	case x < 42:
		return r.Range(41, 253)
	case x < 57:
		return kit.Pick(r, []int{254, 255, 256})
	case x < 67:
		return kit.Pick(r, []int{509, 510, 511, 764, 765, 766})
	case x < 84:
		return r.Range(257, 5000)
	}
	if *bigBudget <= 0 {
		return r.Range(1, 600)
	}
	*bigBudget--
	switch {
	case x < 92:
		return kit.Pick(r, []int{65024, 65025, 65026, 65279, 65280, 65281, 64770})
	case x < 95:
		return kit.Pick(r, []int{130049, 130050, 130051})
	default:
		return r.Range(65027, 200*1024)
	}
}

// c33OpusPacket builds a packet with the given TOC config/code: TOC byte, for code 3 a frame-count byte whose
// total duration stays <= 120 ms, then random bytes (the container writer must not depend on them).
func c33OpusPacket(r *kit.Rand, config, code, size int) []byte {
	if code == 3 && size < 2 {
		size = 2
	}
	p := r.Bytes(size)
	p[0] = byte(config<<3) | byte(r.Intn(2)<<2) | byte(code)
	if code == 3 {
		maxM := 5760 / c33SamplesPerFrame[config]
		m := r.Range(1, maxM)
		if r.Chance(0.2) {
			m = maxM
		}
		p[1] = byte(r.Intn(4)<<6) | byte(m)
	}

	return p
}

func c33InvalidPacket(r *kit.Rand) ([]byte, string) {
	config := r.Intn(32)
	switch r.Intn(3) {
	case 0:
		return []byte{byte(config<<3) | 3}, "invalid:code3-no-count-byte"
	case 1:
		p := r.Bytes(r.Range(2, 50))
		p[0] = byte(config<<3) | 3
		p[1] &= 0xC0

		return p, "invalid:code3-zero-frames"
	default:
		maxM := 5760 / c33SamplesPerFrame[config]
		p := r.Bytes(r.Range(2, 50))
		p[0] = byte(config<<3) | 3
		p[1] = p[1]&0xC0 | byte(r.Range(maxM+1, 63))

		return p, "invalid:over-120ms"
	}
}

func c33RandString(r *kit.Rand, n int, name bool) string {
	var sb strings.Builder
	for sb.Len() < n {
		switch {
		case name:
			ch := byte(r.Range(0x20, 0x7d))
			if ch == '=' {
				ch = 'A'
			}
			sb.WriteByte(ch)
		case r.Chance(0.1):
			sb.WriteRune(kit.Pick(r, []rune{'é', 'ß', '日', '本', '🎵', '=', ' ', '\n'}))
		default:
			sb.WriteByte(byte(r.Range(0x20, 0x7e)))
		}
	}

	return sb.String()
}

func c33RandComments(r *kit.Rand) []c33Comment {
	n := r.Intn(4)
	out := make([]c33Comment, 0, n)
	for k := 0; k < n; k++ {
		vlen := r.Intn(40)
		if r.Chance(0.04) {
			vlen = r.Range(200, 70000) // pushes OpusTags over 255-byte and 65025-byte page limits
		}
		out = append(out, c33Comment{Name: c33RandString(r, r.Range(1, 12), true), Value: c33RandString(r, vlen, false)})
	}

	return out
}

func c33ToUser(cs []c33Comment) []oggwriter.UserComment {
	out := make([]oggwriter.UserComment, len(cs))
	for i, c := range cs {
		out[i] = oggwriter.UserComment{Comment: c.Name, Value: c.Value}
	}

	return out
}

type c33Mapping struct {
	Family, Channels, Streams, Coupled uint8
	Mapping                            []byte
	viaCount                           bool
}

func c33RandMapping(r *kit.Rand) c33Mapping {
	switch r.Intn(6) {
	case 0:
		return c33Mapping{Family: 0, Channels: 1, Streams: 1, Coupled: 0, viaCount: true}
	case 1:
		return c33Mapping{Family: 0, Channels: 2, Streams: 1, Coupled: 1, viaCount: true}
	case 2:
		if r.Bool() {
			return c33Mapping{Family: 1, Channels: 1, Streams: 1, Coupled: 0, Mapping: []byte{0}}
		}

		return c33Mapping{Family: 1, Channels: 2, Streams: 1, Coupled: 1, Mapping: []byte{0, 1}}
	case 3:
		return c33Mapping{Family: 2, Channels: 1, Streams: 1, Coupled: 0, Mapping: []byte{0}}
	default:
		coupled := uint8(r.Intn(2))
		n := r.Range(1, 8)
		if r.Chance(0.1) {
			n = kit.Pick(r, []int{200, 254, 255})
		}
		m := make([]byte, n)
		for k := range m {
			if r.Chance(0.15) {
				m[k] = 255
			} else {
				m[k] = byte(r.Intn(1 + int(coupled)))
			}
		}

		return c33Mapping{Family: 255, Channels: uint8(n), Streams: 1, Coupled: coupled, Mapping: m}
	}
}

func c33Generate(r *kit.Rand, idx int) *c33Case {
	c := &c33Case{}
	c.Mode = kit.Pick(r, []string{
		"single-newwith-plain", "single-newwith-plain", "single-newwith-seekable", "single-file", "single-file",
		"multi-plain", "multi-plain", "multi-plain", "multi-seekable", "multi-seekable", "multi-seekable", "multi-file",
	})
	multi := strings.HasPrefix(c.Mode, "multi")
	nTracks := 1
	if multi {
		nTracks = r.Range(1, 4)
	}
	// writer-level defaults
	wRate := uint32(48000)
	wMap := c33Mapping{Family: 0, Channels: 2, Streams: 1, Coupled: 1, viaCount: true}
	wVendor, wVendorSet := "", false
	var wComments []c33Comment
	if multi {
		if r.Chance(0.4) {
			wRate = kit.Pick(r, []uint32{8000, 16000, 44100, 48000, 0, 1<<32 - 1, uint32(r.Intn(200000))})
			c.wopts = append(c.wopts, oggwriter.WithSampleRate(wRate))
		}
		if r.Chance(0.4) {
			wMap = c33RandMapping(r)
			if wMap.viaCount {
				c.wopts = append(c.wopts, oggwriter.WithChannelCount(uint16(wMap.Channels)))
			} else {
				c.wopts = append(c.wopts, oggwriter.WithChannelMapping(wMap.Family, wMap.Streams, wMap.Coupled, wMap.Mapping))
			}
		}
		if r.Chance(0.4) {
			wVendor, wVendorSet = c33RandString(r, r.Intn(30), false), true
			c.wopts = append(c.wopts, oggwriter.WithVendor(wVendor))
		}
		if r.Chance(0.4) {
			wComments = c33RandComments(r)
			c.wopts = append(c.wopts, oggwriter.WithUserComments(c33ToUser(wComments)...))
		}
	}
	usedSSRC := map[uint32]bool{}
	usedSerial := map[uint32]bool{}
	for k := 0; k < nTracks; k++ {
		tr := &c33Track{SSRC: r.Uint32(), SampleRate: wRate}
		for usedSSRC[tr.SSRC] {
			tr.SSRC++
		}
		usedSSRC[tr.SSRC] = true
		m := wMap
		tr.Vendor, tr.VendorSet = wVendor, wVendorSet
		tr.Comments = append([]c33Comment(nil), wComments...)
		if multi {
			if r.Chance(0.7) {
				tr.Serial, tr.SerialSet = kit.Pick(r, []uint32{0, 1, 1<<32 - 1, r.Uint32()}), true
				for usedSerial[tr.Serial] {
					tr.Serial += 7
				}
				usedSerial[tr.Serial] = true
				tr.opts = append(tr.opts, oggwriter.WithSerial(tr.Serial))
			}
			if r.Chance(0.4) {
				tr.SampleRate = kit.Pick(r, []uint32{8000, 12000, 24000, 48000, 96000, uint32(r.Intn(200000))})
				tr.opts = append(tr.opts, oggwriter.WithSampleRate(tr.SampleRate))
			}
			if r.Chance(0.5) {
				m = c33RandMapping(r)
				if m.viaCount {
					tr.opts = append(tr.opts, oggwriter.WithChannelCount(uint16(m.Channels)))
				} else {
					tr.opts = append(tr.opts, oggwriter.WithChannelMapping(m.Family, m.Streams, m.Coupled, m.Mapping))
				}
			}
			if r.Chance(0.4) {
				tr.Vendor, tr.VendorSet = c33RandString(r, r.Intn(30), false), true
				if r.Chance(0.03) {
					tr.Vendor = c33RandString(r, r.Range(65000, 66000), false)
				}
				tr.opts = append(tr.opts, oggwriter.WithVendor(tr.Vendor))
			}
			if r.Chance(0.4) {
				cs := c33RandComments(r)
				tr.Comments = append(tr.Comments, cs...) // WithUserComments *adds* to the writer-level comments
				tr.opts = append(tr.opts, oggwriter.WithUserComments(c33ToUser(cs)...))
			}
		} else {
			tr.SampleRate = kit.Pick(r, []uint32{8000, 16000, 24000, 44100, 48000, 0, 1<<32 - 1, uint32(r.Intn(200000))})
			if r.Bool() {
				m = c33Mapping{Family: 0, Channels: 1, Streams: 1, Coupled: 0}
			}
		}
		tr.Family, tr.Channels, tr.Streams, tr.Coupled, tr.Mapping = m.Family, m.Channels, m.Streams, m.Coupled, m.Mapping
		c.Tracks = append(c.Tracks, tr)
	}
	// operations
	nOps := r.Range(0, 14) * nTracks
	if r.Chance(0.1) {
		nOps = r.Range(40, 120)
	}
	bigBudget := 3
	withInvalid := r.Chance(0.25)
	for k := 0; k < nOps; k++ {
		op := c33Op{Track: r.Intn(nTracks), Kind: "valid"}
		switch {
		case withInvalid && r.Chance(0.08):
			op.Payload, op.Kind = c33InvalidPacket(r)
		case withInvalid && r.Chance(0.04):
			op.Payload, op.Kind = nil, "empty"
		default:
			config, code := r.Intn(32), r.Intn(4)
			if k == 0 {
				config, code = idx%32, (idx/32)%4 // guarantees all 128 TOC config×code combinations in any 128 consecutive cases
			}
			op.Payload = c33OpusPacket(r, config, code, c33Size(r, &bigBudget))
		}
		c.Ops = append(c.Ops, op)
	}
	// drawn last, so that the rest of the case is the same function of (seed, index) as before this dimension existed
	c.Buf = kit.Pick(r, []string{"fresh", "scribble", "scribble", "reuse", "reuse"})
	c.Scribble = kit.Pick(r, []string{"complement", "complement", "zero", "random"})

	return c
}

func (c *c33Case) desc() string {
	var sb strings.Builder
	fmt.Fprintf(&sb, "%s buf=%s", c.Mode, c.Buf)
	if c.Buf != "fresh" {
		fmt.Fprintf(&sb, "/%s", c.Scribble)
	}
	fmt.Fprintf(&sb, " tracks=%d", len(c.Tracks))
	for k, tr := range c.Tracks {
		fmt.Fprintf(&sb, " [t%d rate=%d fam=%d ch=%d coupled=%d serialSet=%v vendor=%dB comments=%d]", k, tr.SampleRate, tr.Family, tr.Channels, tr.Coupled,
			tr.SerialSet, len(tr.Vendor), len(tr.Comments))
	}
	sb.WriteString(" ops=")
	for k, op := range c.Ops {
		if k > 0 {
			sb.WriteByte(',')
		}
		if op.Kind == "valid" {
			fmt.Fprintf(&sb, "t%d:%02x/%d", op.Track, op.Payload[0], len(op.Payload))
		} else {
			fmt.Fprintf(&sb, "t%d:%s/%d", op.Track, op.Kind, len(op.Payload))
		}
	}

	return sb.String()
}

// ------------------------------------------------------------------ header payload parsers (own)

type c33Head struct {
	Version, Channels uint8
	PreSkip           uint16
	Rate              uint32
	Gain              uint16
	Family            uint8
	Streams, Coupled  uint8
	Mapping           []byte
}

func c33ParseHead(p []byte) (c33Head, error) {
	var h c33Head
	if len(p) < 19 || string(p[:8]) != "OpusHead" {
		return h, fmt.Errorf("not an OpusHead packet (len %d)", len(p))
	}
	h = c33Head{Version: p[8], Channels: p[9], PreSkip: binary.LittleEndian.Uint16(p[10:]), Rate: binary.LittleEndian.Uint32(p[12:]),
		Gain: binary.LittleEndian.Uint16(p[16:]), Family: p[18]}
	if h.Family == 0 {
		if len(p) != 19 {
			return h, fmt.Errorf("family 0 OpusHead has %d bytes, want 19", len(p))
		}

		return h, nil
	}
	if len(p) != 21+int(h.Channels) {
		return h, fmt.Errorf("family %d OpusHead with %d channels has %d bytes, want %d", h.Family, h.Channels, len(p), 21+int(h.Channels))
	}
	h.Streams, h.Coupled, h.Mapping = p[19], p[20], p[21:]

	return h, nil
}

func c33ParseTags(p []byte) (vendor string, comments []string, err error) {
	if len(p) < 16 || string(p[:8]) != "OpusTags" {
		return "", nil, fmt.Errorf("not an OpusTags packet (len %d)", len(p))
	}
	pos := 8
	rd := func() ([]byte, error) {
		if len(p)-pos < 4 {
			return nil, fmt.Errorf("truncated length at %d", pos)
		}
		n := int(binary.LittleEndian.Uint32(p[pos:]))
		pos += 4
		if n < 0 || n > len(p)-pos {
			return nil, fmt.Errorf("string of %d bytes at %d exceeds packet", n, pos)
		}
		s := p[pos : pos+n]
		pos += n

		return s, nil
	}
	v, err := rd()
	if err != nil {
		return "", nil, err
	}
	if len(p)-pos < 4 {
		return "", nil, fmt.Errorf("truncated comment count")
	}
	n := int(binary.LittleEndian.Uint32(p[pos:]))
	pos += 4
	for k := 0; k < n; k++ {
		s, err := rd()
		if err != nil {
			return "", nil, err
		}
		comments = append(comments, string(s))
	}
	if pos != len(p) {
		return "", nil, fmt.Errorf("%d trailing bytes after the comment list", len(p)-pos)
	}

	return string(v), comments, nil
}

// ------------------------------------------------------------------ test

type c33Packet struct {
	Data               []byte
	StartPage, EndPage int
}

func TestVerifC33(t *testing.T) {
	run := kit.Start(t, "C33", "per case: a writer variant (single-track NewWith on a plain io.Writer / NewWith on a seekable buffer / New on a file; "+
		"multi-track NewWriter plain / WithSeekableOutput(memory) / file), 1..4 tracks with random sample rate, channel mapping family 0/1/2/255, serial, "+
		"vendor and comments, and a random interleaving of Opus packets (all 32 TOC configs × 4 frame-count codes, sizes 1..200 KiB weighted to the 255-byte "+
		"and 65025-byte lacing edges; 1/4 of the cases also carry empty and malformed packets), under a caller buffer discipline: payloads never touched again / "+
		"every payload overwritten right after its WriteRTP returned / one reused receive buffer + one reused rtp.Packet for all packets, overwritten again before Close. A case is non-trivial when >= 3 data packets were accepted and "+
		"(some packet is >= 255 bytes or >= 2 tracks are multiplexed); distinct by mode, buffer discipline, track configs and the (track, TOC, size) op list")
	defer run.Finish()
	if got := c33CRC(0xFFFFFFFF, []byte("123456789")); got != 0x0376E6E7 {
		t.Fatalf("monitor CRC self-test failed: CRC-32/MPEG-2 check value %08x", got)
	}
	run.Assume("Ogg page CRC per RFC 3533: polynomial 0x04C11DB7, MSB first, initial value 0, no final xor, CRC field zeroed (monitor's own routine, " +
		"self-tested against the CRC-32/MPEG-2 check value 0x0376E6E7 with init 0xFFFFFFFF)")
	run.Assume("Opus sample count per RFC 6716 section 3.1: frame duration from the monitor's own 32-entry TOC table at 48 kHz, frame count 1/2/2/M for code 0/1/2/3")
	run.Assume("'sequence numbers increase by one from 0' is read per logical stream over all of its pages (OpusHead page 0, OpusTags page(s) next, data after), " +
		"as Ogg defines page_sequence_number; a page on which no packet completes may carry granule -1 (RFC 3533) and is exempt from the granule equality")
	run.Assume("malformed Opus packets (code 3 without count byte / M=0 / > 120 ms) and empty RTP payloads are outside 'any sequence of Opus packets': they may be " +
		"rejected or skipped, but must not corrupt the stream; WithUserComments on a track adds to the writer-level comments (documented)")

	run.Assume("'the written packets' are the payload bytes at the time of the WriteRTP call; once WriteRTP has returned, the rtp.Packet and its payload buffer " +
		"belong to the caller again and may be overwritten or reused before Close (usual io.Writer-style ownership; a receive loop with one buffer does exactly that)")

	tmp := t.TempDir()
	n := kit.N(3000, 60000)

	run.Parallel(n, 8, func(i int) {
		r := run.CaseRand(i)
		c := c33Generate(r, i)
		desc := c.desc()
		multi := strings.HasPrefix(c.Mode, "multi")
		viol := func(sig, what string, extra map[string]any) {
			d := map[string]any{"mode": c.Mode, "case": desc}
			tracks := make([]map[string]any, len(c.Tracks))
			for k, tr := range c.Tracks {
				tracks[k] = map[string]any{"ssrc": tr.SSRC, "serial": tr.Serial, "serial_set": tr.SerialSet, "rate": tr.SampleRate, "family": tr.Family, "channels": tr.Channels,
					"coupled": tr.Coupled, "mapping": kit.Hex(tr.Mapping), "vendor_len": len(tr.Vendor), "comments": len(tr.Comments)}
			}
			d["tracks"] = tracks
			total := 0
			for _, op := range c.Ops {
				total += len(op.Payload)
			}
			if total <= 8192 {
				ops := make([]string, len(c.Ops))
				for k, op := range c.Ops {
					ops[k] = fmt.Sprintf("t%d %s %s", op.Track, op.Kind, kit.Hex(op.Payload))
				}
				d["ops_hex"] = ops
			}
			for k, v := range extra {
				d[k] = v
			}
			run.Violation(sig, what+" ("+c.Mode+")", i, d)
		}

		// ---------------- write
		var out []byte
		{
			var buf bytes.Buffer
			mem := &c33MemFile{}
			path := filepath.Join(tmp, fmt.Sprintf("c33-%d.ogg", i))
			var write []func(*rtp.Packet) error
			var closeFn func() error
			if !multi {
				tr := c.Tracks[0]
				var w *oggwriter.OggWriter
				var err error
				switch c.Mode {
				case "single-newwith-plain":
					w, err = oggwriter.NewWith(c33PlainWriter{&buf}, tr.SampleRate, uint16(tr.Channels))
				case "single-newwith-seekable":
					w, err = oggwriter.NewWith(mem, tr.SampleRate, uint16(tr.Channels))
				default:
					w, err = oggwriter.New(path, tr.SampleRate, uint16(tr.Channels))
				}
				if err != nil {
					viol("constructor-error:single", fmt.Sprintf("constructor failed for a valid configuration: %v", err), nil)

					return
				}
				write = []func(*rtp.Packet) error{w.WriteRTP}
				closeFn = w.Close
			} else {
				var sink io.Writer
				var fd *os.File
				opts := append([]oggwriter.WriterOption(nil), c.wopts...)
				switch c.Mode {
				case "multi-plain":
					sink = c33PlainWriter{&buf}
				case "multi-seekable":
					sink = mem
					opts = append(opts, oggwriter.WithSeekableOutput(mem))
				default:
					var err error
					fd, err = os.Create(path)
					if err != nil {
						run.Inconclusive("tempfile-create-failed")

						return
					}
					sink = fd
					opts = append(opts, oggwriter.WithSeekableOutput(fd))
				}
				w, err := oggwriter.NewWriter(sink, opts...)
				if err != nil {
					viol("constructor-error:multi", fmt.Sprintf("NewWriter failed for a valid configuration: %v", err), nil)

					return
				}
				for k, tr := range c.Tracks {
					trk, err := w.NewTrack(tr.SSRC, tr.opts...)
					if err != nil {
						viol("constructor-error:track", fmt.Sprintf("NewTrack(%d) failed for a valid configuration: %v", k, err), nil)

						return
					}
					write = append(write, trk.WriteRTP)
				}
				closeFn = w.Close
			}
			seq := uint16(r.Intn(65536))
			var rx []byte // "reuse": the one receive buffer
			var rxPkt rtp.Packet
			if c.Buf == "reuse" {
				maxLen := 0
				for _, op := range c.Ops {
					maxLen = max(maxLen, len(op.Payload))
				}
				rx = make([]byte, 12+maxLen)
			}
			for k, op := range c.Ops {
				tr := c.Tracks[op.Track]
				seq++
				hdr := rtp.Header{Version: 2, PayloadType: 111, SequenceNumber: seq, Timestamp: r.Uint32(), SSRC: tr.SSRC}
				var pkt *rtp.Packet
				if c.Buf == "reuse" {
					hn, merr := hdr.MarshalTo(rx)
					if merr != nil {
						run.Inconclusive("rtp-header-marshal-failed")

						return
					}
					pn := copy(rx[hn:], op.Payload)
					if uerr := rxPkt.Unmarshal(rx[:hn+pn]); uerr != nil || len(rxPkt.Payload) != len(op.Payload) {
						run.Inconclusive("rtp-unmarshal-failed")

						return
					}
					pkt = &rxPkt
				} else {
					pkt = &rtp.Packet{Header: hdr, Payload: append([]byte(nil), op.Payload...)}
				}
				live := pkt.Payload
				err := write[op.Track](pkt)
				// WriteRTP has returned: packet and payload are the caller's again
				if c.Buf == "scribble" {
					c.scribble(r, live)
					pkt.Header = rtp.Header{}
					run.Count("payload_buffers_overwritten_after_write", 1)
				} else if c.Buf == "reuse" {
					run.Count("payload_buffers_overwritten_after_write", 1) // by the next packet, or by the final scribble below
				}
				samples, valid := c33PacketSamples(op.Payload)
				switch {
				case op.Kind == "empty":
					if err != nil {
						run.Count("model_divergence", 1)
						run.Seen("divergence", "empty-payload-returns-error")
					}
				case valid && err != nil:
					viol("write-error:valid-packet", fmt.Sprintf("WriteRTP rejected a well-formed Opus packet (op %d, TOC %02x, %d bytes): %v", k, op.Payload[0], len(op.Payload), err), nil)
				case valid:
					tr.accepted = append(tr.accepted, op.Payload)
					tr.live = append(tr.live, live)
					tr.samples = append(tr.samples, samples)
				case err == nil:
					// malformed but accepted: it is now a "written packet"; its duration is undefined, so stop checking granules of this track
					run.Count("model_divergence", 1)
					run.Seen("divergence", "accepted-"+op.Kind)
					tr.accepted = append(tr.accepted, op.Payload)
					tr.live = append(tr.live, live)
					tr.samples = append(tr.samples, 0)
					tr.granuleUnknown = true
				default:
					run.Seen("rejected", op.Kind)
				}
			}
			if c.Buf == "reuse" {
				c.scribble(r, rx) // the loop read once more (or handed the buffer back) before the writer is closed
			}
			if err := closeFn(); err != nil {
				viol("close-error", fmt.Sprintf("Close failed: %v", err), nil)

				return
			}
			switch c.Mode {
			case "single-newwith-plain", "multi-plain":
				out = buf.Bytes()
			case "single-newwith-seekable", "multi-seekable":
				out = mem.data
			default:
				b, err := os.ReadFile(path)
				_ = os.Remove(path)
				if err != nil {
					run.Inconclusive("tempfile-read-failed")

					return
				}
				out = b
			}
		}

		nData, anyLong := 0, false
		for _, tr := range c.Tracks {
			nData += len(tr.accepted)
			for _, p := range tr.accepted {
				if len(p) >= 255 {
					anyLong = true
				}
				run.Seen("toc_config_x_code", fmt.Sprintf("%02d/%d", p[0]>>3, p[0]&3))
			}
		}
		run.Case(desc, nData >= 3 && (anyLong || len(c.Tracks) >= 2))
		run.Seen("mode", c.Mode)
		run.Seen("mode_x_buffer_discipline", c.Mode+"/"+c.Buf)
		run.Seen("tracks", fmt.Sprint(len(c.Tracks)))
		run.Count("data_packets", nData)
		run.Count("output_bytes", len(out))
		for _, tr := range c.Tracks {
			run.Seen("mapping_family", fmt.Sprint(tr.Family))
		}
		if i < 3 {
			s := desc
			if len(s) > 400 {
				s = s[:400] + "…"
			}
			run.Sample(map[string]any{"case": i, "desc": s, "output_bytes": len(out)})
		}

		// ---------------- independent parse
		pages, perr := c33ParsePages(out)
		if perr != nil {
			viol("not-ogg", fmt.Sprintf("output is not a sequence of Ogg pages: %v", perr), map[string]any{"out_len": len(out)})

			return
		}
		run.Count("pages", len(pages))
		var order []uint32
		streams := map[uint32][]int{}
		for k, p := range pages {
			if p.CRC != p.CRCCalc {
				viol("crc-mismatch", fmt.Sprintf("page %d (serial %d seq %d, offset %d): stored CRC %08x, computed %08x", k, p.Serial, p.Seq, p.Off, p.CRC, p.CRCCalc), nil)
			}
			if _, ok := streams[p.Serial]; !ok {
				order = append(order, p.Serial)
			}
			streams[p.Serial] = append(streams[p.Serial], k)
		}
		if len(order) != len(c.Tracks) {
			viol("stream-count", fmt.Sprintf("%d logical streams in the output, %d tracks configured", len(order), len(c.Tracks)), nil)

			return
		}
		kind := "single-track"
		if multi {
			kind = "multi-track"
		}
		sinkKind := map[string]string{"single-newwith-plain": "non-seekable", "single-newwith-seekable": "non-seekable", "single-file": "file",
			"multi-plain": "non-seekable", "multi-seekable": "seekable", "multi-file": "file"}[c.Mode]

		streamPackets := make([][]c33Packet, len(c.Tracks))
		for ti, tr := range c.Tracks {
			// logical streams appear in track order (their BOS pages are written in NewTrack order)
			serial := order[ti]
			if tr.SerialSet && serial != tr.Serial {
				viol("serial-mismatch", fmt.Sprintf("track %d: stream serial %d, configured %d", ti, serial, tr.Serial), nil)

				return
			}
			idxs := streams[serial]
			// --- page flags, sequence numbers
			seqFrom0 := true
			for k, pi := range idxs {
				if pages[pi].Seq != uint32(k) {
					seqFrom0 = false
				}
			}
			if !seqFrom0 {
				seqs := make([]uint32, 0, len(idxs))
				for _, pi := range idxs {
					seqs = append(seqs, pages[pi].Seq)
				}
				if len(seqs) > 40 {
					seqs = seqs[:40]
				}
				viol("page-sequence", fmt.Sprintf("track %d: page sequence numbers are not 0,1,2,…: %v", ti, seqs), nil)
			}
			if pages[idxs[0]].HType&0x02 == 0 {
				viol("bos-missing", fmt.Sprintf("track %d: first page header type %02x has no beginning-of-stream flag", ti, pages[idxs[0]].HType), nil)
			}
			for k, pi := range idxs[1:] {
				if pages[pi].HType&0x02 != 0 {
					viol("bos-on-later-page", fmt.Sprintf("track %d: page %d carries beginning-of-stream", ti, k+1), nil)

					break
				}
			}
			last := pages[idxs[len(idxs)-1]]
			if last.HType&0x04 == 0 {
				viol("no-eos:"+kind+":"+sinkKind, fmt.Sprintf("track %d: last page of the logical stream (seq %d, %d segments, granule %d) has header type %02x: no end-of-stream flag",
					ti, last.Seq, len(last.Segs), last.Granule, last.HType), map[string]any{"pages_in_stream": len(idxs), "data_packets": len(tr.accepted)})
			} else {
				run.Seen("eos_form", fmt.Sprintf("%s:%s:%dsegs", kind, sinkKind, min(len(last.Segs), 2)))
			}
			for _, pi := range idxs[:len(idxs)-1] {
				if pages[pi].HType&0x04 != 0 {
					run.Count("model_divergence", 1)
					run.Seen("divergence", "eos-before-last-page")
				}
			}
			// --- packet reassembly with lacing, continued flags, granules
			var pkts []c33Packet
			var cur []byte
			open, startPage := false, 0
			cum := uint64(0)
			lastGranule := uint64(0)
			granuleBad := false
			for k, pi := range idxs {
				p := pages[pi]
				if (p.HType&0x01 != 0) != open {
					viol("continued-flag", fmt.Sprintf("track %d page %d: continued-packet flag is %v but the previous page left a packet open=%v", ti, k, p.HType&0x01 != 0, open), nil)

					return
				}
				if open {
					run.Count("continued_pages", 1)
				}
				completed := 0
				off := 0
				for _, s := range p.Segs {
					if !open {
						open, startPage, cur = true, k, nil
					}
					cur = append(cur, p.Body[off:off+int(s)]...)
					off += int(s)
					if s < 255 {
						pkts = append(pkts, c33Packet{Data: cur, StartPage: startPage, EndPage: k})
						open, cur = false, nil
						completed++
						if n := len(pkts) - 3; n >= 0 && n < len(tr.samples) {
							cum += uint64(tr.samples[n])
						}
					}
				}
				if !tr.granuleUnknown && !granuleBad {
					switch {
					case p.Granule == c33NoGranule && completed == 0:
						run.Count("pages_without_granule", 1)
					case p.Granule != cum:
						granuleBad = true
						viol("granule-mismatch", fmt.Sprintf("track %d page %d (seq %d): granule position %d, cumulative Opus sample count %d (%d packets complete so far)",
							ti, k, p.Seq, p.Granule, cum, len(pkts)), nil)
					case p.Granule < lastGranule:
						granuleBad = true
						viol("granule-decrease", fmt.Sprintf("track %d page %d: granule %d after %d", ti, k, p.Granule, lastGranule), nil)
					default:
						lastGranule = p.Granule
					}
				}
			}
			if open {
				viol("unterminated-packet", fmt.Sprintf("track %d: the last packet of the stream is not terminated (last lacing value 255)", ti), nil)

				return
			}
			streamPackets[ti] = pkts
			// --- headers
			if len(pkts) < 2 {
				viol("missing-headers", fmt.Sprintf("track %d: stream holds %d packets, need OpusHead and OpusTags", ti, len(pkts)), nil)

				return
			}
			head, err := c33ParseHead(pkts[0].Data)
			if err != nil {
				viol("opushead-malformed", fmt.Sprintf("track %d: %v: %s", ti, err, c33Hex(pkts[0].Data)), nil)

				return
			}
			if pkts[0].StartPage != 0 || pkts[0].EndPage != 0 || pkts[1].StartPage != 1 || (len(pkts) > 2 && pkts[2].StartPage <= pkts[1].EndPage) {
				viol("header-page-layout", fmt.Sprintf("track %d: OpusHead on pages %d..%d, OpusTags on pages %d..%d, first data packet starts on page %d",
					ti, pkts[0].StartPage, pkts[0].EndPage, pkts[1].StartPage, pkts[1].EndPage, func() int {
						if len(pkts) > 2 {
							return pkts[2].StartPage
						}

						return -1
					}()), nil)
			}
			if head.Version != 1 || head.Channels != tr.Channels || head.Rate != tr.SampleRate || head.Family != tr.Family ||
				(tr.Family != 0 && (head.Streams != tr.Streams || head.Coupled != tr.Coupled || !bytes.Equal(head.Mapping, tr.Mapping))) {
				viol("opushead-mismatch", fmt.Sprintf("track %d: OpusHead %+v, configured channels=%d rate=%d family=%d streams=%d coupled=%d mapping=%x",
					ti, head, tr.Channels, tr.SampleRate, tr.Family, tr.Streams, tr.Coupled, tr.Mapping), nil)
			}
			vendor, comments, err := c33ParseTags(pkts[1].Data)
			if err != nil {
				viol("opustags-malformed", fmt.Sprintf("track %d: %v", ti, err), nil)

				return
			}
			if tr.VendorSet && vendor != tr.Vendor {
				viol("opustags-mismatch:vendor", fmt.Sprintf("track %d: vendor %q, configured %q", ti, c33Trunc(vendor), c33Trunc(tr.Vendor)), nil)
			}
			if multi {
				want := make([]string, len(tr.Comments))
				for k, cm := range tr.Comments {
					want[k] = cm.Name + "=" + cm.Value
				}
				if strings.Join(comments, "\x00") != strings.Join(want, "\x00") || len(comments) != len(want) {
					viol("opustags-mismatch:comments", fmt.Sprintf("track %d: %d comments read, %d configured (or contents differ)", ti, len(comments), len(want)), nil)
				}
			}
			if pkts[1].EndPage > pkts[1].StartPage {
				run.Count("multi_page_opustags", 1)
			}
			// --- data packets
			data := pkts[2:]
			if len(data) != len(tr.accepted) {
				viol("packet-count", fmt.Sprintf("track %d: %d data packets read back, %d written", ti, len(data), len(tr.accepted)), nil)
			}
			for k := 0; k < len(data) && k < len(tr.accepted); k++ {
				if !bytes.Equal(data[k].Data, tr.accepted[k]) {
					// cause: do all differing bytes hold what the CALLER's buffer holds now (the writer kept a reference
					// to the payload slice beyond WriteRTP instead of a copy)?
					sig := "packet-bytes"
					if lv := tr.live[k]; c.Buf != "fresh" && len(data[k].Data) == len(tr.accepted[k]) && len(lv) == len(tr.accepted[k]) {
						aliased := true
						for j, b := range data[k].Data {
							if b != tr.accepted[k][j] && b != lv[j] {
								aliased = false

								break
							}
						}
						if aliased {
							sig = "packet-bytes:caller-buffer-retained-after-write:" + kind + ":" + sinkKind
						}
					}
					viol(sig, fmt.Sprintf("track %d data packet %d: read %d bytes, written %d bytes, first difference at %d", ti, k, len(data[k].Data), len(tr.accepted[k]),
						c33FirstDiff(data[k].Data, tr.accepted[k])), nil)

					break
				}
				if data[k].EndPage > data[k].StartPage {
					run.Count("multi_page_packets", 1)
				}
			}
		}

		// ---------------- oggreader over the same bytes
		rd, err := oggreader.NewWithOptions(bytes.NewReader(out))
		if err != nil {
			viol("reader-error", fmt.Sprintf("oggreader.NewWithOptions: %v", err), nil)

			return
		}
		for k := 0; ; k++ {
			payload, ph, err := rd.ParseNextPage()
			if errors.Is(err, io.EOF) {
				if k != len(pages) {
					viol("reader-page-count", fmt.Sprintf("oggreader returned %d pages, the output holds %d", k, len(pages)), nil)
				}

				break
			}
			if err != nil {
				viol("reader-error", fmt.Sprintf("oggreader.ParseNextPage #%d: %v", k, err), nil)

				return
			}
			if k >= len(pages) || !bytes.Equal(payload, pages[k].Body) || ph.GranulePosition != pages[k].Granule || ph.Serial != pages[k].Serial {
				viol("reader-page-mismatch", fmt.Sprintf("oggreader page %d differs from the bytes on disk (payload %d bytes, granule %d, serial %d)", k, len(payload), ph.GranulePosition, ph.Serial), nil)

				return
			}
			if pages[k].HType&0x02 != 0 {
				if ht, ok := ph.HeaderType(payload); !ok || ht != oggreader.HeaderOpusID {
					viol("reader-head-classification", fmt.Sprintf("oggreader does not classify BOS page %d as OpusHead (%q, %v)", k, ht, ok), nil)
				}
			}
		}
		run.Count("reader_pages", len(pages))
		if _, h0, err := oggreader.NewWith(bytes.NewReader(out)); err != nil {
			viol("reader-error:newwith", fmt.Sprintf("oggreader.NewWith: %v", err), nil)
		} else if tr := c.Tracks[0]; h0.Version != 1 || h0.Channels != tr.Channels || h0.SampleRate != tr.SampleRate || h0.ChannelMap != tr.Family ||
			(tr.Family != 0 && (h0.StreamCount != tr.Streams || h0.CoupledCount != tr.Coupled || h0.ChannelMapping != string(tr.Mapping))) {
			viol("reader-header-mismatch", fmt.Sprintf("oggreader.NewWith header %+v, configured channels=%d rate=%d family=%d", *h0, tr.Channels, tr.SampleRate, tr.Family), nil)
		}
		for ti, tr := range c.Tracks {
			pk := streamPackets[ti]
			if len(pk) < 2 {
				continue
			}
			h, err := oggreader.ParseOpusHead(pk[0].Data)
			if err != nil {
				viol("reader-error:opushead", fmt.Sprintf("track %d: oggreader.ParseOpusHead: %v", ti, err), nil)
			} else if h.Version != 1 || h.Channels != tr.Channels || h.SampleRate != tr.SampleRate || h.ChannelMap != tr.Family ||
				(tr.Family != 0 && (h.StreamCount != tr.Streams || h.CoupledCount != tr.Coupled || h.ChannelMapping != string(tr.Mapping))) {
				viol("reader-header-mismatch", fmt.Sprintf("track %d: oggreader.ParseOpusHead %+v, configured channels=%d rate=%d family=%d", ti, *h, tr.Channels, tr.SampleRate, tr.Family), nil)
			}
			tags, err := oggreader.ParseOpusTags(pk[1].Data)
			if err != nil {
				viol("reader-error:opustags", fmt.Sprintf("track %d: oggreader.ParseOpusTags: %v", ti, err), nil)

				continue
			}
			if tr.VendorSet && tags.Vendor != tr.Vendor {
				viol("reader-tags-mismatch", fmt.Sprintf("track %d: oggreader vendor %q, configured %q", ti, c33Trunc(tags.Vendor), c33Trunc(tr.Vendor)), nil)
			}
			if multi {
				ok := len(tags.UserComments) == len(tr.Comments)
				for k := 0; ok && k < len(tr.Comments); k++ {
					ok = tags.UserComments[k].Comment == tr.Comments[k].Name && tags.UserComments[k].Value == tr.Comments[k].Value
				}
				if !ok {
					viol("reader-tags-mismatch", fmt.Sprintf("track %d: oggreader returned %d comments, %d configured (or contents differ)", ti, len(tags.UserComments), len(tr.Comments)), nil)
				}
			}
		}
	})
}

func c33Trunc(s string) string {
	if len(s) > 60 {
		return fmt.Sprintf("%s…(%d bytes)", s[:60], len(s))
	}

	return s
}

func c33Hex(b []byte) string {
	if len(b) > 64 {
		return kit.Hex(b[:64]) + "…"
	}

	return kit.Hex(b)
}

func c33FirstDiff(a, b []byte) int {
	n := min(len(a), len(b))
	for i := 0; i < n; i++ {
		if a[i] != b[i] {
			return i
		}
	}
	if len(a) != len(b) {
		return n
	}

	return -1
}
