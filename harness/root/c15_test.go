package webrtc

// C15 — negotiated codecs are the remote's offered codecs that match local ones.
//
// Oracle (independent re-implementation of the stated rule, no code shared with mediaengine.go / rtpcodec.go /
// internal/fmtp): after every applied remote description
//   (1) every negotiated codec of a kind was offered by the remote for that kind (same payload type, mime,
//       clock rate, channels) and is matched at least partially (mime, clock, channels with the documented
//       defaults) by a locally registered codec;
//   (2) it carries the remote's payload type;
//   (3) a codec that only matches partially is not taken from a section that also offers an exactly matching one;
//       this includes retransmission codecs, whose apt is a reference (remote apt -> codec of the remote section,
//       local apt -> local codec): an offered rtx is matched exactly only by a local rtx registration that repairs a
//       local codec matching the one the offered rtx repairs (c15RtxClass), a bare mime/clock match is partial;
//   (4) its RTCP feedback is a subset of the remote's feedback for that payload type and of a matching local
//       codec's feedback, and (for newly negotiated entries) equals such an intersection;
//   (5) getCodecByPayload(pt) returns the negotiated codec whenever pt is in the negotiated set, even if a
//       different local codec is registered on the same number.
// Observed white-box (MediaEngine.negotiated{Video,Audio}Codecs, getCodecByPayload) and black-box
// (RTPSender/RTPReceiver.GetParameters after PeerConnection.SetRemoteDescription).

import (
	"fmt"
	"sort"
	"strconv"
	"strings"
	"testing"

	"github.com/pion/sdp/v3"
	kit "github.com/pion/webrtc/v4/internal/verifkit"
)

// ---------------------------------------------------------------- model

type c15Codec struct {
	PT    int      `json:"pt"`
	Mime  string   `json:"mime"`
	Clock uint32   `json:"clock"`
	Ch    uint16   `json:"ch"`
	Fmtp  string   `json:"fmtp"`
	Fb    []string `json:"fb"`
}

func (c c15Codec) String() string {
	return fmt.Sprintf("%d=%s/%d/%d{%s}[%s]", c.PT, c.Mime, c.Clock, c.Ch, c.Fmtp, strings.Join(c.Fb, ","))
}

func c15FromParams(p RTPCodecParameters) c15Codec {
	c := c15Codec{PT: int(p.PayloadType), Mime: p.MimeType, Clock: p.ClockRate, Ch: p.Channels, Fmtp: p.SDPFmtpLine}
	for _, f := range p.RTCPFeedback {
		s := f.Type
		if f.Parameter != "" {
			s += " " + f.Parameter
		}
		c.Fb = append(c.Fb, s)
	}

	return c
}

func c15FromList(ps []RTPCodecParameters) []c15Codec {
	out := make([]c15Codec, 0, len(ps))
	for _, p := range ps {
		out = append(out, c15FromParams(p))
	}

	return out
}

// documented defaults: omitted clock rate = 48000 (opus), 8000 (PCMU/PCMA), 90000 (video); omitted channels = 2 (opus) else 1.
func c15Clock(c c15Codec) uint32 {
	if c.Clock != 0 {
		return c.Clock
	}
	m := strings.ToLower(c.Mime)
	switch m {
	case "audio/opus":
		return 48000
	case "audio/pcmu", "audio/pcma":
		return 8000
	}
	if strings.HasPrefix(m, "video/") {
		return 90000
	}

	return 0
}

func c15Chans(c c15Codec) uint16 {
	if c.Ch != 0 {
		return c.Ch
	}
	if strings.ToLower(c.Mime) == "audio/opus" {
		return 2
	}

	return 1
}

func c15SameCodec(a, b c15Codec) bool {
	return strings.EqualFold(a.Mime, b.Mime) && c15Clock(a) == c15Clock(b) && c15Chans(a) == c15Chans(b)
}

// c15ParseFmtp: key=value;key=value. odd = the line uses something the statement does not fix (upper-case keys, duplicates).
func c15ParseFmtp(line string) (map[string]string, bool) {
	out := map[string]string{}
	odd := false
	for _, seg := range strings.Split(line, ";") {
		seg = strings.TrimSpace(seg)
		if seg == "" {
			continue
		}
		k, v, _ := strings.Cut(seg, "=")
		lk := strings.ToLower(k)
		if lk != k {
			odd = true
		}
		if _, dup := out[lk]; dup {
			odd = true
		}
		out[lk] = v
	}

	return out, odd
}

func c15IsHex6(s string) bool {
	if len(s) != 6 {
		return false
	}
	for _, ch := range s {
		if !(ch >= '0' && ch <= '9' || ch >= 'a' && ch <= 'f' || ch >= 'A' && ch <= 'F') {
			return false
		}
	}

	return true
}

// c15FmtpRel is the codec specific fmtp rule. strict = matches under the narrowest reading of the statement,
// lenient = matches under the widest one; strict != lenient means "the statement does not decide this pair".
func c15FmtpRel(a, b c15Codec) (strict, lenient bool) {
	pa, oddA := c15ParseFmtp(a.Fmtp)
	pb, oddB := c15ParseFmtp(b.Fmtp)
	odd := oddA || oddB
	def := func(m map[string]string, k, d string) string {
		if v, ok := m[k]; ok {
			return v
		}

		return d
	}
	switch strings.ToLower(a.Mime) {
	case "video/h264":
		pma, oka := pa["packetization-mode"]
		pmb, okb := pb["packetization-mode"]
		pla, plb := pa["profile-level-id"], pb["profile-level-id"]
		if !oka || !okb || !c15IsHex6(pla) || !c15IsHex6(plb) || odd {
			return false, true // absent / malformed parameters: defaults are not fixed by the statement
		}
		eq := pma == pmb && strings.EqualFold(pla[:4], plb[:4])

		return eq, eq
	case "video/vp9":
		eq := def(pa, "profile-id", "0") == def(pb, "profile-id", "0")
		if odd {
			return false, true
		}

		return eq, eq
	case "video/av1":
		eq := def(pa, "profile", "0") == def(pb, "profile", "0")
		if odd {
			return false, true
		}

		return eq, eq
	}
	strict, lenient = true, true
	for k, va := range pa {
		vb, ok := pb[k]
		if !ok || va == vb {
			continue
		}
		strict = false
		if !strings.EqualFold(va, vb) {
			lenient = false
		}
	}
	if odd {
		strict = false
	}

	return strict, lenient
}

const (
	c15None    = 0
	c15Partial = 1
	c15Exact   = 2
)

// c15Class classifies an offered codec against the local registrations (strict / lenient reading).
func c15Class(o c15Codec, local []c15Codec) (strict, lenient int) {
	for _, l := range local {
		if !c15SameCodec(l, o) {
			continue
		}
		s, le := c15FmtpRel(l, o)
		cs, cl := c15Partial, c15Partial
		if s {
			cs = c15Exact
		}
		if le {
			cl = c15Exact
		}
		if cs > strict {
			strict = cs
		}
		if cl > lenient {
			lenient = cl
		}
	}

	return strict, lenient
}

func c15HasApt(c c15Codec) bool {
	p, _ := c15ParseFmtp(c.Fmtp)
	_, ok := p["apt"]

	return ok
}

// c15RtxClass classifies an offered retransmission codec x (its fmtp carries apt=<remote payload type>) of the
// section `sec` against the local registrations. An apt value is a reference, not a number with a meaning of its
// own: the remote's apt names a codec M of the same section, a local rtx registration's apt names a local codec N.
//
//	lenient (widest reading of "matched exactly"): some local codec L with x's mime/clock/channels
//	  - carries no apt at all (nothing to disagree on), or
//	  - refers to a local codec N that has the mime/clock/channels of M (whatever the fmtp relation of N and M), or
//	  - carries literally the same apt number as x;
//	strict (narrowest reading): L refers to an N that matches M exactly under the narrowest reading.
//
// Anything else that shares mime/clock/channels with a local codec is a partial match only: the local side has a
// retransmission codec, but none that repairs the codec the remote wants to repair with x.
func c15RtxClass(x c15Codec, sec c15Sec, local []c15Codec) (strict, lenient int) {
	px, _ := c15ParseFmtp(x.Fmtp)
	apt, aptErr := strconv.Atoi(px["apt"])
	var prim *c15Codec
	if aptErr == nil {
		for k := range sec.Codecs {
			if sec.Codecs[k].PT == apt && sec.Codecs[k].PT != x.PT {
				prim = &sec.Codecs[k]

				break
			}
		}
	}
	for _, l := range local {
		if !c15SameCodec(l, x) {
			continue
		}
		if strict < c15Partial {
			strict = c15Partial
		}
		if lenient < c15Partial {
			lenient = c15Partial
		}
		pl, _ := c15ParseFmtp(l.Fmtp)
		lapt, has := pl["apt"]
		if !has {
			lenient = c15Exact

			continue
		}
		if lapt == px["apt"] {
			lenient = c15Exact
		}
		q, err := strconv.Atoi(lapt)
		if err != nil || prim == nil {
			continue
		}
		for _, n := range local {
			if n.PT != q || !c15SameCodec(n, *prim) {
				continue
			}
			lenient = c15Exact
			if s, _ := c15FmtpRel(n, *prim); s && !c15HasApt(n) && !c15HasApt(*prim) {
				strict = c15Exact
			}
		}
	}

	return strict, lenient
}

func c15Set(xs []string) map[string]bool {
	m := map[string]bool{}
	for _, x := range xs {
		m[x] = true
	}

	return m
}

func c15SetFold(xs []string) map[string]bool {
	m := map[string]bool{}
	for _, x := range xs {
		m[strings.ToLower(x)] = true
	}

	return m
}

// ---------------------------------------------------------------- independent view of the remote description

type c15Sec struct {
	Kind   string
	Codecs []c15Codec
}

var c15Static = map[int]c15Codec{ //nolint:gochecknoglobals // RFC 3551 static payload types usable without rtpmap
	0: {PT: 0, Mime: "PCMU", Clock: 8000},
	8: {PT: 8, Mime: "PCMA", Clock: 8000},
	9: {PT: 9, Mime: "G722", Clock: 8000},
}

func c15Offered(text string) ([]c15Sec, error) {
	d, err := kit.ParseSDP(text)
	if err != nil {
		return nil, err
	}
	var out []c15Sec
	for _, m := range d.Media {
		kind := strings.ToLower(m.Kind)
		if kind != "audio" && kind != "video" {
			continue
		}
		sec := c15Sec{Kind: kind}
		rm := map[string]kit.RtpMap{}
		for _, x := range m.RtpMaps() {
			if _, ok := rm[x.PT]; !ok {
				rm[x.PT] = x
			}
		}
		fm := map[string]string{}
		for _, v := range m.AttrAll("fmtp") {
			pt, rest, ok := strings.Cut(v, " ")
			if _, dup := fm[pt]; ok && !dup {
				fm[pt] = rest
			}
		}
		fb := map[string][]string{}
		for _, v := range m.AttrAll("rtcp-fb") {
			pt, rest, ok := strings.Cut(v, " ")
			if ok {
				fb[pt] = append(fb[pt], strings.TrimSpace(rest))
			}
		}
		seen := map[string]bool{}
		for _, f := range m.Formats {
			if seen[f] {
				continue
			}
			seen[f] = true
			pt, err := strconv.Atoi(f)
			if err != nil || pt < 0 || pt > 255 {
				continue
			}
			var c c15Codec
			if x, ok := rm[f]; ok {
				clk, _ := strconv.ParseUint(x.Clock, 10, 32)
				ch, _ := strconv.ParseUint(x.Channels, 10, 16)
				c = c15Codec{PT: pt, Mime: kind + "/" + x.Name, Clock: uint32(clk), Ch: uint16(ch)}
			} else if s, ok := c15Static[pt]; ok {
				c = s
				c.Mime = kind + "/" + s.Mime
			} else {
				continue
			}
			c.Fmtp = fm[f]
			c.Fb = append(append([]string{}, fb[f]...), fb["*"]...)
			sec.Codecs = append(sec.Codecs, c)
		}
		out = append(out, sec)
	}

	return out, nil
}

// ---------------------------------------------------------------- oracle

type c15Oracle struct {
	run     *kit.Run
	idx     int
	mode    string
	local   map[string][]c15Codec // kind -> locally registered
	offered map[string][]c15Codec // kind -> everything the remote offered so far (all rounds, all sections)
	seen    map[string]bool       // kinds that appeared in an applied remote description
	prev    map[string][]c15Codec // negotiated sets before the current round
	texts   []string
	legal   []bool
	multi   bool

	ptDiffers bool // some negotiated codec carries a PT no matching local codec has
	anyNeg    bool
	mixedSecs int

	rtxPartialBesideExact   int // offered rtx that is only a partial match, in a section that also offers an exact match
	rtxPartialNotNegotiated int // ... and that is absent from the negotiated set afterwards
	rtxExactBesideExact     int
	collisions              int
	newEntries              int
	divergences             []string

	// binding observations (c15_bind_test.go): what a bound TrackLocal is told to use
	dry         bool     // collect the signatures entryChecks would report instead of reporting them
	dryHits     []string //
	bindLog     []string // driver operations of a bind case, for the replay file
	bindsJudged int
	bindTrail   map[string]any
	prefTr      map[*RTPTransceiver]bool // transceivers with workload-set codec preferences
}

func (o *c15Oracle) detail(extra map[string]any) map[string]any {
	d := map[string]any{
		"mode": o.mode, "multi_codec": o.multi, "local_video": o.local["video"], "local_audio": o.local["audio"],
		"remote_descriptions": o.texts, "bundle_consistent_payload_types": o.legal,
	}
	if len(o.bindLog) > 0 {
		d["operations"] = o.bindLog
	}
	for k, v := range o.bindTrail {
		d[k] = v
	}
	for k, v := range extra {
		d[k] = v
	}

	return d
}

func (o *c15Oracle) diverge(kind string) {
	o.run.Count("model_divergence", 1)
	o.run.Seen("divergence_kinds", kind)
	o.divergences = append(o.divergences, kind)
}

func (o *c15Oracle) violation(sig, what string, extra map[string]any) {
	if o.dry {
		o.dryHits = append(o.dryHits, sig)

		return
	}
	if o.bindTrail != nil {
		what = fmt.Sprintf("track bound by %v (%v): %s", o.bindTrail["bind_path"], o.bindTrail["bind_step"], what)
	}
	o.run.Violation(sig, fmt.Sprintf("[%s] %s", o.mode, what), o.idx, o.detail(extra))
}

// clockBlind recognises one specific cause so that it gets one signature wherever it surfaces: H264/VP9/AV1 are
// compared by their fmtp parameters only, so a codec whose clock rate / channel count differs from the local
// registration (or from what the remote offered under this payload type) is treated as an exact match.
func (o *c15Oracle) clockBlind(kind string, e c15Codec, ptNotOffered bool) (sig, why string) {
	switch strings.ToLower(e.Mime) {
	case "video/h264", "video/vp9", "video/av1":
	default:
		return "", ""
	}
	localSame, localMime := false, false
	for _, l := range o.local[kind] {
		if strings.EqualFold(l.Mime, e.Mime) {
			localMime = true
			if c15SameCodec(l, e) {
				localSame = true
			}
		}
	}
	if localMime && !localSame {
		return "exact-match-ignores-clock-or-channels", fmt.Sprintf("no local %s registration has clock %d / channels %d (local: %v)",
			e.Mime, c15Clock(e), c15Chans(e), o.local[kind])
	}
	if ptNotOffered {
		for _, x := range o.offered[kind] {
			if x.PT == e.PT && strings.EqualFold(x.Mime, e.Mime) && !c15SameCodec(x, e) {
				return "exact-match-ignores-clock-or-channels", fmt.Sprintf("payload type %d was offered as %s, i.e. with another clock rate / channel count", e.PT, x)
			}
		}
	}

	return "", ""
}

// entryChecks asserts claims (1), (2), (4 ⊆) for one codec that the implementation uses for `kind`.
func (o *c15Oracle) entryChecks(prefix, kind string, e c15Codec) {
	// (1)+(2) offered by the remote under this payload type
	var sameID, samePT []c15Codec
	for _, x := range o.offered[kind] {
		if c15SameCodec(x, e) {
			sameID = append(sameID, x)
			if x.PT == e.PT {
				samePT = append(samePT, x)
			}
		}
	}
	if sig, why := o.clockBlind(kind, e, len(samePT) == 0); sig != "" {
		if strings.HasPrefix(prefix, "bind:") {
			sig = prefix + sig // a codec handed to a track although it is not the negotiated entry: the binding path is part of the cause
		}
		o.violation(sig, fmt.Sprintf("%s%s codec %s in use: %s", prefix, kind, e, why), map[string]any{"entry": e, "observed_at": prefix})

		return
	}
	switch {
	case len(sameID) == 0:
		o.violation(prefix+"negotiated-not-offered", fmt.Sprintf("%s codec %s in use but the remote never offered %s/%d/%d for %s",
			kind, e, e.Mime, e.Clock, e.Ch, kind), map[string]any{"entry": e})

		return
	case len(samePT) == 0:
		o.violation(prefix+"negotiated-pt-not-remote", fmt.Sprintf("%s codec %s in use with payload type %d, the remote offered it only as %v",
			kind, e, e.PT, sameID), map[string]any{"entry": e, "offered": sameID})

		return
	}
	// (1) matched by a local codec
	var matching []c15Codec
	for _, l := range o.local[kind] {
		if c15SameCodec(l, e) {
			matching = append(matching, l)
		}
	}
	if len(matching) == 0 {
		reason := "mime"
		for _, l := range o.local[kind] {
			if strings.EqualFold(l.Mime, e.Mime) {
				if c15Clock(l) != c15Clock(e) {
					reason = "clock"
				} else {
					reason = "channels"
				}

				break
			}
		}
		o.violation(prefix+"negotiated-unmatched-locally:"+reason,
			fmt.Sprintf("%s codec %s in use but no locally registered codec has its mime/clock/channels (local: %v)", kind, e, o.local[kind]),
			map[string]any{"entry": e})

		return
	}
	ptKnown := false
	for _, l := range matching {
		if l.PT == e.PT {
			ptKnown = true
		}
	}
	if !ptKnown {
		o.ptDiffers = true
	}
	// (4) feedback ⊆ remote's for this PT, ⊆ one matching local codec's
	remoteFb := map[string]bool{}
	for _, x := range samePT {
		for _, f := range x.Fb {
			remoteFb[strings.ToLower(f)] = true
		}
	}
	for _, f := range e.Fb {
		if !remoteFb[strings.ToLower(f)] {
			o.violation(prefix+"feedback-not-from-remote", fmt.Sprintf("%s codec %s carries feedback %q the remote did not offer for payload type %d (offered %v)",
				kind, e, f, e.PT, samePT), map[string]any{"entry": e, "offered": samePT})

			return
		}
	}
	okLocal := false
	for _, l := range matching {
		ls := c15SetFold(l.Fb)
		all := true
		for _, f := range e.Fb {
			if !ls[strings.ToLower(f)] {
				all = false
			}
		}
		if all {
			okLocal = true
		}
	}
	if !okLocal {
		o.violation(prefix+"feedback-not-from-local", fmt.Sprintf("%s codec %s carries feedback no matching local codec has (matching local: %v)",
			kind, e, matching), map[string]any{"entry": e, "matching_local": matching})
	}
}

// afterRemote is called after every remote description handed to updateFromRemoteDescription.
func (o *c15Oracle) afterRemote(me *MediaEngine, text string) { //nolint:gocognit,cyclop,gocyclo,maintidx
	o.texts = append(o.texts, text)
	secs, err := c15Offered(text)
	if err != nil {
		o.run.Inconclusive("oracle-cannot-parse-own-sdp")

		return
	}
	for _, s := range secs {
		o.offered[s.Kind] = append(o.offered[s.Kind], s.Codecs...)
		o.seen[s.Kind] = true
	}
	me.mu.RLock()
	neg := map[string][]c15Codec{"video": c15FromList(me.negotiatedVideoCodecs), "audio": c15FromList(me.negotiatedAudioCodecs)}
	flags := map[string]bool{"video": me.negotiatedVideo, "audio": me.negotiatedAudio}
	me.mu.RUnlock()

	for _, kind := range []string{"video", "audio"} {
		if len(neg[kind]) > 0 && !flags[kind] {
			o.diverge("negotiated-list-without-flag")
		}
		for _, e := range neg[kind] {
			o.anyNeg = true
			o.entryChecks("", kind, e)
		}
		// entries that appeared in this round
		before := map[int]bool{}
		for _, e := range o.prev[kind] {
			before[e.PT] = true
		}
		negPT := map[int]bool{}
		for _, e := range neg[kind] {
			negPT[e.PT] = true
		}
		for _, s := range secs {
			if s.Kind != kind {
				continue
			}
			hasE, hasP := false, false
			for _, x := range s.Codecs {
				if c15HasApt(x) {
					continue
				}
				cs, cl := c15Class(x, o.local[kind])
				if cs == c15Exact {
					hasE = true
				}
				if cl == c15Partial {
					hasP = true
				}
			}
			if hasE && hasP {
				o.mixedSecs++
			}
			// retransmission codecs the local side can only match partially (it has an rtx registration, but none that
			// repairs the codec this one repairs), offered next to an exactly matching codec
			for _, x := range s.Codecs {
				if !c15HasApt(x) || !hasE {
					continue
				}
				rs, rl := c15RtxClass(x, s, o.local[kind])
				switch {
				case rl == c15Partial:
					o.rtxPartialBesideExact++
					if !negPT[x.PT] {
						o.rtxPartialNotNegotiated++
					}
				case rs == c15Exact:
					o.rtxExactBesideExact++
				}
			}
		}
		for _, e := range neg[kind] {
			if before[e.PT] {
				continue
			}
			o.newEntries++
			// sections of this description that could have produced the entry
			type cand struct {
				sec c15Sec
				off c15Codec
			}
			var cands []cand
			for _, s := range secs {
				if s.Kind != kind {
					continue
				}
				for _, x := range s.Codecs {
					if x.PT == e.PT && c15SameCodec(x, e) {
						cands = append(cands, cand{s, x})

						break
					}
				}
			}
			if len(cands) == 0 {
				continue // already reported by entryChecks, or carried over from an earlier description
			}
			if c15HasApt(e) {
				o.run.Count("rtx_entries_negotiated", 1)
				p, _ := c15ParseFmtp(e.Fmtp)
				if apt, err := strconv.Atoi(p["apt"]); err != nil || !negPT[apt] {
					o.diverge("rtx-negotiated-without-negotiated-primary")
				}
				// (3) exact preferred over partial, for a retransmission codec: its apt is a reference into the remote's
				// section, so "exact" means a local rtx registration that repairs a local codec matching the referenced one.
				allBad, allBadLenient := true, true
				var witness []c15Codec
				for _, c := range cands {
					rs, rl := c15RtxClass(c.off, c.sec, o.local[kind])
					exactStrict, exactLenient := false, false
					var w c15Codec
					for _, x := range c.sec.Codecs {
						if c15HasApt(x) || x.PT == c.off.PT {
							continue
						}
						xs, xl := c15Class(x, o.local[kind])
						if xs == c15Exact {
							exactStrict = true
							w = x
						}
						if xl == c15Exact {
							exactLenient = true
						}
					}
					if !(rl == c15Partial && exactStrict) {
						allBad = false
					} else {
						witness = append(witness, w)
					}
					if !(rs <= c15Partial && exactLenient) || rl == c15None {
						allBadLenient = false
					}
				}
				switch {
				case allBad:
					var localRtx []c15Codec
					for _, l := range o.local[kind] {
						if c15SameCodec(l, e) {
							localRtx = append(localRtx, l)
						}
					}
					o.violation("partial-rtx-used-despite-exact", fmt.Sprintf("%s retransmission codec %s is negotiated although it only matches partially: no local "+
						"registration of its mime type repairs a local codec that matches the codec it refers to (local rtx registrations: %v), and every section "+
						"offering it also offers an exactly matching codec (e.g. %v): exact matches were not preferred", kind, e, localRtx, witness),
						map[string]any{"entry": e, "local_rtx": localRtx, "exact_candidates": witness})
				case allBadLenient:
					o.diverge("rtx-exact-vs-partial-undecided-by-statement")
				}
			} else {
				// (3) exact preferred over partial
				allBad, allBadLenient := true, true
				var witness []c15Codec
				for _, c := range cands {
					cs, cl := c15Class(c.off, o.local[kind])
					exactStrict, exactLenient := false, false
					var w c15Codec
					for _, x := range c.sec.Codecs {
						if c15HasApt(x) || x.PT == c.off.PT {
							continue
						}
						xs, xl := c15Class(x, o.local[kind])
						if xs == c15Exact {
							exactStrict = true
							w = x
						}
						if xl == c15Exact {
							exactLenient = true
						}
					}
					// definite: the entry is partial under every reading, another codec is exact under every reading
					if !(cl == c15Partial && exactStrict) {
						allBad = false
					} else {
						witness = append(witness, w)
					}
					if !(cs <= c15Partial && exactLenient) || cl == c15None {
						allBadLenient = false // cl == none: not matched at all, reported by entryChecks
					}
				}
				switch {
				case allBad:
					o.violation("partial-used-despite-exact", fmt.Sprintf("%s codec %s only matches a local codec partially, yet every section offering it also offers "+
						"an exactly matching codec (e.g. %v): exact matches were not preferred", kind, e, witness),
						map[string]any{"entry": e, "exact_candidates": witness})
				case allBadLenient:
					o.diverge("exact-vs-partial-undecided-by-statement")
				}
			}
			// (4) equality: feedback = offered ∩ local for some producing section and some matching local codec
			eq, eqFold := false, false
			es, ef := c15Set(e.Fb), c15SetFold(e.Fb)
			for _, c := range cands {
				rs, rf := c15Set(c.off.Fb), c15SetFold(c.off.Fb)
				for _, l := range o.local[kind] {
					if !c15SameCodec(l, e) {
						continue
					}
					inter, interFold := map[string]bool{}, map[string]bool{}
					for _, f := range l.Fb {
						if rs[f] {
							inter[f] = true
						}
						if rf[strings.ToLower(f)] {
							interFold[strings.ToLower(f)] = true
						}
					}
					if c15SameSet(inter, es) {
						eq = true
					}
					if c15SameSet(interFold, ef) {
						eqFold = true
					}
				}
			}
			switch {
			case eq:
			case eqFold:
				o.diverge("feedback-case-sensitivity")
			default:
				hasLocal := false
				for _, l := range o.local[kind] {
					if c15SameCodec(l, e) {
						hasLocal = true
					}
				}
				if hasLocal { // otherwise already reported as unmatched
					o.violation("feedback-not-intersection", fmt.Sprintf("%s codec %s: feedback %v is not the intersection of the remote's feedback for payload type %d "+
						"and any matching local codec's feedback", kind, e, e.Fb, e.PT), map[string]any{"entry": e})
				}
			}
		}
	}

	// (5) payload type resolution consults the negotiated set first
	for pt := 0; pt < 128; pt++ {
		var want []c15Codec
		for _, kind := range []string{"video", "audio"} {
			for _, e := range neg[kind] {
				if e.PT == pt {
					want = append(want, e)
				}
			}
		}
		if len(want) == 0 {
			continue
		}
		collides := false
		for _, kind := range []string{"video", "audio"} {
			for _, l := range o.local[kind] {
				if l.PT == pt && !c15SameCodec(l, want[0]) {
					collides = true
				}
			}
		}
		if collides {
			o.collisions++
		}
		got, _, err := me.getCodecByPayload(PayloadType(pt))
		if err != nil {
			o.violation("lookup-misses-negotiated", fmt.Sprintf("getCodecByPayload(%d) = %v although %v is negotiated", pt, err, want),
				map[string]any{"pt": pt, "negotiated": want})

			continue
		}
		g := c15FromParams(got)
		ok := false
		for _, w := range want {
			if w.String() == g.String() {
				ok = true
			}
		}
		if !ok {
			sig := "lookup-not-negotiated-first"
			o.violation(sig, fmt.Sprintf("getCodecByPayload(%d) = %s, but the negotiated set maps %d to %v", pt, g, pt, want),
				map[string]any{"pt": pt, "got": g, "negotiated": want})

			continue
		}
		if ps, err := me.getRTPParametersByPayloadType(PayloadType(pt)); err != nil || len(ps.Codecs) != 1 || c15FromParams(ps.Codecs[0]).String() != g.String() {
			o.violation("lookup-params-not-negotiated-first", fmt.Sprintf("getRTPParametersByPayloadType(%d) = %v, %v but the negotiated set maps it to %v",
				pt, ps.Codecs, err, want), map[string]any{"pt": pt, "negotiated": want})
		}
	}
	o.prev = neg
}

func c15SameSet(a, b map[string]bool) bool {
	if len(a) != len(b) {
		return false
	}
	for k := range a {
		if !b[k] {
			return false
		}
	}

	return true
}

// blackBox checks RTPSender / RTPReceiver parameters of every transceiver whose kind was negotiated.
func (o *c15Oracle) blackBox(pc *PeerConnection, phase string) {
	for _, tr := range pc.GetTransceivers() {
		kind := tr.Kind().String()
		if !o.seen[kind] {
			continue
		}
		known := map[string]bool{}
		for _, e := range o.prev[kind] {
			known[e.String()] = true
		}
		check := func(prefix string, cs []RTPCodecParameters) {
			for _, c := range cs {
				e := c15FromParams(c)
				if known[e.String()] {
					o.run.Count("blackbox_codecs_identical_to_negotiated_entry", 1)

					continue // same object as a white-box entry: already checked, same cause
				}
				o.run.Count("blackbox_codecs_differing_from_negotiated_entries", 1)
				o.entryChecks(prefix, kind, e)
			}
		}
		// A transceiver on which the workload called SetCodecPreferences (bind cases only): GetParameters().Codecs then
		// describes the user's preferences (RTPTransceiver.getCodecs, used for the local SDP only - C16's subject, see its
		// finding codec-preference-pt-kept), not the codec that is used to send, which those cases observe directly at
		// TrackLocal.Bind. Judging the description would be stricter than the statement: logged as model divergence.
		o.dry = o.prefTr[tr]
		before := len(o.dryHits)
		if s := tr.Sender(); s != nil {
			check("params:", s.GetParameters().Codecs)
		}
		if rc := tr.Receiver(); rc != nil {
			check("params:", rc.GetParameters().Codecs)
		}
		o.dry = false
		for _, sig := range o.dryHits[before:] {
			o.diverge("getparameters-of-transceiver-with-codec-preferences:" + sig)
		}
		o.dryHits = o.dryHits[:before]
	}
	_ = phase
}

// ---------------------------------------------------------------- generators

type c15Tmpl struct {
	name  string
	clock uint32
	ch    uint16 // natural channel count (0 = mono, never written)
	fmtps func(r *kit.Rand) string
}

func c15Const(xs ...string) func(r *kit.Rand) string {
	return func(r *kit.Rand) string { return kit.Pick(r, xs) }
}

func c15H264Fmtp(r *kit.Rand) string {
	var parts []string
	switch r.Intn(24) {
	case 0: // absent
	case 1, 2, 3, 4, 5, 6, 7, 8:
		parts = append(parts, "packetization-mode=0")
	default:
		parts = append(parts, "packetization-mode=1")
	}
	pl := kit.Pick(r, []string{
		"42001f", "42e01f", "4d001f", "64001f", "42e034", "640c1f", "42001f", "42e01f", "42E01F", "4d0032", "42001f", "42e01f", "4d001f", "64001f",
		"42e01f", "640c1f", "42001f", "42e01f", "4d001f", "640032", "", "42",
	})
	if pl != "" {
		parts = append(parts, "profile-level-id="+pl)
	}
	if r.Chance(0.6) {
		parts = append(parts, "level-asymmetry-allowed=1")
	}
	kit.Shuffle(r, parts)

	return strings.Join(parts, ";")
}

var c15VideoTmpl = []c15Tmpl{ //nolint:gochecknoglobals
	{"VP8", 90000, 0, c15Const("", "", "max-fs=12288;max-fr=60")},
	{"VP9", 90000, 0, c15Const("", "profile-id=0", "profile-id=1", "profile-id=2", "profile-id=2")},
	{"H264", 90000, 0, c15H264Fmtp},
	{"H264", 90000, 0, c15H264Fmtp},
	{"AV1", 90000, 0, c15Const("", "profile=0", "profile=1", "profile=2", "level-idx=5;profile=0;tier=0", "level-idx=5;profile=1;tier=0")},
	{"H265", 90000, 0, c15Const("", "level-id=93;profile-id=1;tier-flag=0;tx-mode=SRST", "profile-id=2", "level-id=120;profile-id=1;TX-MODE=SRST", "tx-mode=srst")},
	{"ulpfec", 90000, 0, c15Const("")},
	{"red", 90000, 0, c15Const("")},
	{"flexfec-03", 90000, 0, c15Const("repair-window=10000000", "")},
	{"FOO", 90000, 0, c15Const("", "x=1", "x=2")},
}

var c15AudioTmpl = []c15Tmpl{ //nolint:gochecknoglobals
	{"opus", 48000, 2, c15Const("minptime=10;useinbandfec=1", "minptime=10;useinbandfec=0", "useinbandfec=1;stereo=1", "", "minptime=20;useinbandfec=1")},
	{"opus", 48000, 2, c15Const("minptime=10;useinbandfec=1", "")},
	{"PCMU", 8000, 0, c15Const("")},
	{"PCMA", 8000, 0, c15Const("")},
	{"G722", 8000, 0, c15Const("")},
	{"telephone-event", 8000, 0, c15Const("0-15", "0-16")},
	{"telephone-event", 48000, 0, c15Const("0-15")},
	{"ISAC", 16000, 0, c15Const("")},
	{"CN", 8000, 0, c15Const("")},
	{"multiopus", 48000, 6, c15Const("channel_mapping=0,4,1,2,3,5;num_streams=4;coupled_streams=2", "")},
	{"L16", 44100, 2, c15Const("")},
}

var ( //nolint:gochecknoglobals
	c15VideoFb = []string{"goog-remb", "ccm fir", "nack", "nack pli", "transport-cc"}
	c15AudioFb = []string{"transport-cc", "nack"}
)

func c15Recase(r *kit.Rand, s string) string {
	b := []byte(s)
	for i, ch := range b {
		if ch >= 'a' && ch <= 'z' && r.Bool() {
			b[i] = ch - 32
		} else if ch >= 'A' && ch <= 'Z' && r.Bool() {
			b[i] = ch + 32
		}
	}

	return string(b)
}

func c15FbSubset(r *kit.Rand, kind string, pNonEmpty float64) []string {
	pool := c15VideoFb
	if kind == "audio" {
		pool = c15AudioFb
	}
	if !r.Chance(pNonEmpty) {
		return nil
	}
	var out []string
	for _, f := range pool {
		if r.Chance(0.6) {
			if r.Chance(0.02) {
				f = strings.ToUpper(f)
			}
			out = append(out, f)
		}
	}
	kit.Shuffle(r, out)

	return out
}

func c15FreePT(r *kit.Rand, used map[int]bool, anywhere bool) int {
	for try := 0; try < 200; try++ {
		var pt int
		if anywhere {
			pt = r.Intn(128)
		} else if r.Chance(0.7) {
			pt = r.Range(96, 127)
		} else {
			pt = r.Range(35, 63)
		}
		if !used[pt] {
			used[pt] = true

			return pt
		}
	}

	return -1
}

// c15Register builds a MediaEngine with random registrations; the model reads the result back from the engine.
func c15Register(r *kit.Rand) *MediaEngine { //nolint:cyclop
	me := &MediaEngine{}
	style := r.Intn(8)
	if style <= 1 {
		if err := me.RegisterDefaultCodecs(); err != nil {
			panic(err)
		}
		if style == 0 {
			return me
		}
	}
	for _, kind := range []string{"video", "audio"} {
		tmpl, typ, n := c15VideoTmpl, RTPCodecTypeVideo, r.Range(1, 7)
		if kind == "audio" {
			tmpl, typ, n = c15AudioTmpl, RTPCodecTypeAudio, r.Range(0, 4)
		}
		if style == 1 {
			n = r.Range(0, 2)
		}
		used := map[int]bool{}
		for i := 0; i < n; i++ {
			t := kit.Pick(r, tmpl)
			pt := c15FreePT(r, used, r.Chance(0.4))
			if pt < 0 {
				continue
			}
			name := t.name
			switch r.Intn(8) {
			case 0:
				name = strings.ToLower(name)
			case 1:
				name = c15Recase(r, name)
			}
			cp := RTPCodecParameters{PayloadType: PayloadType(pt)}
			cp.MimeType = kind + "/" + name
			cp.ClockRate, cp.Channels, cp.SDPFmtpLine = t.clock, t.ch, t.fmtps(r)
			if t.name == "H264" && r.Chance(0.7) {
				// mostly register H264 with both identifying parameters present (the statement decides those)
				for try := 0; try < 8; try++ {
					p, _ := c15ParseFmtp(cp.SDPFmtpLine)
					if _, ok := p["packetization-mode"]; ok && c15IsHex6(p["profile-level-id"]) {
						break
					}
					cp.SDPFmtpLine = t.fmtps(r)
				}
			}
			defaultable := kind == "video" || t.name == "opus" || t.name == "PCMU" || t.name == "PCMA"
			if defaultable && r.Chance(0.15) {
				cp.ClockRate = 0
			}
			if t.name == "opus" && r.Chance(0.3) {
				cp.Channels = 0
			}
			if t.ch == 0 && r.Chance(0.15) {
				cp.Channels = 1
			}
			for _, f := range c15FbSubset(r, kind, map[string]float64{"video": 0.85, "audio": 0.25}[kind]) {
				ty, pa, _ := strings.Cut(f, " ")
				cp.RTCPFeedback = append(cp.RTCPFeedback, RTCPFeedback{Type: ty, Parameter: pa})
			}
			_ = me.RegisterCodec(cp, typ)
			if kind == "video" && r.Chance(0.4) {
				if rpt := c15FreePT(r, used, r.Chance(0.3)); rpt >= 0 {
					apt := pt
					if r.Chance(0.08) {
						apt = r.Intn(128) // dangling
					}
					clk := uint32(90000)
					if r.Chance(0.1) {
						clk = 0
					}
					mime := "video/rtx"
					if r.Chance(0.1) {
						mime = "video/RTX"
					}
					_ = me.RegisterCodec(RTPCodecParameters{
						RTPCodecCapability: RTPCodecCapability{MimeType: mime, ClockRate: clk, SDPFmtpLine: fmt.Sprintf("apt=%d", apt)},
						PayloadType:        PayloadType(rpt),
					}, typ)
				}
			}
		}
	}

	return me
}

type c15Section struct {
	Kind     string
	Codecs   []genCodec
	NoRtpmap map[int]bool // static payload types sent without rtpmap
	WildFb   []string
}

type c15Desc struct {
	Sections []*c15Section
	Legal    bool // payload type numbers mean the same configuration in every section (BUNDLE rule)
}

func c15SubName(mime string) string {
	_, n, _ := strings.Cut(mime, "/")

	return n
}

// c15GenSection produces one remote codec list for kind, derived partly from the local registrations.
func c15GenSection(r *kit.Rand, kind string, local []c15Codec, allLocalPT []int) *c15Section { //nolint:gocognit,cyclop
	sec := &c15Section{Kind: kind, NoRtpmap: map[int]bool{}}
	tmpl := c15VideoTmpl
	if kind == "audio" {
		tmpl = c15AudioTmpl
	}
	var prim []c15Codec
	for _, l := range local {
		if !c15HasApt(l) {
			prim = append(prim, l)
		}
	}
	used := map[int]bool{0: true, 8: true, 9: true}
	n := r.Range(1, 6)
	for i := 0; i < n; i++ {
		var gc genCodec
		own := -1
		family := -1
		if len(prim) > 0 && r.Chance(0.6) {
			l := kit.Pick(r, prim)
			own = l.PT
			gc = genCodec{Name: c15SubName(l.Mime), Clock: int(c15Clock(l)), Ch: int(l.Ch), Fmtp: l.Fmtp}
			if strings.EqualFold(gc.Name, "opus") || gc.Ch == 1 {
				gc.Ch = int(c15Chans(l))
				if gc.Ch == 1 || (gc.Ch == 2 && r.Chance(0.05)) {
					gc.Ch = 0
				}
			}
			for k, t := range tmpl {
				if strings.EqualFold(t.name, gc.Name) {
					family = k
				}
			}
			if family >= 0 && r.Chance(0.35) {
				gc.Fmtp = tmpl[family].fmtps(r)
			}
			if r.Chance(0.15) {
				gc.Name = c15Recase(r, gc.Name)
			}
			if r.Chance(0.04) {
				gc.Clock = kit.Pick(r, []int{8000, 16000, 45000, 48000, 90000})
			}
			if r.Chance(0.04) {
				gc.Ch = kit.Pick(r, []int{0, 1, 2})
			}
			for _, f := range l.Fb {
				if r.Chance(0.7) {
					gc.Fb = append(gc.Fb, f)
				}
			}
			for _, f := range c15FbSubset(r, kind, 0.3) {
				dup := false
				for _, g := range gc.Fb {
					if g == f {
						dup = true
					}
				}
				if !dup {
					gc.Fb = append(gc.Fb, f)
				}
			}
		} else {
			t := kit.Pick(r, tmpl)
			gc = genCodec{Name: t.name, Clock: int(t.clock), Ch: int(t.ch), Fmtp: t.fmtps(r)}
			gc.Fb = c15FbSubset(r, kind, map[string]float64{"video": 0.8, "audio": 0.2}[kind])
		}
		// payload type
		pt := -1
		lname := strings.ToLower(gc.Name)
		static := map[string]int{"pcmu": 0, "pcma": 8, "g722": 9}
		if sp, ok := static[lname]; ok && kind == "audio" && gc.Clock == 8000 && gc.Ch <= 1 && r.Chance(0.5) && !sec.hasPT(sp) {
			pt = sp
			if r.Chance(0.4) && gc.Fmtp == "" {
				sec.NoRtpmap[pt] = true
				gc.Name = strings.ToUpper(gc.Name)
				gc.Ch = 0
			}
		}
		if pt < 0 && own >= 0 && r.Chance(0.3) && !used[own] {
			pt = own
			used[pt] = true
		}
		if pt < 0 && len(allLocalPT) > 0 && r.Chance(0.35) {
			if c := kit.Pick(r, allLocalPT); !used[c] {
				pt = c // number of (very likely) a different local codec
				used[pt] = true
			}
		}
		if pt < 0 {
			pt = c15FreePT(r, used, false)
		}
		if pt < 0 {
			continue
		}
		gc.PT = pt
		sec.Codecs = append(sec.Codecs, gc)
	}
	if len(sec.Codecs) == 0 {
		sec.Codecs = append(sec.Codecs, genCodec{PT: 127, Name: "FOO", Clock: 90000})
		used[127] = true
	}
	// retransmission codecs referring to remote payload types
	if kind == "video" {
		prims := append([]genCodec{}, sec.Codecs...)
		for _, p := range prims {
			if !r.Chance(0.4) {
				continue
			}
			rpt := -1
			if len(allLocalPT) > 0 && r.Chance(0.3) {
				if c := kit.Pick(r, allLocalPT); !used[c] {
					rpt = c
					used[c] = true
				}
			}
			if rpt < 0 {
				rpt = c15FreePT(r, used, false)
			}
			if rpt < 0 {
				continue
			}
			apt := fmt.Sprint(p.PT)
			switch {
			case r.Chance(0.06):
				apt = fmt.Sprint(r.Range(10, 34)) // dangling
			case r.Chance(0.004):
				apt = "x" // malformed: the whole description is refused
			}
			name := "rtx"
			if r.Chance(0.1) {
				name = "RTX"
			}
			x := genCodec{PT: rpt, Name: name, Clock: 90000, Fmtp: "apt=" + apt}
			if r.Chance(0.03) {
				x.Fmtp = "apt=" + apt + ";rtx-time=3000"
			}
			switch r.Intn(5) {
			case 0: // before its primary (needs the second matching pass)
				var out []genCodec
				for _, c := range sec.Codecs {
					if c.PT == p.PT {
						out = append(out, x)
					}
					out = append(out, c)
				}
				sec.Codecs = out
			case 1:
				sec.Codecs = append([]genCodec{x}, sec.Codecs...)
			default:
				sec.Codecs = append(sec.Codecs, x)
			}
		}
	}
	if r.Chance(0.2) {
		kit.Shuffle(r, sec.Codecs)
	}
	if r.Chance(0.04) {
		sec.WildFb = []string{kit.Pick(r, []string{"nack", "transport-cc", "goog-remb"})}
	}

	return sec
}

func (s *c15Section) hasPT(pt int) bool {
	for _, c := range s.Codecs {
		if c.PT == pt {
			return true
		}
	}

	return false
}

func (s *c15Section) clone() *c15Section {
	n := &c15Section{Kind: s.Kind, NoRtpmap: map[int]bool{}, WildFb: append([]string{}, s.WildFb...)}
	for k, v := range s.NoRtpmap {
		n.NoRtpmap[k] = v
	}
	for _, c := range s.Codecs {
		c.Fb = append([]string{}, c.Fb...)
		n.Codecs = append(n.Codecs, c)
	}

	return n
}

// c15Mutate derives a later version of a section (renegotiation / second section of the same kind).
func c15Mutate(r *kit.Rand, s *c15Section, local []c15Codec, allLocalPT []int) *c15Section {
	n := s.clone()
	used := map[int]bool{0: true, 8: true, 9: true}
	for _, c := range n.Codecs {
		used[c.PT] = true
	}
	switch r.Intn(6) {
	case 0: // unchanged
	case 1: // drop one
		if len(n.Codecs) > 1 {
			k := r.Intn(len(n.Codecs))
			n.Codecs = append(n.Codecs[:k], n.Codecs[k+1:]...)
		}
	case 2: // add some from a fresh list
		for _, c := range c15GenSection(r, s.Kind, local, allLocalPT).Codecs {
			if !used[c.PT] && !strings.EqualFold(c.Name, "rtx") && c.PT != 0 && c.PT != 8 && c.PT != 9 {
				n.Codecs = append(n.Codecs, c)
				used[c.PT] = true
			}
		}
	case 3: // change one fmtp
		k := r.Intn(len(n.Codecs))
		tmpl := c15VideoTmpl
		if s.Kind == "audio" {
			tmpl = c15AudioTmpl
		}
		for _, t := range tmpl {
			if strings.EqualFold(t.name, n.Codecs[k].Name) {
				n.Codecs[k].Fmtp = t.fmtps(r)
				if n.NoRtpmap[n.Codecs[k].PT] && n.Codecs[k].Fmtp != "" {
					delete(n.NoRtpmap, n.Codecs[k].PT)
				}

				break
			}
		}
	case 4: // move one codec to another payload type (apt references follow)
		k := r.Intn(len(n.Codecs))
		old := n.Codecs[k].PT
		if old != 0 && old != 8 && old != 9 {
			if pt := c15FreePT(r, used, false); pt >= 0 {
				n.Codecs[k].PT = pt
				for j := range n.Codecs {
					if n.Codecs[j].Fmtp == fmt.Sprintf("apt=%d", old) {
						n.Codecs[j].Fmtp = fmt.Sprintf("apt=%d", pt)
					}
				}
			}
		}
	case 5: // change feedback
		k := r.Intn(len(n.Codecs))
		n.Codecs[k].Fb = c15FbSubset(r, s.Kind, 0.7)
	}

	return n
}

// c15GenDesc generates the codec content of one remote description with the given section kinds.
func c15GenDesc(r *kit.Rand, kinds []string, local map[string][]c15Codec, prev *c15Desc) *c15Desc {
	var allPT []int
	for _, k := range []string{"video", "audio"} {
		for _, l := range local[k] {
			allPT = append(allPT, l.PT)
		}
	}
	d := &c15Desc{}
	first := map[string]*c15Section{}
	for i, kind := range kinds {
		var s *c15Section
		switch {
		case prev != nil && i < len(prev.Sections) && prev.Sections[i].Kind == kind && r.Chance(0.6):
			s = c15Mutate(r, prev.Sections[i], local[kind], allPT)
		case first[kind] != nil && r.Chance(0.45):
			s = first[kind].clone()
		case first[kind] != nil && r.Chance(0.5):
			s = c15Mutate(r, first[kind], local[kind], allPT)
		default:
			s = c15GenSection(r, kind, local[kind], allPT)
		}
		if first[kind] == nil {
			first[kind] = s
		}
		d.Sections = append(d.Sections, s)
	}
	if r.Chance(0.85) {
		d.Legal = true
		c15Legalize(r, d)
	}

	return d
}

// c15Legalize makes the description BUNDLE-consistent: one payload type number means one codec configuration
// (name, clock, channels, fmtp, feedback) in every section; conflicting codecs move to a payload type that is unused
// in the whole description (apt references of their section follow).
func c15Legalize(r *kit.Rand, d *c15Desc) {
	ident := func(c genCodec, s *c15Section) string {
		fb := append([]string{}, c.Fb...)
		sort.Strings(fb)
		f := c.Fmtp
		if p, _ := c15ParseFmtp(f); p["apt"] != "" {
			// an rtx is identified by the configuration it repairs
			if apt, err := strconv.Atoi(p["apt"]); err == nil {
				for _, x := range s.Codecs {
					if x.PT == apt {
						f = "apt->" + strings.ToLower(x.Name) + "|" + x.Fmtp
					}
				}
			}
		}

		return fmt.Sprintf("%s|%s|%d|%d|%s|%s", s.Kind, strings.ToLower(c.Name), c.Clock, c.Ch, f, strings.Join(fb, ","))
	}
	owner := map[int]string{}
	used := map[int]bool{0: true, 8: true, 9: true}
	for _, s := range d.Sections {
		for _, c := range s.Codecs {
			used[c.PT] = true
		}
	}
	for _, s := range d.Sections {
		ids := make([]string, len(s.Codecs))
		for k, c := range s.Codecs {
			ids[k] = ident(c, s)
		}
		keep := s.Codecs[:0:0]
		for k, c := range s.Codecs {
			id := ids[k]
			if o, ok := owner[c.PT]; !ok || o == id {
				owner[c.PT] = id
				keep = append(keep, c)

				continue
			}
			// the configuration may already own a number from an earlier section
			npt := -1
			for pt, o := range owner {
				if o == id {
					npt = pt
				}
			}
			inSection := false
			for _, x := range s.Codecs {
				if x.PT == npt {
					inSection = true
				}
			}
			if npt < 0 || inSection {
				npt = c15FreePT(r, used, false)
			}
			if npt < 0 {
				continue // no number left: the codec is not offered in this section
			}
			old := c.PT
			delete(s.NoRtpmap, old)
			c.PT = npt
			owner[npt] = id
			for j := range s.Codecs {
				if j > k && s.Codecs[j].Fmtp == fmt.Sprintf("apt=%d", old) {
					s.Codecs[j].Fmtp = fmt.Sprintf("apt=%d", npt)
				}
			}
			for j := range keep {
				if keep[j].Fmtp == fmt.Sprintf("apt=%d", old) {
					keep[j].Fmtp = fmt.Sprintf("apt=%d", npt)
				}
			}
			keep = append(keep, c)
		}
		s.Codecs = keep
	}
}

type c15Wire struct {
	typ     SDPType
	mids    []string
	dirs    []string
	sessVer uint64
	setup   string
}

func (d *c15Desc) render(w c15Wire) string {
	g := &genSDP{
		SessID: 4242424242, SessVer: w.sessVer, Bundle: true, Ufrag: "c15Ufrag", Pwd: "c15Passwordc15Passwordc15Pwd",
		Fingerprint: genFingerprint, MsidSemantic: true,
	}
	drop := map[string]bool{}
	for i, s := range d.Sections {
		m := &genMedia{
			Kind: s.Kind, Mid: w.mids[i], Port: 9, Proto: "UDP/TLS/RTP/SAVPF", Dir: w.dirs[i], Codecs: s.Codecs, Setup: w.setup, RTCPMux: true,
		}
		for _, f := range s.WildFb {
			m.Extra = append(m.Extra, "a=rtcp-fb:* "+f)
		}
		for _, c := range s.Codecs {
			if s.NoRtpmap[c.PT] {
				drop[fmt.Sprintf("%d|%s", i, c.rtpmap())] = true
			}
		}
		g.Media = append(g.Media, m)
	}
	text := g.String()
	if len(drop) == 0 {
		return text
	}
	sec := -1

	return rigMapLines(text, func(line string) []string {
		if strings.HasPrefix(line, "m=") {
			sec++
		}
		if drop[fmt.Sprintf("%d|%s", sec, line)] {
			return nil
		}

		return []string{line}
	})
}

// ---------------------------------------------------------------- the monitor

func c15ErrClass(err error) string {
	s := err.Error()
	for _, k := range []string{
		"codec already registered", "payload type not found", "invalid syntax", "value out of range", "no codecs", "unable to populate",
		"failed to find", "codec is not supported", "unsupported codec type by this transceiver", "invalid state change in RTPTransceiver",
	} {
		if strings.Contains(s, k) {
			return k
		}
	}
	if len(s) > 48 {
		s = s[:48]
	}

	return s
}

func c15LocalOf(me *MediaEngine) map[string][]c15Codec {
	me.mu.RLock()
	defer me.mu.RUnlock()

	return map[string][]c15Codec{"video": c15FromList(me.videoCodecs), "audio": c15FromList(me.audioCodecs)}
}

func c15Kinds(r *kit.Rand) []string {
	n := r.Range(1, 4)
	kinds := make([]string, 0, n)
	for i := 0; i < n; i++ {
		kinds = append(kinds, kit.Pick(r, []string{"video", "video", "audio"}))
	}

	return kinds
}

func c15Dirs(r *kit.Rand, n int) []string {
	out := make([]string, n)
	for i := range out {
		out[i] = kit.Pick(r, []string{"sendrecv", "sendrecv", "sendonly", "recvonly"})
	}

	return out
}

func c15Mids(n int) []string {
	out := make([]string, n)
	for i := range out {
		out[i] = fmt.Sprint(i)
	}

	return out
}

func TestVerifC15(t *testing.T) { //nolint:gocognit,cyclop,gocyclo,maintidx
	run := kit.Start(t, "C15", "seeded random local MediaEngine registrations (arbitrary payload types, mime case, omitted clock/channels, H264/VP9/AV1/"+
		"generic fmtp variants, RTX with apt, feedback subsets; 1/8 default codecs) × 1-3 successive remote descriptions of 1-4 audio/video sections "+
		"whose codec lists are derived from the local ones (copies, fmtp/clock/channel/case mutations, unknown codecs, RTX before/after its primary, "+
		"remote payload types equal to / colliding with / different from local ones), multi-codec negotiation on/off; 2/3 of the cases drive "+
		"MediaEngine.updateFromRemoteDescription directly, 1/3 go through PeerConnection.SetRemoteDescription (as answerer and as offerer). "+
		"A further block of cases (modes bind-answerer / bind-offerer, c15_bind_test.go) puts sending tracks on the PeerConnection (AddTrack / "+
		"AddTransceiverFromTrack sendonly|sendrecv, own TrackLocal with a seeded codec choice rule or wrapping TrackLocalStaticRTP), random "+
		"SetCodecPreferences on their transceivers (subset/order of the local or negotiated codecs, payload type explicit or 0), and between the "+
		"1-3 negotiation rounds ReplaceTrack / ReplaceTrack(nil)+ReplaceTrack / RemoveTrack+AddTrack / new preferences / new senders; every "+
		"TrackLocal.Bind (at negotiation by RTPSender.Send, by ReplaceTrack, on a reused transceiver) is recorded and the codec the track is bound "+
		"with (and its rtx companion) is judged by the same clauses. "+
		"A case is non-trivial when at least one codec was negotiated under a payload type that no matching local codec is registered on "+
		"(bind cases: and at least one track was bound after its kind appeared in an applied remote description); "+
		"distinct by local registrations + remote description texts (+ operations of a bind case)")
	defer run.Finish()
	run.Assume("the locally registered codec lists are read back from MediaEngine.videoCodecs/audioCodecs after RegisterCodec (input, not behaviour under test)")
	run.Assume("TrackRemote.Codec() is not observed (no media flows); the negotiated set is observed white-box and through GetParameters; the codec used to send is " +
		"observed as the codec a TrackLocal is bound with (TrackLocalContext.CodecParameters() and the codec Bind selects from it: the payload type a track writes)")

	n := kit.N(3000, 75000)
	nBind := kit.N(1200, 30000) // cases n .. n+nBind-1: binding paths (c15_bind_test.go)
	run.Parallel(n+nBind, 8, func(i int) {
		if i >= n {
			c15BindCase(run, i)

			return
		}
		r := run.CaseRand(i)
		me := c15Register(r)
		multi := r.Chance(0.6)
		mode := "direct"
		if i%3 == 2 {
			mode = "pc-answerer"
			if r.Chance(0.4) {
				mode = "pc-offerer"
			}
		}
		local := c15LocalOf(me)
		o := &c15Oracle{
			run: run, idx: i, mode: mode, local: local, offered: map[string][]c15Codec{}, seen: map[string]bool{},
			prev: map[string][]c15Codec{}, multi: multi,
		}
		rounds := r.Range(1, 3)
		var prev *c15Desc
		kinds := c15Kinds(r)

		switch mode {
		case "direct":
			me.setMultiCodecNegotiation(multi)
			for round := 0; round < rounds; round++ {
				if round > 0 && r.Chance(0.3) && len(kinds) < 5 {
					kinds = append(kinds, kit.Pick(r, []string{"video", "audio"}))
				}
				d := c15GenDesc(r, kinds, local, prev)
				prev = d
				o.legal = append(o.legal, d.Legal)
				text := d.render(c15Wire{SDPTypeOffer, c15Mids(len(kinds)), c15Dirs(r, len(kinds)), uint64(2 + round), "actpass"})
				var parsed sdp.SessionDescription
				if err := parsed.Unmarshal([]byte(text)); err != nil {
					run.Inconclusive("generated-sdp-unparsable")

					break
				}
				if err := me.updateFromRemoteDescription(parsed); err != nil {
					run.Seen("update_errors", c15ErrClass(err))
				}
				o.afterRemote(me, text)
			}
		case "pc-answerer":
			pc, err := rigNewPC(rigOpts{ME: me, SE: func(se *SettingEngine) { se.DisableMediaEngineMultipleCodecs(!multi) }})
			if err != nil {
				run.Inconclusive("new-peerconnection")

				return
			}
			pme := pc.api.mediaEngine
			if r.Chance(0.3) {
				for _, k := range []RTPCodecType{RTPCodecTypeVideo, RTPCodecTypeAudio} {
					if r.Bool() {
						if _, err := pc.AddTransceiverFromKind(k); err == nil {
							run.Count("precreated_transceivers", 1)
						}
					}
				}
			}
			for round := 0; round < rounds; round++ {
				if round > 0 && r.Chance(0.3) && len(kinds) < 5 {
					kinds = append(kinds, kit.Pick(r, []string{"video", "audio"}))
				}
				d := c15GenDesc(r, kinds, local, prev)
				prev = d
				o.legal = append(o.legal, d.Legal)
				text := d.render(c15Wire{SDPTypeOffer, c15Mids(len(kinds)), c15Dirs(r, len(kinds)), uint64(2 + round), "actpass"})
				err := pc.SetRemoteDescription(SessionDescription{Type: SDPTypeOffer, SDP: text})
				if err != nil {
					run.Seen("srd_errors", c15ErrClass(err))
				}
				o.afterRemote(pme, text)
				if err != nil {
					break
				}
				run.Count("srd_ok", 1)
				o.blackBox(pc, "after-srd")
				ans, err := pc.CreateAnswer(nil)
				if err == nil {
					err = pc.SetLocalDescription(ans)
				}
				if err != nil {
					run.Seen("answer_errors", c15ErrClass(err))

					break
				}
				o.blackBox(pc, "after-sld")
			}
			rigClose(pc)
		case "pc-offerer":
			pc, err := rigNewPC(rigOpts{ME: me, SE: func(se *SettingEngine) { se.DisableMediaEngineMultipleCodecs(!multi) }})
			if err != nil {
				run.Inconclusive("new-peerconnection")

				return
			}
			pme := pc.api.mediaEngine
			added := 0
			for _, k := range kinds {
				typ := RTPCodecTypeVideo
				if k == "audio" {
					typ = RTPCodecTypeAudio
				}
				if _, err := pc.AddTransceiverFromKind(typ); err == nil {
					added++
				}
			}
			if added == 0 {
				if _, err := pc.CreateDataChannel("c15", nil); err != nil {
					rigClose(pc)
					run.Inconclusive("offerer-without-sections")

					return
				}
			}
			for round := 0; round < rounds; round++ {
				offer, err := pc.CreateOffer(nil)
				if err == nil {
					err = pc.SetLocalDescription(offer)
				}
				if err != nil {
					run.Seen("offer_errors", c15ErrClass(err))

					break
				}
				od, err := kit.ParseSDP(offer.SDP)
				if err != nil {
					run.Inconclusive("local-offer-unparsable")

					break
				}
				// answer mirrors the offer's sections; only audio/video sections get generated codec lists
				var akinds, amids []string
				appIdx := -1
				for k, m := range od.Media {
					mid, _ := m.Mid()
					if m.Kind == "application" {
						appIdx = k

						continue
					}
					akinds = append(akinds, m.Kind)
					amids = append(amids, mid)
				}
				if appIdx >= 0 && len(akinds) > 0 {
					run.Count("offerer_rounds_skipped_mixed_sections", 1) // data channel is only the fallback, no answer generated for it

					break
				}
				var text string
				if len(akinds) == 0 {
					break // nothing to negotiate for this property
				}
				d := c15GenDesc(r, akinds, local, prev)
				prev = d
				o.legal = append(o.legal, d.Legal)
				text = d.render(c15Wire{SDPTypeAnswer, amids, c15Dirs(r, len(akinds)), uint64(2 + round), "active"})
				err = pc.SetRemoteDescription(SessionDescription{Type: SDPTypeAnswer, SDP: text})
				if err != nil {
					run.Seen("srd_errors", c15ErrClass(err))
				}
				o.afterRemote(pme, text)
				if err != nil {
					break
				}
				run.Count("srd_ok", 1)
				o.blackBox(pc, "after-srd-answer")
				if r.Chance(0.3) {
					if _, err := pc.AddTransceiverFromKind(kit.Pick(r, []RTPCodecType{RTPCodecTypeVideo, RTPCodecTypeAudio})); err == nil {
						run.Count("transceivers_added_between_rounds", 1)
					}
				}
			}
			rigClose(pc)
		}

		nontrivial := o.anyNeg && o.ptDiffers
		run.Case(fmt.Sprintf("%v|%v|%v|%v|%s", local["video"], local["audio"], multi, mode, strings.Join(o.texts, "\n---\n")), nontrivial)
		run.Count("cases_"+mode, 1)
		run.Count("remote_descriptions_applied", len(o.texts))
		if len(o.texts) > 1 {
			run.Count("cases_with_renegotiation", 1)
		}
		if multi {
			run.Count("cases_multi_codec_on", 1)
		}
		if o.anyNeg {
			run.Count("cases_with_negotiated_codecs", 1)
		}
		run.Count("sections_offering_exact_and_partial_only", o.mixedSecs)
		run.Count("rtx_offers_partial_only_beside_exact_codec", o.rtxPartialBesideExact)
		run.Count("rtx_offers_partial_only_beside_exact_codec_not_negotiated", o.rtxPartialNotNegotiated)
		run.Count("rtx_offers_exact_beside_exact_codec", o.rtxExactBesideExact)
		if o.rtxPartialBesideExact > 0 {
			run.Count("cases_with_partial_only_rtx_beside_exact_codec", 1)
		}
		run.Count("lookups_where_remote_pt_collides_with_other_local_codec", o.collisions)
		run.Count("newly_negotiated_entries_checked", o.newEntries)
		ne, np := 0, 0
		for _, kind := range []string{"video", "audio"} {
			for _, e := range o.prev[kind] {
				if c15HasApt(e) {
					continue
				}
				if cs, _ := c15Class(e, local[kind]); cs == c15Exact {
					ne++
				} else {
					np++
				}
			}
		}
		run.Count("negotiated_exact", ne)
		run.Count("negotiated_partial_or_undecided", np)
		if nontrivial && i%97 == 5 {
			keys := []string{}
			for _, kind := range []string{"video", "audio"} {
				for _, e := range o.prev[kind] {
					keys = append(keys, kind+":"+e.String())
				}
			}
			sort.Strings(keys)
			run.Sample(map[string]any{
				"case": i, "mode": mode, "multi_codec": multi, "local_video": fmt.Sprint(local["video"]), "local_audio": fmt.Sprint(local["audio"]),
				"remote_descriptions": len(o.texts), "negotiated": keys, "divergences": o.divergences,
			})
		}
	})
}
