package verifkit

import (
	"runtime"
	"sync"
	"sync/atomic"
	"time"

	"github.com/pion/webrtc/v4/internal/verifhook"
)

// Event is one observed hook event, stamped by the logical clock.
type Event struct {
	T    int64
	Name string
	Key  any
	A, B int64
}

// Sched is the controller behind verifhook: random perturbation, scripted blocking and the event log.
type Sched struct {
	mu       sync.Mutex
	events   []Event
	passes   map[string]int64
	blocked  map[string]*gate
	perturbP uint32 // probability in 1/1000
	seed     uint64
	ctr      atomic.Uint64
	filter   func(name string) bool
}

type gate struct {
	release chan struct{}
	reached chan struct{}
	once    sync.Once
	limit   int // block at most this many arrivals (0 = all)
	arrived int
}

// NewSched installs a fresh controller as the process-wide hook handler.
func NewSched(seed uint64) *Sched {
	s := &Sched{passes: map[string]int64{}, blocked: map[string]*gate{}, seed: seed}
	verifhook.Install(&verifhook.Hooks{Point: s.point, Observe: s.observe})

	return s
}

// Uninstall removes the hook handler (releasing every blocked point first).
func (s *Sched) Uninstall() {
	s.ReleaseAll()
	verifhook.Install(nil)
}

// Perturb makes every yield point, with probability p, yield or sleep briefly (seeded).
func (s *Sched) Perturb(p float64) { atomic.StoreUint32(&s.perturbP, uint32(p*1000)) }

// OnlyPoints restricts perturbation to points accepted by f.
func (s *Sched) OnlyPoints(f func(string) bool) { s.mu.Lock(); s.filter = f; s.mu.Unlock() }

func splitmix(x uint64) uint64 {
	x += 0x9E3779B97F4A7C15
	x = (x ^ (x >> 30)) * 0xBF58476D1CE4E5B9
	x = (x ^ (x >> 27)) * 0x94D049BB133111EB

	return x ^ (x >> 31)
}

func (s *Sched) point(name string) {
	s.mu.Lock()
	s.passes[name]++
	g := s.blocked[name]
	if g != nil {
		g.arrived++
		if g.limit > 0 && g.arrived > g.limit {
			g = nil
		}
	}
	flt := s.filter
	s.mu.Unlock()
	if g != nil {
		g.once.Do(func() { close(g.reached) })
		<-g.release

		return
	}
	p := atomic.LoadUint32(&s.perturbP)
	if p == 0 || (flt != nil && !flt(name)) {
		return
	}
	x := splitmix(s.seed ^ s.ctr.Add(1)*0x2545F4914F6CDD1D)
	if uint32(x%1000) >= p {
		return
	}
	switch (x >> 10) % 4 {
	case 0:
		runtime.Gosched()
	case 1:
		for i := 0; i < 5; i++ {
			runtime.Gosched()
		}
	case 2:
		time.Sleep(time.Duration((x>>20)%200) * time.Microsecond)
	default:
		time.Sleep(time.Duration((x>>20)%2000) * time.Microsecond)
	}
}

func (s *Sched) observe(name string, key any, a, b int64) {
	t := Stamp()
	s.mu.Lock()
	s.events = append(s.events, Event{T: t, Name: name, Key: key, A: a, B: b})
	s.mu.Unlock()
}

// Block makes the next arrivals at point name wait until Release(name). limit>0 blocks only the first
// `limit` arrivals.
func (s *Sched) Block(name string, limit int) {
	s.mu.Lock()
	s.blocked[name] = &gate{release: make(chan struct{}), reached: make(chan struct{}), limit: limit}
	s.mu.Unlock()
}

// WaitReached waits (bounded, wall-clock watchdog only) until some goroutine is parked at name.
func (s *Sched) WaitReached(name string, d time.Duration) bool {
	s.mu.Lock()
	g := s.blocked[name]
	s.mu.Unlock()
	if g == nil {
		return false
	}
	select {
	case <-g.reached:
		return true
	case <-time.After(d):
		return false
	}
}

// Release lets the goroutines parked at name continue and stops blocking that point.
func (s *Sched) Release(name string) {
	s.mu.Lock()
	g := s.blocked[name]
	delete(s.blocked, name)
	s.mu.Unlock()
	if g != nil {
		close(g.release)
	}
}

// ReleaseAll releases every blocked point.
func (s *Sched) ReleaseAll() {
	s.mu.Lock()
	gs := s.blocked
	s.blocked = map[string]*gate{}
	s.mu.Unlock()
	for _, g := range gs {
		close(g.release)
	}
}

// Passes returns how often point name was passed.
func (s *Sched) Passes(name string) int64 {
	s.mu.Lock()
	defer s.mu.Unlock()

	return s.passes[name]
}

// AllPasses returns a copy of the per-point pass counters.
func (s *Sched) AllPasses() map[string]int64 {
	s.mu.Lock()
	defer s.mu.Unlock()
	out := make(map[string]int64, len(s.passes))
	for k, v := range s.passes {
		out[k] = v
	}

	return out
}

// Events returns a copy of the event log, optionally filtered by name and key.
func (s *Sched) Events(name string, key any) []Event {
	s.mu.Lock()
	defer s.mu.Unlock()
	var out []Event
	for _, e := range s.events {
		if (name == "" || e.Name == name) && (key == nil || e.Key == key) {
			out = append(out, e)
		}
	}

	return out
}

// ResetEvents clears the event log.
func (s *Sched) ResetEvents() { s.mu.Lock(); s.events = nil; s.mu.Unlock() }

// Eventually polls cond (bounded) — a wall-clock watchdog, never a deciding oracle on its own.
func Eventually(d time.Duration, cond func() bool) bool {
	deadline := time.Now().Add(d)
	for {
		if cond() {
			return true
		}
		if time.Now().After(deadline) {
			return false
		}
		time.Sleep(200 * time.Microsecond)
	}
}
