package webrtc

// C09 — mids and m-section order are stable across renegotiations.
//
// Recorded per PeerConnection ("connection view"): every description it generated (CreateOffer/CreateAnswer) or applied
// (local and remote), in order, and RTPTransceiver.Mid() of every transceiver after every API step.
//
// Oracles (descriptions are read with kit.ParseSDP only):
//   T1 write-once: once Mid() of a transceiver was observed non-empty it never reads differently (also after a direct
//      attempt to overwrite it through the public RTPTransceiver.SetMid).
//   T2 no reuse: when a transceiver is first observed with mid M during the step that produces / applies description n,
//      M occurs in no description this connection applied before n.
//   P1 position: in every description the connection generates, a mid that occurred in an earlier description of the
//      connection (local or remote) sits at the index it had in the first description that contained it, and its
//      section still has the same media kind.
//   P2 append: mids that are new in a generated description come after all sections carried over from earlier
//      descriptions, and not in a slot the description applied last already had, whether or not the section that held
//      the slot is still there (re-use of the slot of a section that was rejected in the previous description is
//      tolerated and counted, JSEP allows it; pion never does it). A section that is missing from a later description
//      is only counted: the statement speaks of descriptions that include it.
//   U1 one section per mid: the statement speaks of "its m-section" and of new sections never re-using a mid, so the mid
//      a transceiver of the connection holds names exactly one m-section of every description the connection generates.
//      A generated description that carries such a mid on two (or more) sections is a violation, unless the connection
//      only mirrors a duplicate that a description it applied earlier (for an answer: the remote offer) already had.
//      The signature classifies the sections sharing the mid (carried-over slot or new, media or application).
//      The positional oracles skip the duplicate, and the history stops there (the duplicate breaks the preconditions
//      of every later round). Duplicates on a mid no transceiver of the connection holds are only counted.
//
// Workload: Unified Plan only (a Plan-B section has several transceivers, the statement is about one transceiver per
// mid). pair: two pion PeerConnections, 2..10 complete rounds, offerer alternating (sometimes the same peer twice), no
// rollback, random additions / RemoveTrack / Stop / data channels on both peers between rounds; each PeerConnection has
// Configuration.AlwaysNegotiateDataChannels with probability 0.2 (an application section it never asked for through
// CreateDataChannel then appears in its first offer, possibly a renegotiation offer). gen: the remote side is
// a foreign peer model that offers sparse / non-numeric / mixed mids, answers pion's offers by mirroring them, and
// adds (or rejects) sections of its own between rounds.
//
// Offer/answer options are a dimension of every history: each CreateOffer / CreateAnswer gets nil, an empty options
// struct or a random combination of VoiceActivityDetection, ICETricklingSupported and (renegotiation offers only, the
// ICE agent must exist) ICERestart; the foreign model restarts ICE itself (new credentials in its offer, which makes
// pion restart as the answerer) and renews its credentials when pion's offer did. An ICE restart is a renegotiation
// like any other: the statement's "every later offer or answer" has no exception for it. The option draws come from a
// second per-case stream, so the operation sequence of a case does not depend on them.
//
// Cause attribution: when a description generated with non-default options violates an oracle, the same call is
// repeated (CreateOffer/CreateAnswer may be called again in the same signalling state) with nil options and with each
// of the options alone; the signature gets ":only-with-<options>" when the nil-options description is clean. The
// history ends at the first violating description (the layout later rounds have to agree with is broken by then).

import (
	"fmt"
	"sort"
	"strconv"
	"strings"
	"testing"
	"time"

	kit "github.com/pion/webrtc/v4/internal/verifkit"
)

type c09Rec struct {
	id     int
	origin string // local | remote
	typ    string
	mids   []string
	kinds  []string
	ports  []string
	opts   string // options the description was generated with ("" for applied foreign descriptions)
}

// c09Opts is one point of the OfferOptions / AnswerOptions space.
type c09Opts struct{ set, vad, trickle, restart bool }

func (o c09Opts) names() []string {
	var out []string
	if o.restart {
		out = append(out, "ice-restart")
	}
	if o.trickle {
		out = append(out, "trickle")
	}
	if o.vad {
		out = append(out, "vad")
	}
	if o.set && len(out) == 0 {
		out = append(out, "empty-options")
	}

	return out
}

func (o c09Opts) label() string {
	if !o.set {
		return "nil"
	}

	return strings.Join(o.names(), "+")
}

func c09OptsOf(names []string) c09Opts {
	o := c09Opts{set: len(names) > 0}
	for _, n := range names {
		switch n {
		case "ice-restart":
			o.restart = true
		case "trickle":
			o.trickle = true
		case "vad":
			o.vad = true
		}
	}

	return o
}

func (o c09Opts) create(pc *PeerConnection, typ string) (SessionDescription, error) {
	base := OfferAnswerOptions{VoiceActivityDetection: o.vad, ICETricklingSupported: o.trickle}
	if typ == "offer" {
		if !o.set {
			return pc.CreateOffer(nil)
		}

		return pc.CreateOffer(&OfferOptions{OfferAnswerOptions: base, ICERestart: o.restart})
	}
	if !o.set {
		return pc.CreateAnswer(nil)
	}

	return pc.CreateAnswer(&AnswerOptions{OfferAnswerOptions: base})
}

type c09Finding struct{ sig, what string }

type c09Conn struct {
	name     string
	pc       *PeerConnection
	applied  []c09Rec
	firstIdx map[string]int    // mid -> index in the first description that contained it
	firstKnd map[string]string // mid -> media kind there
	firstID  map[string]int    // mid -> id of that description
	dupSeen  map[string]int    // mid -> id of the first applied description that carried it on several sections
	midOf    map[*RTPTransceiver]string
	order    []*RTPTransceiver
	nTracks  int
	added    int
}

type c09Hist struct {
	run             *kit.Run
	idx             int
	r               *kit.Rand
	ro              *kit.Rand // option stream (second per-case stream)
	mode            string
	ops             []string
	texts           []string
	nextID          int
	rounds          int
	addLate         int // additions made after the first completed round
	restarts        int // offers generated with ICERestart
	foreignRestarts int
	stop            bool
	stopReason      string
}

func (h *c09Hist) logf(f string, a ...any) { h.ops = append(h.ops, fmt.Sprintf(f, a...)) }

func (h *c09Hist) apiErr(where string, err error) {
	h.logf("%s -> error %v", where, err)
	s := err.Error()
	if len(s) > 70 {
		s = s[:70]
	}
	h.run.Seen("api_error", where+": "+s)
	h.stop = true
	h.stopReason = "api error"
}

func (h *c09Hist) violation(sig, what string) {
	h.run.Violation(sig, fmt.Sprintf("%s history: %s", h.mode, what), h.idx, map[string]any{
		"mode": h.mode, "ops": h.ops, "descriptions": h.texts,
	})
}

func c09NewConn(name string, pc *PeerConnection) *c09Conn {
	return &c09Conn{
		name: name, pc: pc, firstIdx: map[string]int{}, firstKnd: map[string]string{}, firstID: map[string]int{},
		midOf: map[*RTPTransceiver]string{}, dupSeen: map[string]int{},
	}
}

func c09Parse(text string) (c09Rec, error) {
	d, err := kit.ParseSDP(text)
	if err != nil {
		return c09Rec{}, err
	}
	var rec c09Rec
	for _, m := range d.Media {
		mid, _ := m.Mid()
		rec.mids = append(rec.mids, mid)
		rec.kinds = append(rec.kinds, m.Kind)
		rec.ports = append(rec.ports, m.Port)
	}

	return rec, nil
}

func (rec c09Rec) String() string {
	parts := make([]string, 0, len(rec.mids))
	for i := range rec.mids {
		parts = append(parts, fmt.Sprintf("%s:%s:%s", rec.kinds[i], rec.mids[i], rec.ports[i]))
	}

	return strings.Join(parts, " ")
}

func (rec c09Rec) dupMids() []string {
	n := map[string]int{}
	for _, m := range rec.mids {
		if m != "" {
			n[m]++
		}
	}
	var out []string
	for m, k := range n {
		if k > 1 {
			out = append(out, m)
		}
	}
	sort.Strings(out)

	return out
}

// observe is T1/T2: look at every transceiver of the connection after an API step. curID is the id of the description
// the step produced or applied (or the id the next description will get, for steps without a description).
func (c *c09Conn) observe(h *c09Hist, when string, curID int) {
	for _, t := range c.pc.GetTransceivers() {
		mid := t.Mid()
		prev, known := c.midOf[t]
		if !known {
			c.order = append(c.order, t)
		}
		switch {
		case known && prev != "" && prev != mid:
			h.violation("mid-changed", fmt.Sprintf("%s: transceiver #%d (%s) had mid %q, after %s Mid()=%q",
				c.name, c.indexOf(t), t.Kind(), prev, when, mid))
		case (!known || prev == "") && mid != "":
			h.run.Count("transceiver_mids_assigned", 1)
			if id, seen := c.firstID[mid]; seen && id < curID {
				h.violation("mid-reused-by-new-transceiver", fmt.Sprintf(
					"%s: transceiver #%d (%s) was given mid %q during %s (description %d), but that mid already occurred in description %d of this connection",
					c.name, c.indexOf(t), t.Kind(), mid, when, curID, id))
			}
		}
		c.midOf[t] = mid
	}
}

func (c *c09Conn) indexOf(t *RTPTransceiver) int {
	for i, x := range c.order {
		if x == t {
			return i
		}
	}

	return -1
}

// generated counts what a description the connection has just produced exercises and judges it.
func (c *c09Conn) generated(h *c09Hist, rec c09Rec) []c09Finding {
	h.run.Count("descriptions_generated_"+rec.typ, 1)
	if len(rec.dupMids()) > 0 {
		h.run.Count("descriptions_with_duplicate_mid", 1)
		h.stop = true
		h.stopReason = "duplicate mid"
	}
	if rec.typ == "offer" && len(c.applied) > 0 {
		newMedia, newApp := false, false
		for i, mid := range rec.mids {
			if first, old := c.firstIdx[mid]; mid == "" || (old && first == i) {
				continue
			}
			if rec.kinds[i] == "application" {
				newApp = true
			} else {
				newMedia = true
			}
		}
		switch {
		case newMedia && newApp:
			h.run.Count("reneg_offers_new_media_and_new_application", 1)
		case newApp:
			h.run.Count("reneg_offers_new_application_only", 1)
		case newMedia:
			h.run.Count("reneg_offers_new_media_only", 1)
		}
	}

	return c.judge(h, rec, false)
}

// judge is P1/P2/U1 for a generated description. quiet: no counters, no log lines (attribution probes).
func (c *c09Conn) judge(h *c09Hist, rec c09Rec, quiet bool) []c09Finding { //nolint:cyclop
	var out []c09Finding
	count := func(k string) {
		if !quiet {
			h.run.Count(k, 1)
		}
	}
	dups := map[string]bool{}
	for _, m := range rec.dupMids() {
		dups[m] = true
	}
	if len(dups) > 0 {
		out = append(out, c.duplicates(h, rec, quiet)...)
	}
	var prev *c09Rec
	if len(c.applied) > 0 {
		prev = &c.applied[len(c.applied)-1]
	}
	lastOld := -1
	for i, mid := range rec.mids {
		if mid == "" || dups[mid] {
			continue
		}
		if _, old := c.firstIdx[mid]; old {
			lastOld = i
		}
	}
	for i, mid := range rec.mids {
		if mid == "" {
			count("sections_without_mid")

			continue
		}
		if dups[mid] {
			continue
		}
		first, old := c.firstIdx[mid]
		if old {
			count("carried_sections_checked")
			if first != i {
				out = append(out, c09Finding{"position-changed:" + rec.typ, fmt.Sprintf(
					"%s: %s %d has mid %q at index %d, but description %d (first with that mid) had it at index %d; now: %s",
					c.name, rec.typ, rec.id, mid, i, c.firstID[mid], first, rec)})
			}
			if k := c.firstKnd[mid]; k != rec.kinds[i] {
				out = append(out, c09Finding{"mid-kind-changed", fmt.Sprintf(
					"%s: %s %d mid %q is m=%s, it was m=%s in description %d; now: %s",
					c.name, rec.typ, rec.id, mid, rec.kinds[i], k, c.firstID[mid], rec)})
			}

			continue
		}
		count("new_sections_checked")
		if i < lastOld {
			if prev != nil && i < len(prev.ports) && prev.ports[i] == "0" {
				count("recycled_rejected_slot")

				continue
			}
			out = append(out, c09Finding{"new-section-not-appended:" + rec.typ, fmt.Sprintf(
				"%s: %s %d introduces mid %q at index %d, before carried-over section at index %d; now: %s",
				c.name, rec.typ, rec.id, mid, i, lastOld, rec)})

			continue
		}
		// "appended after existing sections": the slots of the description applied last are the existing sections,
		// also when the section that held the slot is missing from this description.
		if prev != nil && i < len(prev.mids) && prev.mids[i] != "" {
			if prev.ports[i] == "0" {
				count("recycled_rejected_slot")

				continue
			}
			out = append(out, c09Finding{"new-section-in-existing-slot:" + rec.typ, fmt.Sprintf(
				"%s: %s %d introduces mid %q at index %d, the slot of section %s:%s of description %d (applied last, not rejected); now: %s",
				c.name, rec.typ, rec.id, mid, i, prev.kinds[i], prev.mids[i], prev.id, rec)})
		}
	}
	if prev != nil && !quiet {
		// not forbidden by the statement (it speaks of descriptions that include the section), only counted
		present := map[string]bool{}
		for _, mid := range rec.mids {
			present[mid] = true
		}
		for _, mid := range prev.mids {
			if mid != "" && !present[mid] {
				h.run.Count("model_divergence_section_dropped", 1)
				h.logf("  %s %d does not contain mid %q of description %d", rec.typ, rec.id, mid, prev.id)
			}
		}
	}

	return out
}

// duplicates is U1 for a generated description in which some mid occurs on several sections.
func (c *c09Conn) duplicates(h *c09Hist, rec c09Rec, quiet bool) []c09Finding {
	var out []c09Finding
	for _, mid := range rec.dupMids() {
		if id, inherited := c.dupSeen[mid]; inherited {
			if !quiet {
				h.run.Count("duplicate_mid_mirrored", 1)
				h.logf("  %s %d mirrors duplicate mid %q of description %d", rec.typ, rec.id, mid, id)
			}

			continue
		}
		holder := -1
		for _, t := range c.pc.GetTransceivers() {
			if t.Mid() == mid {
				holder = c.indexOf(t)
			}
		}
		if holder < 0 {
			if !quiet {
				h.run.Count("duplicate_mid_without_transceiver", 1)
			}

			continue
		}
		var classes, where []string
		for i, m := range rec.mids {
			if m != mid {
				continue
			}
			class := "new-"
			if first, old := c.firstIdx[mid]; old && first == i {
				class = "carried-"
			}
			if rec.kinds[i] == "audio" || rec.kinds[i] == "video" {
				class += "media"
			} else {
				class += rec.kinds[i]
			}
			classes = append(classes, class)
			where = append(where, fmt.Sprintf("%d (m=%s)", i, rec.kinds[i]))
		}
		out = append(out, c09Finding{"mid-shared-by-sections:" + rec.typ + ":" + strings.Join(classes, "+"), fmt.Sprintf(
			"%s: %s %d carries mid %q, held by transceiver #%d, on the sections at index %s; no description applied before had that duplicate; now: %s",
			c.name, rec.typ, rec.id, mid, holder, strings.Join(where, " and "), rec)})
	}

	return out
}

// layoutClass says whether the layout of the last applied description is the one a description built from the local
// state alone would have: transceivers in list order, application section last ("list-order"), or not ("other").
func (c *c09Conn) layoutClass() string {
	if len(c.applied) == 0 {
		return "none"
	}
	last := c.applied[len(c.applied)-1]
	held := map[string]bool{}
	var byList, bySDP []string
	for _, t := range c.pc.GetTransceivers() {
		if m := t.Mid(); m != "" {
			held[m] = true
		}
	}
	inSDP := map[string]bool{}
	for i, m := range last.mids {
		if last.kinds[i] == "application" {
			if i != len(last.mids)-1 {
				return "other"
			}

			continue
		}
		if held[m] {
			bySDP = append(bySDP, m)
			inSDP[m] = true
		}
	}
	for _, t := range c.pc.GetTransceivers() {
		if m := t.Mid(); inSDP[m] {
			byList = append(byList, m)
		}
	}
	if strings.Join(byList, "\x00") != strings.Join(bySDP, "\x00") {
		return "other"
	}

	return "list-order"
}

// apply records a description the connection applied (local or remote).
func (c *c09Conn) apply(rec c09Rec, origin string) {
	rec.origin = origin
	c.applied = append(c.applied, rec)
	dups := map[string]bool{}
	for _, m := range rec.dupMids() {
		dups[m] = true
	}
	for m := range dups {
		if _, ok := c.dupSeen[m]; !ok {
			c.dupSeen[m] = rec.id
		}
	}
	for i, mid := range rec.mids {
		if mid == "" || dups[mid] {
			continue
		}
		if _, ok := c.firstIdx[mid]; !ok {
			c.firstIdx[mid] = i
			c.firstKnd[mid] = rec.kinds[i]
			c.firstID[mid] = rec.id
		}
	}
}

// ---------------------------------------------------------------- local operations

func c09Track(c *c09Conn, kind RTPCodecType) TrackLocal {
	mime := MimeTypeVP8
	if kind == RTPCodecTypeAudio {
		mime = MimeTypeOpus
	}
	c.nTracks++
	t, err := NewTrackLocalStaticRTP(RTPCodecCapability{MimeType: mime}, fmt.Sprintf("%s-t%d", c.name, c.nTracks), "s-"+c.name)
	if err != nil {
		panic(err)
	}

	return t
}

func (h *c09Hist) localOp(c *c09Conn, forceAdd bool) { //nolint:cyclop
	r := h.r
	pc := c.pc
	kind := kit.Pick(r, []RTPCodecType{RTPCodecTypeAudio, RTPCodecTypeVideo})
	op := r.Intn(11)
	if forceAdd && op >= 6 && op <= 8 {
		op = r.Intn(6)
	}
	if len(pc.GetTransceivers()) >= 8 && op <= 5 {
		op = 7
	}
	added := false
	var err error
	switch op {
	case 0, 1, 2:
		dir := kit.Pick(r, []RTPTransceiverDirection{
			RTPTransceiverDirectionSendrecv, RTPTransceiverDirectionSendonly, RTPTransceiverDirectionRecvonly,
		})
		h.logf("%s.AddTransceiverFromKind(%s,%s)", c.name, kind, dir)
		_, err = pc.AddTransceiverFromKind(kind, RTPTransceiverInit{Direction: dir})
		added = err == nil
	case 3:
		dir := kit.Pick(r, []RTPTransceiverDirection{RTPTransceiverDirectionSendrecv, RTPTransceiverDirectionSendonly})
		h.logf("%s.AddTransceiverFromTrack(%s,%s)", c.name, kind, dir)
		_, err = pc.AddTransceiverFromTrack(c09Track(c, kind), RTPTransceiverInit{Direction: dir})
		added = err == nil
	case 4, 5:
		h.logf("%s.AddTrack(%s)", c.name, kind)
		_, err = pc.AddTrack(c09Track(c, kind))
		added = err == nil
	case 6:
		var senders []*RTPSender
		for _, s := range pc.GetSenders() {
			if s.Track() != nil {
				senders = append(senders, s)
			}
		}
		if len(senders) == 0 {
			return
		}
		k := r.Intn(len(senders))
		h.logf("%s.RemoveTrack(sender#%d)", c.name, k)
		if rerr := pc.RemoveTrack(senders[k]); rerr != nil {
			h.logf("  -> %v", rerr) // refused removals leave the connection usable
			h.run.Seen("api_error", "RemoveTrack: "+rerr.Error())
		}
		h.run.Count("op_remove_track", 1)
	case 7:
		ts := pc.GetTransceivers()
		if len(ts) == 0 {
			return
		}
		k := r.Intn(len(ts))
		h.logf("%s.transceiver#%d.Stop() (mid %q)", c.name, c.indexOf(ts[k]), ts[k].Mid())
		if serr := ts[k].Stop(); serr != nil {
			h.logf("  -> %v", serr)
		}
		h.run.Count("op_stop", 1)
	case 8:
		// direct attempt to overwrite a mid through the public API: T1 must still hold
		ts := pc.GetTransceivers()
		if len(ts) == 0 {
			return
		}
		t := ts[r.Intn(len(ts))]
		if t.Mid() == "" {
			return
		}
		serr := t.SetMid("vf" + strconv.Itoa(r.Intn(100)))
		h.logf("%s.transceiver#%d.SetMid(other) on mid %q -> err=%v", c.name, c.indexOf(t), c.midOf[t], serr != nil)
		h.run.Count("op_setmid_probe", 1)
	default:
		h.logf("%s.CreateDataChannel", c.name)
		_, err = pc.CreateDataChannel(fmt.Sprintf("dc%d", c.added), nil)
		added = err == nil
		if added {
			h.run.Count("op_data_channel", 1)
		}
	}
	if err != nil {
		h.logf("  -> %v", err)
		h.run.Seen("api_error", "add: "+err.Error())
	}
	if added {
		c.added++
		h.run.Count("op_additions", 1)
		if h.rounds >= 1 {
			h.addLate++
		}
	}
	c.observe(h, "local operation", h.nextID)
}

// ---------------------------------------------------------------- rounds

func (h *c09Hist) gather(c *c09Conn) bool {
	if rigGatherDone(c.pc, 15*time.Second) {
		return true
	}
	reason := "gathering watchdog"
	if h.restarts > 0 || h.foreignRestarts > 0 {
		reason += " in a history with ICE restarts"
	}
	h.run.Inconclusive(reason)
	h.run.Seen("watchdog_case", fmt.Sprintf("%s case %d after %d rounds, last op: %s", c.name, h.idx, h.rounds, h.ops[len(h.ops)-1]))
	h.stop = true
	h.stopReason = "watchdog"

	return false
}

// pickOpts draws the options of the next CreateOffer / CreateAnswer of c. ICERestart needs an ICE agent (it exists
// once the connection has generated or answered a description) and is a renegotiation feature: it is only drawn for
// offers after the first completed round.
func (h *c09Hist) pickOpts(c *c09Conn, typ string) c09Opts {
	ro := h.ro
	nilOpts, vad, trickle, restart := ro.Chance(0.4), ro.Chance(0.35), ro.Chance(0.35), ro.Chance(0.5)
	if nilOpts {
		return c09Opts{}
	}
	o := c09Opts{set: true, vad: vad, trickle: trickle}
	if typ == "offer" && h.rounds >= 1 && len(c.applied) > 0 {
		o.restart = restart
	}

	return o
}

// attribute decides whether the findings of a description generated with options o depend on the options: the call is
// repeated with nil options and with every option of o alone, each result is judged like the original. Returned is the
// signature suffix per finding signature ("" when the nil-options description violates in the same way).
func (h *c09Hist) attribute(c *c09Conn, typ string, id int, o c09Opts, findings []c09Finding) map[string]string {
	probe := func(po c09Opts) (map[string]bool, bool) {
		sd, err := po.create(c.pc, typ)
		if err != nil {
			h.logf("  probe %s.Create%s(%s) -> error %v", c.name, typ, po.label(), err)

			return nil, false
		}
		rec, perr := c09Parse(sd.SDP)
		if perr != nil {
			return nil, false
		}
		rec.id, rec.typ, rec.opts = id, typ, po.label()
		sigs := map[string]bool{}
		for _, f := range c.judge(h, rec, true) {
			sigs[f.sig] = true
		}
		h.logf("  probe %s.Create%s(%s) => %s (%d findings)", c.name, typ, po.label(), rec, len(sigs))
		h.run.Count("attribution_probes", 1)

		return sigs, true
	}
	out := map[string]string{}
	fallback := ":with-" + strings.Join(o.names(), "+")
	base, ok := probe(c09Opts{})
	single := map[string]map[string]bool{}
	for _, f := range findings {
		if _, done := out[f.sig]; done {
			continue
		}
		switch {
		case !ok:
			out[f.sig] = fallback
		case base[f.sig]:
			out[f.sig] = ""
		default:
			var causes []string
			failed := false
			for _, n := range o.names() {
				if _, probed := single[n]; !probed {
					sigs, pok := probe(c09OptsOf([]string{n}))
					if !pok {
						failed = true
						sigs = map[string]bool{}
					}
					single[n] = sigs
				}
				if single[n][f.sig] {
					causes = append(causes, n)
				}
			}
			switch {
			case len(causes) > 0:
				out[f.sig] = ":only-with-" + strings.Join(causes, "+")
			case failed:
				out[f.sig] = fallback
			default:
				out[f.sig] = ":only-with-" + strings.Join(o.names(), "+") // the combination, no single option
			}
		}
	}

	return out
}

// createAndSet generates a description on c (offer or answer), runs the oracles and applies it locally.
func (h *c09Hist) createAndSet(c *c09Conn, typ string) (c09Rec, string, bool) {
	id := h.nextID
	o := h.pickOpts(c, typ)
	layout := c.layoutClass()
	sd, err := o.create(c.pc, typ)
	if err != nil {
		h.apiErr(c.name+".Create"+typ+"("+o.label()+")", err)

		return c09Rec{}, "", false
	}
	h.nextID++
	h.run.Seen(typ+"_options", o.label())
	if typ == "offer" && layout != "none" {
		h.run.Count("reneg_offers_on_layout_"+layout, 1)
		if o.restart {
			h.run.Count("ice_restart_offers_on_layout_"+layout, 1)
			h.restarts++
		}
	}
	rec, perr := c09Parse(sd.SDP)
	if perr != nil {
		h.violation("unparsable", perr.Error())
		h.stop = true

		return rec, "", false
	}
	rec.id, rec.typ, rec.opts = id, typ, o.label()
	h.texts = append(h.texts, fmt.Sprintf("#%d %s by %s, options %s\n%s", id, typ, c.name, o.label(), sd.SDP))
	h.logf("  #%d %s.%s(%s) => %s", id, c.name, typ, o.label(), rec)
	c.observe(h, "Create"+typ, id)
	if findings := c.generated(h, rec); len(findings) > 0 {
		suffix := map[string]string{}
		if o.set {
			suffix = h.attribute(c, typ, id, o, findings)
		}
		for _, f := range findings {
			what := f.what
			switch sfx := suffix[f.sig]; {
			case sfx != "":
				what += "; generated with options " + o.label() + ", the same call with nil options gives a description without this fault"
			case o.set:
				what += "; generated with options " + o.label() + ", nil options give the same fault"
			}
			h.violation(f.sig+suffix[f.sig], what)
		}
		h.stop = true
		h.stopReason = "violation"

		return rec, "", false
	}
	if err = c.pc.SetLocalDescription(sd); err != nil {
		h.apiErr(c.name+".SetLocalDescription("+typ+")", err)

		return rec, "", false
	}
	c.apply(rec, "local")
	c.observe(h, "SetLocalDescription("+typ+")", id)
	if !h.gather(c) {
		return rec, "", false
	}

	return rec, c.pc.LocalDescription().SDP, true
}

// setRemote applies a description produced elsewhere.
func (h *c09Hist) setRemote(c *c09Conn, typ SDPType, text string, rec c09Rec) bool {
	if err := c.pc.SetRemoteDescription(SessionDescription{Type: typ, SDP: text}); err != nil {
		h.apiErr(c.name+".SetRemoteDescription("+typ.String()+")", err)

		return false
	}
	c.apply(rec, "remote")
	c.observe(h, "SetRemoteDescription("+typ.String()+")", rec.id)

	return true
}

func (h *c09Hist) pairRound(off, ans *c09Conn) bool {
	h.logf("round %d: %s offers", h.rounds, off.name)
	orec, otext, ok := h.createAndSet(off, "offer")
	if !ok {
		return false
	}
	if !h.setRemote(ans, SDPTypeOffer, otext, orec) {
		return false
	}
	arec, atext, ok := h.createAndSet(ans, "answer")
	if !ok {
		return false
	}
	if !h.setRemote(off, SDPTypeAnswer, atext, arec) {
		return false
	}
	h.rounds++
	h.run.Count("rounds_completed", 1)

	return !h.stop
}

// ---------------------------------------------------------------- foreign peer model

type c09Foreign struct {
	g        *genSDP
	style    int
	used     map[string]bool
	nextNum  int
	nonNum   int
	ssrc     uint32
	rejectOK bool
	creds    int    // ICE credential generations of the model
	pionICE  string // ice-ufrag of pion's last offer
}

// renewICE gives the model new ICE credentials (an ICE restart on its side).
func (f *c09Foreign) renewICE() {
	f.creds++
	f.g.Ufrag = fmt.Sprintf("vfUfrag%04d", f.creds)
	f.g.Pwd = fmt.Sprintf("vfPasswordvfPasswordvfPwd%04d", f.creds)
}

func (f *c09Foreign) freshMid(r *kit.Rand) string {
	style := f.style
	if style == 3 {
		style = r.Intn(3)
	}
	for {
		var mid string
		switch style {
		case 0:
			mid = strconv.Itoa(f.nextNum)
			f.nextNum++
		case 1:
			f.nextNum += r.Range(1, 4)
			mid = strconv.Itoa(f.nextNum)
			f.nextNum++
		default:
			f.nonNum++
			mid = kit.Pick(r, []string{"cam", "mic", "x-", "m", "sec", "a"}) + strconv.Itoa(f.nonNum)
		}
		if !f.used[mid] {
			f.used[mid] = true

			return mid
		}
	}
}

func (f *c09Foreign) note(mid string) {
	f.used[mid] = true
	if n, err := strconv.Atoi(mid); err == nil && n >= f.nextNum {
		f.nextNum = n + 1
	}
}

func (f *c09Foreign) newMedia(r *kit.Rand, kind, mid, dir string) *genMedia {
	m := &genMedia{Kind: kind, Mid: mid, Port: 9, Proto: "UDP/TLS/RTP/SAVPF", Setup: "actpass", RTCPMux: true, Dir: dir}
	switch kind {
	case "application":
		m.Proto, m.SCTPPort, m.Dir = "UDP/DTLS/SCTP", 5000, ""
	case "audio":
		m.Codecs = genDefaultAudio()
	default:
		m.Codecs = genDefaultVideo()
	}
	if kind != "application" && (dir == "sendrecv" || dir == "sendonly") {
		f.ssrc++
		m.Msid = fmt.Sprintf("fstream ftrack%d", f.ssrc)
		m.SSRCs = []uint32{f.ssrc}
	}
	_ = r

	return m
}

// offer adds 0..2 sections of its own (and sometimes rejects one) and renders the next foreign offer.
func (f *c09Foreign) offer(h *c09Hist, first bool) string {
	r := h.r
	hasApp := false
	for _, m := range f.g.Media {
		if m.Kind == "application" {
			hasApp = true
		}
	}
	n := r.Range(0, 2)
	if first {
		n = 0
	}
	for ; n > 0 && len(f.g.Media) < 10; n-- {
		kind := kit.Pick(r, []string{"audio", "video", "video", "application"})
		if kind == "application" && hasApp {
			kind = "audio"
		}
		if kind == "application" {
			hasApp = true
		}
		m := f.newMedia(r, kind, f.freshMid(r), kit.Pick(r, []string{"sendrecv", "sendonly", "recvonly", "inactive"}))
		f.g.Media = append(f.g.Media, m)
		h.logf("foreign adds %s mid %q", kind, m.Mid)
		h.run.Count("foreign_sections_added", 1)
	}
	if f.rejectOK && !first && r.Chance(0.15) {
		m := kit.Pick(r, f.g.Media)
		if m.Kind != "application" && m.Port != 0 {
			m.Port = 0
			h.logf("foreign rejects mid %q", m.Mid)
			h.run.Count("foreign_sections_rejected", 1)
		}
	}
	if !first && h.ro.Chance(0.25) {
		f.renewICE() // remote ICE restart: pion restarts as the answerer
		h.logf("foreign restarts ICE")
		h.run.Count("foreign_ice_restart_offers", 1)
		h.foreignRestarts++
	}
	for _, m := range f.g.Media {
		m.Setup = "actpass"
	}
	f.g.SessVer++

	return f.g.String()
}

var c09Responses = map[string][]string{ //nolint:gochecknoglobals
	"sendrecv": {"sendrecv", "recvonly", "sendonly", "inactive"}, "sendonly": {"recvonly", "inactive"},
	"recvonly": {"sendonly", "inactive"}, "inactive": {"inactive"},
}

// answer mirrors pion's offer: sections this model does not know yet are adopted (same kind, same mid, same index).
func (f *c09Foreign) answer(h *c09Hist, offerText string) (string, bool) {
	r := h.r
	d, err := kit.ParseSDP(offerText)
	if err != nil {
		return "", false
	}
	if len(d.Media) < len(f.g.Media) {
		h.logf("foreign: pion offer has fewer sections (%d) than the session (%d)", len(d.Media), len(f.g.Media))

		return "", false
	}
	ufrag, _ := d.Attr("ice-ufrag")
	if len(d.Media) > 0 {
		if u, ok := d.Media[0].Attr("ice-ufrag"); ok {
			ufrag = u
		}
	}
	if f.pionICE != "" && ufrag != f.pionICE {
		f.renewICE() // pion restarted ICE: the answerer renews its credentials as well
		h.run.Count("foreign_answers_to_ice_restart", 1)
	}
	f.pionICE = ufrag
	saved := map[*genMedia]string{}
	for i, pm := range d.Media {
		mid, _ := pm.Mid()
		offered := "sendrecv"
		if ds := pm.Directions(); len(ds) > 0 {
			offered = ds[0]
		}
		if i >= len(f.g.Media) {
			want := kit.Pick(r, []string{"sendrecv", "recvonly", "recvonly", "inactive"})
			m := f.newMedia(r, pm.Kind, mid, want)
			f.note(mid)
			f.g.Media = append(f.g.Media, m)
		}
		m := f.g.Media[i]
		if m.Mid != mid || m.Kind != pm.Kind {
			h.logf("foreign: pion offer section %d is %s:%q, the session has %s:%q", i, pm.Kind, mid, m.Kind, m.Mid)

			return "", false
		}
		saved[m] = m.Dir
		if m.Kind != "application" {
			legal := c09Responses[offered]
			resp := legal[len(legal)-1]
			for _, l := range legal {
				if l == m.Dir {
					resp = l
				}
			}
			if (resp == "sendrecv" || resp == "sendonly") && len(m.SSRCs) == 0 {
				f.ssrc++
				m.Msid = fmt.Sprintf("fstream ftrack%d", f.ssrc)
				m.SSRCs = []uint32{f.ssrc}
			}
			m.Dir = resp
		}
		m.Setup = "active"
		if pm.Rejected() {
			m.Port = 0
		}
	}
	f.g.SessVer++
	text := f.g.String()
	for m, dir := range saved {
		m.Dir = dir
	}

	return text, true
}

func (h *c09Hist) runGen(c *c09Conn, style int) { //nolint:cyclop
	r := h.r
	g := genRandomOffer(r, genOpts{MaxSections: r.Range(1, 5), MidStyle: style, ExtPermute: r.Bool(), MediaLevelSec: r.Chance(0.3)})
	f := &c09Foreign{g: g, style: style, used: map[string]bool{}, ssrc: 424200, rejectOK: r.Bool()}
	for _, m := range g.Media {
		f.note(m.Mid)
	}
	total := r.Range(2, 8)
	foreignTurn := true
	for round := 0; round < total && !h.stop; round++ {
		for k := r.Range(0, 2); k > 0; k-- {
			h.localOp(c, round > 0 && !foreignTurn)
		}
		if foreignTurn {
			text := f.offer(h, round == 0)
			rec, err := c09Parse(text)
			if err != nil {
				panic("foreign offer does not parse: " + err.Error())
			}
			rec.id, rec.typ = h.nextID, "offer"
			h.nextID++
			h.texts = append(h.texts, fmt.Sprintf("#%d foreign offer\n%s", rec.id, text))
			h.logf("round %d: #%d foreign offer => %s", h.rounds, rec.id, rec)
			if !h.setRemote(c, SDPTypeOffer, text, rec) {
				return
			}
			if _, _, ok := h.createAndSet(c, "answer"); !ok {
				return
			}
		} else {
			h.logf("round %d: %s offers", h.rounds, c.name)
			_, otext, ok := h.createAndSet(c, "offer")
			if !ok || h.stop {
				return
			}
			text, ok := f.answer(h, otext)
			if !ok {
				h.stop = true
				h.stopReason = "foreign model cannot mirror the offer"
				h.run.Count("foreign_cannot_mirror", 1)

				return
			}
			rec, err := c09Parse(text)
			if err != nil {
				panic("foreign answer does not parse: " + err.Error())
			}
			rec.id, rec.typ = h.nextID, "answer"
			h.nextID++
			h.texts = append(h.texts, fmt.Sprintf("#%d foreign answer\n%s", rec.id, text))
			h.logf("  #%d foreign answer => %s", rec.id, rec)
			if !h.setRemote(c, SDPTypeAnswer, text, rec) {
				return
			}
		}
		h.rounds++
		h.run.Count("rounds_completed", 1)
		if r.Chance(0.75) {
			foreignTurn = !foreignTurn
		}
	}
}

// ---------------------------------------------------------------- driver

// c09OptStream separates the option stream of a case from its operation stream (case indices stay far below it).
const c09OptStream = 1 << 24

func TestVerifC09(t *testing.T) {
	run := kit.Start(t, "C09", "seeded Unified-Plan renegotiation histories without rollback (pure function of seed,index): "+
		"pair = two pion PeerConnections, 2..10 complete rounds, offerer alternating with probability 0.8, random AddTransceiverFromKind/FromTrack, "+
		"AddTrack, CreateDataChannel, RemoveTrack, Stop and SetMid-overwrite probes on both peers between rounds, each PeerConnection with "+
		"AlwaysNegotiateDataChannels with probability 0.2; gen = one pion PeerConnection against a "+
		"foreign peer model (dense / sparse / non-numeric / mixed mids by index) that offers, mirrors pion's offers and adds or rejects sections itself. "+
		"Every CreateOffer/CreateAnswer gets random options (nil, empty, VoiceActivityDetection, ICETricklingSupported, and ICERestart on renegotiation offers); "+
		"the foreign model restarts ICE too. "+
		"Every generated description (positions, appending, one section per transceiver mid) and Mid() of every transceiver after every step are checked. Non-trivial: >= 3 completed rounds and >= 1 addition "+
		"after the first round; distinct by the operation/outcome log")
	defer run.Finish()
	run.Assume("Unified Plan only: under Plan-B one m-section carries several transceivers and transceivers get no individual mid")
	run.Assume("'earlier local or remote description' = descriptions the connection applied (SetLocalDescription / SetRemoteDescription succeeded)")
	run.Assume("re-use of the slot of a section that was rejected in the previous description (JSEP recycling) would be tolerated and counted; other placements of new sections before carried-over ones are violations")
	run.Assume("a mid names one m-section: a generated description carrying the mid of one of the connection's transceivers on several sections violates 'its m-section keeps the same mid and position' / 'new sections never reuse a mid', unless the duplicate is mirrored from a description applied earlier (remote offer); the history stops at the first duplicate")
	run.Assume("an ICE restart offer is a renegotiation offer like any other ('every later offer or answer'); offer/answer options do not suspend the property")
	run.Assume("foreign offers contain only audio/video/application sections with a direction attribute (other sections are dropped by pion's answer, C07's finding)")

	n := kit.N(480, 8000)
	run.Parallel(n, 16, func(i int) {
		r := run.CaseRand(i)
		h := &c09Hist{run: run, idx: i, r: r, ro: run.CaseRand(i + c09OptStream)}
		defer func() {
			if rec := recover(); rec != nil {
				run.Inconclusive(fmt.Sprintf("panic in history: %v", rec))
				fmt.Printf("C09 case %d: panic %v\nops: %s\n", i, rec, strings.Join(h.ops, "\n"))
			}
		}()
		mk := func(name string) *c09Conn {
			always := r.Chance(0.2)
			if always {
				run.Count("pc_always_negotiate_data_channels", 1)
				h.logf("%s has AlwaysNegotiateDataChannels", name)
			}
			pc, err := rigNewPC(rigOpts{Cfg: Configuration{SDPSemantics: SDPSemanticsUnifiedPlan, AlwaysNegotiateDataChannels: always}})
			if err != nil {
				panic(fmt.Sprintf("NewPeerConnection: %v", err))
			}

			return c09NewConn(name, pc)
		}
		if i%3 != 2 {
			h.mode = "pair"
			a, b := mk("A"), mk("B")
			defer rigClose(a.pc, b.pc)
			total := r.Range(2, 10)
			off, ans := a, b
			if r.Bool() {
				off, ans = b, a
			}
			for round := 0; round < total && !h.stop; round++ {
				lo := 0
				if round == 0 {
					lo = 1
				}
				for k := r.Range(lo, 2); k > 0; k-- {
					h.localOp(off, round == 0)
				}
				for k := r.Range(0, 2); k > 0; k-- {
					h.localOp(ans, false)
				}
				if !h.pairRound(off, ans) {
					break
				}
				if r.Chance(0.8) {
					off, ans = ans, off
				} else {
					run.Count("same_offerer_twice", 1)
				}
			}
		} else {
			h.mode = "gen"
			c := mk("X")
			defer rigClose(c.pc)
			style := (i / 3) % 4
			run.Seen("gen_mid_style", strconv.Itoa(style))
			h.runGen(c, style)
		}
		run.Seen("mode", h.mode)
		run.Seen("rounds_completed_per_history", fmt.Sprintf("%02d", h.rounds))
		if h.stop {
			run.Seen("history_stopped", h.stopReason)
		}
		if h.restarts > 0 {
			run.Count("histories_with_ice_restart_offer", 1)
		}
		if h.nextID == 0 {
			return
		}
		nontrivial := h.rounds >= 3 && h.addLate >= 1
		run.Case(h.mode+"|"+strings.Join(h.ops, ";"), nontrivial)
		if nontrivial && i%61 < 2 {
			run.Sample(map[string]any{"case": i, "mode": h.mode, "ops": h.ops})
		}
	})
}
