//go:build !js

package webrtc

import (
	"bytes"
	"fmt"
	"reflect"
	"strings"
	"testing"

	"github.com/pion/interceptor"
	"github.com/pion/interceptor/pkg/twcc"
	"github.com/pion/rtp"
	"github.com/pion/sdp/v3"
	kit "github.com/pion/webrtc/v4/internal/verifkit"
)

// C29 — static RTP tracks fan out to each binding and leave the caller's packet intact.
//
// Rig: one TrackLocalStaticRTP, a pool of fake TrackLocalContexts (distinct id, SSRC, and a codec table in which
// exactly one entry has the track's mime type, at a payload type that differs from context to context).
// Model: the set of live bindings. Per write, every writer's inbox is inspected:
//   live binding  -> exactly one packet: SSRC = binding's, PT = binding's PT for the track's codec, every other
//                    header field and the payload equal to the caller's (PaddingSize may be taken from the
//                    deprecated Packet.PaddingSize when Header.PaddingSize is 0, as the code documents);
//   not live      -> nothing;
//   caller        -> a deep snapshot taken before the call equals the packet / byte slice after the call.

type c29Rec struct {
	hdr     rtp.Header // deep clone taken inside WriteRTP
	payload []byte
}

type c29Writer struct {
	inbox []c29Rec
	raw   int // calls to Write(b) (the track never uses it; counted)
	// mutate, when non-nil, is a real interceptor writer chain put in front of the recorder (see the TWCC probe)
	mutate interceptor.RTPWriter
}

func (w *c29Writer) record(h *rtp.Header, payload []byte) {
	w.inbox = append(w.inbox, c29Rec{hdr: h.Clone(), payload: append([]byte(nil), payload...)})
}

func (w *c29Writer) WriteRTP(h *rtp.Header, payload []byte) (int, error) {
	if w.mutate != nil {
		return w.mutate.Write(h, payload, nil)
	}
	w.record(h, payload)

	return len(payload), nil
}

func (w *c29Writer) Write(b []byte) (int, error) { w.raw++; return len(b), nil }

type c29Ctx struct {
	id     string
	codecs []RTPCodecParameters
	ssrc   SSRC
	pt     PayloadType // PT of the single entry matching the track's codec (0 + !match when none)
	match  bool
	w      *c29Writer
}

func (c *c29Ctx) CodecParameters() []RTPCodecParameters           { return c.codecs }
func (c *c29Ctx) HeaderExtensions() []RTPHeaderExtensionParameter { return nil }
func (c *c29Ctx) SSRC() SSRC                                      { return c.ssrc }
func (c *c29Ctx) SSRCRetransmission() SSRC                        { return c.ssrc + 1 }
func (c *c29Ctx) SSRCForwardErrorCorrection() SSRC                { return c.ssrc + 2 }
func (c *c29Ctx) WriteStream() TrackLocalWriter                   { return c.w }
func (c *c29Ctx) ID() string                                      { return c.id }
func (c *c29Ctx) RTCPReader() interceptor.RTCPReader              { return nil }

type c29Codec struct {
	cap    RTPCodecCapability
	decoys []RTPCodecCapability
}

var c29Tracks = []c29Codec{ //nolint:gochecknoglobals
	{
		RTPCodecCapability{MimeTypeVP8, 90000, 0, "", nil},
		[]RTPCodecCapability{{MimeTypeVP9, 90000, 0, "profile-id=0", nil}, {MimeTypeH264, 90000, 0, "packetization-mode=1;profile-level-id=42e01f", nil}, {MimeTypeAV1, 90000, 0, "", nil}},
	},
	{
		RTPCodecCapability{MimeTypeOpus, 48000, 2, "minptime=10;useinbandfec=1", nil},
		[]RTPCodecCapability{{MimeTypePCMU, 8000, 0, "", nil}, {MimeTypeG722, 8000, 0, "", nil}, {MimeTypePCMA, 8000, 0, "", nil}},
	},
	{
		RTPCodecCapability{MimeTypeH264, 90000, 0, "level-asymmetry-allowed=1;packetization-mode=1;profile-level-id=42e01f", nil},
		[]RTPCodecCapability{{MimeTypeVP8, 90000, 0, "", nil}, {MimeTypeVP9, 90000, 0, "profile-id=2", nil}, {MimeTypeH265, 90000, 0, "", nil}},
	},
	{
		RTPCodecCapability{"video/verif-custom", 90000, 0, "", nil},
		[]RTPCodecCapability{{MimeTypeVP8, 90000, 0, "", nil}, {MimeTypeOpus, 48000, 2, "", nil}},
	},
}

// c29Packet builds a random caller packet.
func c29Packet(r *kit.Rand) (*rtp.Packet, string) {
	p := &rtp.Packet{Header: rtp.Header{
		Version: 2, Marker: r.Bool(), PayloadType: uint8(r.Intn(128)), SequenceNumber: uint16(r.Intn(65536)),
		Timestamp: r.Uint32(), SSRC: r.Uint32(),
	}}
	var cls []string
	if r.Chance(0.5) {
		n := r.Range(1, 15)
		p.CSRC = make([]uint32, n)
		for i := range p.CSRC {
			p.CSRC[i] = r.Uint32()
		}
		cls = append(cls, fmt.Sprintf("csrc%d", n))
	} else if r.Bool() {
		p.CSRC = []uint32{}
	}
	switch r.Intn(4) {
	case 0: // one-byte
		p.Extension, p.ExtensionProfile = true, rtp.ExtensionProfileOneByte
		ids := []uint8{1, 2, 3, 4, 5, 6, 7, 8, 9, 10, 11, 12, 13, 14}
		kit.Shuffle(r, ids)
		n := r.Range(1, 5)
		for _, id := range ids[:n] {
			_ = p.SetExtension(id, r.Bytes(r.Range(1, 16)))
		}
		cls = append(cls, fmt.Sprintf("ext1x%d", n))
	case 1: // two-byte
		p.Extension, p.ExtensionProfile = true, rtp.ExtensionProfileTwoByte
		n := r.Range(1, 4)
		for j := 0; j < n; j++ {
			_ = p.SetExtension(uint8(1+j*7+r.Intn(7)), r.Bytes(r.Range(0, 40)))
		}
		cls = append(cls, fmt.Sprintf("ext2x%d", n))
	default:
	}
	switch r.Intn(5) {
	case 0:
		p.Payload = nil
	case 1:
		p.Payload = []byte{}
	default:
		p.Payload = r.Bytes(r.Range(1, 1200))
	}
	switch r.Intn(5) {
	case 0: // padding in the header field
		p.Padding, p.Header.PaddingSize = true, byte(r.Range(1, 255))
		cls = append(cls, "padH")
	case 1: // padding only in the deprecated packet-level field
		p.Padding, p.PaddingSize = true, byte(r.Range(1, 255))
		cls = append(cls, "padP")
	case 2: // both
		p.Padding = true
		p.Header.PaddingSize = byte(r.Range(1, 255))
		p.PaddingSize = p.Header.PaddingSize
		cls = append(cls, "padHP")
	default:
	}

	return p, strings.Join(cls, "+")
}

// c29HeaderEqualExcept compares every header field except SSRC and PT (and PaddingSize, handled by the caller).
func c29HeaderDiff(got, want *rtp.Header) string {
	g, w := got.Clone(), want.Clone()
	g.SSRC, g.PayloadType, g.PaddingSize = 0, 0, 0
	w.SSRC, w.PayloadType, w.PaddingSize = 0, 0, 0
	var diffs []string
	if g.Version != w.Version {
		diffs = append(diffs, "version")
	}
	if g.Padding != w.Padding {
		diffs = append(diffs, "padding-bit")
	}
	if g.Extension != w.Extension {
		diffs = append(diffs, "extension-bit")
	}
	if g.Marker != w.Marker {
		diffs = append(diffs, "marker")
	}
	if g.SequenceNumber != w.SequenceNumber {
		diffs = append(diffs, "sequence-number")
	}
	if g.Timestamp != w.Timestamp {
		diffs = append(diffs, "timestamp")
	}
	if len(g.CSRC) != len(w.CSRC) {
		diffs = append(diffs, "csrc")
	} else {
		for i := range g.CSRC {
			if g.CSRC[i] != w.CSRC[i] {
				diffs = append(diffs, "csrc")

				break
			}
		}
	}
	if g.Extension && w.Extension {
		if g.ExtensionProfile != w.ExtensionProfile {
			diffs = append(diffs, "extension-profile")
		}
		gi, wi := g.GetExtensionIDs(), w.GetExtensionIDs()
		if !reflect.DeepEqual(append([]uint8{}, gi...), append([]uint8{}, wi...)) {
			diffs = append(diffs, "extension-ids")
		} else {
			for _, id := range wi {
				if !bytes.Equal(g.GetExtension(id), w.GetExtension(id)) {
					diffs = append(diffs, "extension-payload")

					break
				}
			}
		}
	}
	// second opinion: wire image of the header (independent of field-by-field enumeration above)
	if len(diffs) == 0 {
		gb, e1 := g.Marshal()
		wb, e2 := w.Marshal()
		if (e1 == nil) != (e2 == nil) || !bytes.Equal(gb, wb) {
			diffs = append(diffs, "wire-image")
		}
	}

	return strings.Join(diffs, ",")
}

type c29Op struct {
	Op   string `json:"op"`
	Ctx  int    `json:"ctx"` // -1 for writes
	Note string `json:"note,omitempty"`
	Pkt  string `json:"pkt,omitempty"`
}

func TestVerifC29(t *testing.T) { //nolint:gocyclo,cyclop,maintidx
	run := kit.Start(t, "C29", "seeded histories of 5..200 operations (bind / unbind of the first, a middle or the last live binding / unbind of a stranger / WriteRTP / Write(bytes)) "+
		"on one TrackLocalStaticRTP over a pool of 2..8 fake contexts with distinct ids, SSRCs and payload types for the track's codec; packets with 0..15 CSRCs, one-/two-byte "+
		"extensions, padding in either PaddingSize field, empty/nil payloads; a history is non-trivial when some write happened with ≥ 2 live bindings AND some write happened "+
		"after an unbind that left ≥ 1 binding live; distinct by the operation list")
	defer run.Finish()

	run.Assume("bindings' writers only observe the header they are handed; a writer that rewrites it (real TWCC header-extension chain, 10% of histories) is a probe " +
		"whose effects on the caller's packet / later bindings are counted as model_divergence, not judged")
	n := kit.N(4000, 100000)
	run.Parallel(n, 8, func(i int) {
		r := run.CaseRand(i)
		tc := c29Tracks[i%len(c29Tracks)]
		track, err := NewTrackLocalStaticRTP(tc.cap, "c29", "c29s")
		if err != nil {
			run.Inconclusive("new-track-error")

			return
		}
		nCtx := r.Range(2, 8)
		ctxs := make([]*c29Ctx, nCtx)
		usedPT := map[PayloadType]bool{}
		for k := range ctxs {
			c := &c29Ctx{id: fmt.Sprintf("ctx-%d-%d", i, k), ssrc: SSRC(r.Uint32()&^0xF | uint32(k)<<2 | 1), w: &c29Writer{}}
			c.match = !r.Chance(0.08)
			var table []RTPCodecParameters
			pts := map[PayloadType]bool{}
			newPT := func(distinctAcrossCtx bool) PayloadType {
				for {
					pt := PayloadType(r.Range(1, 127))
					if pts[pt] || (distinctAcrossCtx && usedPT[pt]) {
						continue
					}
					pts[pt] = true

					return pt
				}
			}
			for _, d := range tc.decoys {
				if r.Chance(0.7) {
					pt := newPT(false)
					table = append(table, RTPCodecParameters{RTPCodecCapability: d, PayloadType: pt})
					if strings.HasPrefix(d.MimeType, "video/") && r.Bool() {
						table = append(table, RTPCodecParameters{
							RTPCodecCapability: RTPCodecCapability{MimeTypeRTX, 90000, 0, fmt.Sprintf("apt=%d", pt), nil}, PayloadType: newPT(false),
						})
					}
				}
			}
			if c.match {
				c.pt = newPT(true)
				usedPT[c.pt] = true
				own := tc.cap
				if r.Chance(0.3) {
					own.MimeType = strings.ToUpper(own.MimeType[:1]) + own.MimeType[1:] // mime types compare case-insensitively
				}
				entry := RTPCodecParameters{RTPCodecCapability: own, PayloadType: c.pt}
				pos := r.Intn(len(table) + 1)
				table = append(table[:pos], append([]RTPCodecParameters{entry}, table[pos:]...)...)
				if strings.HasPrefix(own.MimeType, "video/") || strings.HasPrefix(own.MimeType, "Video/") {
					table = append(table, RTPCodecParameters{
						RTPCodecCapability: RTPCodecCapability{MimeTypeRTX, 90000, 0, fmt.Sprintf("apt=%d", c.pt), nil}, PayloadType: newPT(false),
					})
				}
			}
			c.codecs = table
			ctxs[k] = c
		}

		// TWCC probe (reported as model divergence, see the final loop): one writer is the real
		// twcc.HeaderExtensionInterceptor chain in front of the recorder, as ConfigureTWCCHeaderExtensionSender installs it.
		twccCtx, twccID := -1, 0
		if r.Chance(0.1) {
			twccCtx, twccID = r.Intn(nCtx), r.Range(1, 14)
			f, _ := twcc.NewHeaderExtensionInterceptor()
			ic, _ := f.NewInterceptor("")
			w := ctxs[twccCtx].w
			w.mutate = ic.BindLocalStream(&interceptor.StreamInfo{RTPHeaderExtensions: []interceptor.RTPHeaderExtension{{URI: sdp.TransportCCURI, ID: twccID}}},
				interceptor.RTPWriterFunc(func(h *rtp.Header, p []byte, _ interceptor.Attributes) (int, error) {
					w.record(h, p)

					return len(p), nil
				}))
		}

		live := map[int]bool{}
		var ops []c29Op
		var sig strings.Builder
		nOps := r.Range(5, 200)
		var wroteMulti, wroteAfterUnbind, unbound, mutatedSeen bool
		failed := false
		fail := func(sigName, what string) {
			if failed {
				return
			}
			failed = true
			run.Violation(sigName, what+fmt.Sprintf(" (history %d, track %s, op #%d)", i, tc.cap.MimeType, len(ops)), i,
				map[string]any{"track_codec": tc.cap.MimeType, "ops": ops, "contexts": c29Describe(ctxs), "live": fmt.Sprint(live)})
		}
		bindingIndex := func(id string) (int, int) {
			track.mu.RLock()
			defer track.mu.RUnlock()
			for k, b := range track.bindings {
				if b.id == id {
					return k, len(track.bindings)
				}
			}

			return -1, len(track.bindings)
		}

		for step := 0; step < nOps && !failed; step++ {
			var liveIdx, deadIdx []int
			for k := range ctxs {
				if live[k] {
					liveIdx = append(liveIdx, k)
				} else {
					deadIdx = append(deadIdx, k)
				}
			}
			x := r.Intn(100)
			if len(liveIdx) < 2 && len(deadIdx) > 0 && r.Bool() {
				x = 0 // keep the fan-out populated
			}
			switch {
			case x < 18 && len(deadIdx) > 0: // bind
				k := kit.Pick(r, deadIdx)
				c := ctxs[k]
				ops = append(ops, c29Op{Op: "bind", Ctx: k})
				fmt.Fprintf(&sig, "b%d;", k)
				got, err := track.Bind(c)
				switch {
				case c.match && err != nil:
					fail("bind-rejected-matching-codec", fmt.Sprintf("Bind(ctx %d) failed with %v although its table holds the track's codec at PT %d", k, err, c.pt))
				case !c.match && err == nil:
					fail("bind-accepted-without-codec", fmt.Sprintf("Bind(ctx %d) succeeded (PT %d) although no table entry has the track's mime type", k, got.PayloadType))
				case c.match:
					live[k] = true
					if got.PayloadType != c.pt {
						run.Count("model_divergence", 1)
						run.Count("bind_returned_other_pt", 1)
					}
				default:
					run.Count("bind_rejected_no_codec", 1)
				}
			case x < 32 && len(liveIdx) > 0: // unbind a live binding, by position in the implementation's slice
				var k int
				switch r.Intn(4) {
				case 0:
					k = liveIdx[0]
				default:
					k = kit.Pick(r, liveIdx)
				}
				pos, total := bindingIndex(ctxs[k].id)
				cls := "middle"
				switch {
				case total == 1:
					cls = "only"
				case pos == 0:
					cls = "first"
				case pos == total-1:
					cls = "last"
				}
				run.Seen("unbind_position", cls)
				ops = append(ops, c29Op{Op: "unbind", Ctx: k, Note: fmt.Sprintf("%s (slot %d of %d)", cls, pos, total)})
				fmt.Fprintf(&sig, "u%d;", k)
				if err := track.Unbind(ctxs[k]); err != nil {
					fail("unbind-live-failed", fmt.Sprintf("Unbind(ctx %d) of a live binding returned %v", k, err))
				}
				delete(live, k)
				unbound = true
			case x < 36 && len(deadIdx) > 0: // unbind something that is not bound: must not disturb the others
				k := kit.Pick(r, deadIdx)
				ops = append(ops, c29Op{Op: "unbind-stranger", Ctx: k})
				fmt.Fprintf(&sig, "s%d;", k)
				if err := track.Unbind(ctxs[k]); err == nil {
					run.Count("model_divergence", 1)
					run.Count("unbind_stranger_returned_nil", 1)
				}
			default: // write
				p, cls := c29Packet(r)
				twccHit := false
				if twccCtx >= 0 && live[twccCtx] && p.Extension && p.ExtensionProfile == rtp.ExtensionProfileOneByte && r.Chance(0.7) {
					// a forwarded packet that already carries the transport-cc id
					_ = p.SetExtension(uint8(twccID), []byte{0xAA, 0x55})
					twccHit = true
				}
				viaBytes := r.Chance(0.3) && !p.Padding || r.Chance(0.15)
				var raw, rawSnap []byte
				want := p
				if viaBytes {
					var err error
					if p.Padding && p.Header.PaddingSize == 0 {
						p.Header.PaddingSize = p.PaddingSize
					}
					raw, err = p.Marshal()
					if err != nil {
						run.Inconclusive("marshal-failed")

						continue
					}
					rawSnap = append([]byte(nil), raw...)
					want = &rtp.Packet{}
					if err = want.Unmarshal(append([]byte(nil), raw...)); err != nil {
						run.Inconclusive("unmarshal-failed")

						continue
					}
				}
				snap := p.Clone()
				if !viaBytes && !reflect.DeepEqual(p, snap) {
					run.Inconclusive("snapshot-not-equal-before-call")

					continue
				}
				for _, c := range ctxs {
					c.w.inbox = c.w.inbox[:0]
				}
				op := c29Op{Op: "writeRTP", Ctx: -1, Note: cls}
				if viaBytes {
					op.Op = "write-bytes"
					op.Pkt = kit.Hex(raw)
				} else if b, err := p.Marshal(); err == nil {
					op.Pkt = kit.Hex(b)
				}
				ops = append(ops, op)
				fmt.Fprintf(&sig, "w%v:%s:%d;", viaBytes, cls, len(p.Payload))
				run.Seen("packet_class", c29Coarse(cls))

				var werr error
				if viaBytes {
					var nn int
					nn, werr = track.Write(raw)
					if werr == nil && nn != len(raw) {
						run.Count("model_divergence", 1)
					}
				} else {
					werr = track.WriteRTP(p)
				}
				if werr != nil {
					fail("write-error", fmt.Sprintf("%s returned %v with only succeeding writers", op.Op, werr))
				}
				run.Count("writes", 1)
				run.Seen("live_bindings_at_write", fmt.Sprint(len(liveIdx)))
				if len(liveIdx) >= 2 {
					wroteMulti = true
				}
				if unbound && len(liveIdx) >= 1 {
					wroteAfterUnbind = true
				}
				mutating := twccCtx >= 0 && live[twccCtx]

				// caller's data intact
				if viaBytes {
					if !bytes.Equal(raw, rawSnap) {
						fail("caller-bytes-modified", "the byte slice passed to Write differs after the call")
					}
				} else if !reflect.DeepEqual(p, snap) {
					what := c29PacketDiff(p, snap)
					if mutating {
						// caused by a binding's writer (the real TWCC header-extension sender chain) changing the header it was
						// handed, which shares storage with the caller's packet: "the caller's packet is never modified"
						mutatedSeen = true
						run.Count("caller_packet_changed_by_twcc_writer", 1)
						run.Seen("caller_packet_changed_by_twcc_writer_field", what)
						fail("caller-packet-modified-through-binding-writer:"+what,
							fmt.Sprintf("caller's packet differs after WriteRTP in: %s (a bound writer is the real TWCC header-extension interceptor)", what))
					} else {
						fail("caller-packet-modified:"+what, fmt.Sprintf("caller's packet differs after WriteRTP in: %s", what))
					}
				}

				// fan-out
				for k, c := range ctxs {
					got := c.w.inbox
					if !live[k] {
						if len(got) != 0 {
							state := "never-bound"
							if unbound {
								state = "unbound-or-never-bound"
							}
							fail("packet-reached-dead-binding", fmt.Sprintf("ctx %d (%s) received %d packet(s)", k, state, len(got)))
						}

						continue
					}
					if len(got) != 1 {
						cause := "packet-missed-live-binding"
						if len(got) > 1 {
							cause = "packet-duplicated-to-binding"
						}
						fail(cause, fmt.Sprintf("live ctx %d received %d packets, want exactly 1 (live=%v)", k, len(got), liveIdx))

						continue
					}
					run.Count("deliveries_checked", 1)
					h := &got[0].hdr
					if h.SSRC != uint32(c.ssrc) {
						fail("wrong-ssrc", fmt.Sprintf("ctx %d received SSRC %d, its binding's SSRC is %d (caller's %d)", k, h.SSRC, c.ssrc, p.SSRC))
					}
					if h.PayloadType != uint8(c.pt) {
						fail("wrong-payload-type", fmt.Sprintf("ctx %d received PT %d, negotiated PT for %s is %d (caller's %d)", k, h.PayloadType, tc.cap.MimeType, c.pt, p.PayloadType))
					}
					if !bytes.Equal(got[0].payload, want.Payload) {
						fail("payload-changed", fmt.Sprintf("ctx %d received a payload of %d bytes that differs from the caller's %d bytes", k, len(got[0].payload), len(want.Payload)))
					}
					// PaddingSize: unchanged, or (the code's documented normalisation) taken from the deprecated
					// Packet.PaddingSize when the header field is 0. Leaving 0 is "unchanged" by the letter of the statement.
					switch {
					case h.PaddingSize == want.Header.PaddingSize && (want.Header.PaddingSize != 0 || want.PaddingSize == 0):
					case want.Header.PaddingSize == 0 && h.PaddingSize == want.PaddingSize:
						run.Count("padding_size_normalised_from_packet_field", 1)
					case want.Header.PaddingSize == 0 && h.PaddingSize == 0:
						run.Count("model_divergence", 1)
						run.Count("padding_size_of_packet_field_lost", 1)
					default:
						fail("padding-size-changed", fmt.Sprintf("ctx %d received PaddingSize %d, caller's is header=%d/packet=%d", k, h.PaddingSize, want.Header.PaddingSize, want.PaddingSize))
					}
					if d := c29HeaderDiff(h, &want.Header); d != "" {
						if mutating {
							// a TWCC writer in the fan-out rewrote / added the extension on the shared copy
							run.Count("model_divergence", 1)
							run.Count("header_changed_downstream_of_twcc_writer", 1)
						} else {
							fail("header-field-changed:"+d, fmt.Sprintf("ctx %d received a header that differs from the caller's in: %s", k, d))
						}
					}
				}
				_ = twccHit
			}
		}
		for k, c := range ctxs {
			if c.w.raw != 0 {
				run.Count("writer_Write_bytes_calls", c.w.raw)
			}
			if live[k] {
				_ = track.Unbind(c)
			}
		}
		run.Case(sig.String(), wroteMulti && wroteAfterUnbind)
		run.Count("ops", len(ops))
		if mutatedSeen {
			run.Count("histories_where_twcc_writer_changed_callers_packet", 1)
		}
		if i < 60 && wroteMulti && wroteAfterUnbind {
			first := ops
			if len(first) > 12 {
				first = first[:12]
			}
			for k := range first {
				if len(first[k].Pkt) > 64 {
					first[k].Pkt = first[k].Pkt[:64] + "…"
				}
			}
			run.Sample(map[string]any{"track": tc.cap.MimeType, "contexts": c29Describe(ctxs), "n_ops": len(ops), "first_ops": first})
		}
	})
	// concurrent part: Unbind issued while a write is in the middle of its fan-out (c29_conc_test.go)
	c29Concurrent(run, n, kit.N(200, 5000))
}

func c29Coarse(cls string) string {
	out := make([]byte, 0, len(cls))
	for i := 0; i < len(cls); i++ {
		if cls[i] >= '0' && cls[i] <= '9' && !(i > 0 && cls[i-1] == 't') { // keep ext1 / ext2, drop the counts
			continue
		}
		out = append(out, cls[i])
	}
	if len(out) == 0 {
		return "plain"
	}

	return string(out)
}

func c29Describe(ctxs []*c29Ctx) []string {
	out := make([]string, len(ctxs))
	for k, c := range ctxs {
		var tb []string
		for _, e := range c.codecs {
			tb = append(tb, fmt.Sprintf("%s=%d", e.MimeType, e.PayloadType))
		}
		out[k] = fmt.Sprintf("ctx %d id=%s ssrc=%d match=%v pt=%d twcc=%v table=[%s]", k, c.id, c.ssrc, c.match, c.pt, c.w.mutate != nil, strings.Join(tb, " "))
	}

	return out
}

func c29PacketDiff(p, snap *rtp.Packet) string {
	var d []string
	if h := c29HeaderDiff(&p.Header, &snap.Header); h != "" {
		d = append(d, h)
	}
	if p.SSRC != snap.SSRC {
		d = append(d, "ssrc")
	}
	if p.PayloadType != snap.PayloadType {
		d = append(d, "payload-type")
	}
	if p.Header.PaddingSize != snap.Header.PaddingSize || p.PaddingSize != snap.PaddingSize {
		d = append(d, "padding-size")
	}
	if !bytes.Equal(p.Payload, snap.Payload) || (p.Payload == nil) != (snap.Payload == nil) {
		d = append(d, "payload")
	}
	if len(d) == 0 {
		d = append(d, "other")
	}

	return strings.Join(d, ",")
}
