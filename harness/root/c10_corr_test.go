package webrtc

// C10, third workload class: the answerer receives a remote offer whose payload-type numbering is CORRELATED with the
// local MediaEngine's numbering instead of being drawn independently of it.
//
// The property quantifies over "arbitrary remote offers whose payload types differ from local ones". The independent
// generator (genRandomOffer) practically never produces the interesting part of that space: the remote peer using a
// number that the local side also uses, but for ANOTHER codec, while the codec the local side has on that number is not
// offered at all (so local preferences / rtx apt values that are written in local numbers meet a negotiated table in
// which the same numbers mean something else). Here the remote codec table is derived from the local registration:
//   - the remote supports a random subset of the locally registered codecs plus 0-2 codecs the local side lacks;
//   - its numbers are: the local ones ("same"), a random re-distribution of the local number set over the remote codecs
//     ("permuted"), a per-codec mixture ("mixed"), or numbers that avoid every local number ("disjoint");
//   - rtx entries are attached to a random part of the remote primaries, sometimes with a dangling apt;
//   - every section offers the whole table or a sub-list of it; payload types are unique per description (BUNDLE).
// Local transceivers with SetCodecPreferences (local numbering) usually exist before SetRemoteDescription.

import (
	"fmt"
	"strings"

	kit "github.com/pion/webrtc/v4/internal/verifkit"
)

type c10RemoteEntry struct {
	C       genCodec
	LocalPT int // payload type of the same codec in the local registration, -1 for a codec the local side lacks
	RTXOf   int // index (in the table) of the primary this rtx belongs to, -1 for primaries, -2 for a dangling rtx
}

func c10IsRTXParams(c RTPCodecParameters) bool { return strings.EqualFold(c.MimeType, MimeTypeRTX) }

func c10CodecIdent(mime, fmtpLine string) string {
	return strings.ToLower(mime) + "|" + strings.ToLower(fmtpLine)
}

// c10NumberSource hands out payload types that are unique for the whole remote description.
type c10NumberSource struct {
	used  map[int]bool
	pool  []int // preferred numbers, in order
	fresh []int // fall-back numbers, in order
}

func (s *c10NumberSource) from(list *[]int) int {
	for len(*list) > 0 {
		pt := (*list)[0]
		*list = (*list)[1:]
		if !s.used[pt] {
			s.used[pt] = true

			return pt
		}
	}

	return -1
}

func (s *c10NumberSource) take(want int) int {
	if want >= 0 && !s.used[want] {
		s.used[want] = true

		return want
	}
	if pt := s.from(&s.pool); pt >= 0 {
		return pt
	}

	return s.from(&s.fresh)
}

// c10RemoteTable derives the remote peer's codec table of one kind from the local registration.
func c10RemoteTable(r *kit.Rand, spec c10EngineSpec, kind, mode string, used map[int]bool) []c10RemoteEntry { //nolint:cyclop,gocognit
	local := spec.kind(kind)
	localNums := map[int]bool{}
	for _, c := range spec.Codecs { // numbers of BOTH kinds: "disjoint" avoids all of them
		localNums[int(c.P.PayloadType)] = true
	}
	var kindNums []int
	localIdent := map[string]bool{}
	localRTX := map[int]int{} // local primary number -> local rtx number
	for _, c := range local {
		kindNums = append(kindNums, int(c.PayloadType))
		if c10IsRTXParams(c) {
			var apt int
			if n, _ := fmt.Sscanf(c.SDPFmtpLine, "apt=%d", &apt); n == 1 {
				localRTX[apt] = int(c.PayloadType)
			}

			continue
		}
		localIdent[c10CodecIdent(c.MimeType, c.SDPFmtpLine)] = true
	}
	// which codecs the remote peer supports
	var table []c10RemoteEntry
	supportP := kit.Pick(r, []float64{1, 0.75, 0.5, 0.3})
	fbFor := func() []string {
		var fb []string
		if kind == "video" {
			for _, f := range genVideoFb {
				if r.Chance(0.6) {
					fb = append(fb, f)
				}
			}
		} else if r.Chance(0.3) {
			fb = append(fb, "transport-cc")
		}

		return fb
	}
	name := func(mime string) string {
		if _, n, ok := strings.Cut(mime, "/"); ok {
			return n
		}

		return mime
	}
	for _, c := range local {
		if c10IsRTXParams(c) || !r.Chance(supportP) {
			continue
		}
		table = append(table, c10RemoteEntry{
			C:       genCodec{Name: name(c.MimeType), Clock: int(c.ClockRate), Ch: int(c.Channels), Fmtp: c.SDPFmtpLine, Fb: fbFor()},
			LocalPT: int(c.PayloadType), RTXOf: -1,
		})
	}
	foreign := append([]c10Primary{}, c10VideoPrimaries...)
	if kind == "audio" {
		foreign = append([]c10Primary{}, c10AudioPrimaries...)
	}
	foreign = append(foreign, c10Primary{kind + "/X-VERIF", 90000, 0, ""})
	kit.Shuffle(r, foreign)
	nForeign := kit.Pick(r, []int{0, 0, 1, 2})
	if len(table) == 0 && r.Chance(0.85) {
		nForeign = 1 + r.Intn(2) // mostly not an empty list; the empty one becomes a single unsupported codec below
	}
	for _, p := range foreign {
		if nForeign == 0 {
			break
		}
		if localIdent[c10CodecIdent(p.Mime, p.Fmtp)] {
			continue
		}
		nForeign--
		table = append(table, c10RemoteEntry{
			C:       genCodec{Name: name(p.Mime), Clock: int(p.Clock), Ch: int(p.Ch), Fmtp: p.Fmtp, Fb: fbFor()},
			LocalPT: -1, RTXOf: -1,
		})
	}
	if len(table) == 0 {
		table = append(table, c10RemoteEntry{C: genCodec{Name: "X-NONE", Clock: 90000}, LocalPT: -1, RTXOf: -1})
	}
	if r.Bool() {
		kit.Shuffle(r, table)
	}
	// numbering
	src := &c10NumberSource{used: used}
	for pt := 0; pt <= 127; pt++ {
		if !localNums[pt] {
			src.fresh = append(src.fresh, pt)
		}
	}
	kit.Shuffle(r, src.fresh)
	if r.Bool() { // prefer the dynamic range for the numbers that are not taken from the local set
		var dyn, rest []int
		for _, pt := range src.fresh {
			if pt >= 96 {
				dyn = append(dyn, pt)
			} else {
				rest = append(rest, pt)
			}
		}
		src.fresh = append(dyn, rest...)
	}
	if mode == "permuted" || mode == "mixed" {
		src.pool = append([]int{}, kindNums...)
		kit.Shuffle(r, src.pool)
	}
	number := func(localPT int) int {
		switch mode {
		case "same":
			return src.take(localPT)
		case "mixed":
			if r.Bool() {
				return src.take(localPT)
			}
		}

		return src.take(-1) // permuted, disjoint, mixed (other half)
	}
	var numbered []c10RemoteEntry
	for _, e := range table {
		if e.C.PT = number(e.LocalPT); e.C.PT >= 0 {
			numbered = append(numbered, e)
		}
	}
	table = numbered
	// rtx
	if kind == "video" {
		rtxP := kit.Pick(r, []float64{0.3, 0.6, 0.9, 1})
		n := len(table)
		for i := 0; i < n; i++ {
			if strings.Contains(strings.ToLower(table[i].C.Name), "flexfec") || !r.Chance(rtxP) {
				continue
			}
			want := -1
			if lr, ok := localRTX[table[i].LocalPT]; ok && table[i].LocalPT >= 0 {
				want = lr
			}
			if pt := number(want); pt >= 0 {
				table = append(table, c10RemoteEntry{
					C: genCodec{PT: pt, Name: "rtx", Clock: 90000, Fmtp: fmt.Sprintf("apt=%d", table[i].C.PT)}, LocalPT: want, RTXOf: i,
				})
			}
		}
		if r.Chance(0.15) {
			// rtx whose apt names a number no entry of the remote table carries (possibly a number the local side uses)
			apt := src.take(-1)
			if pt := src.take(-1); pt >= 0 && apt >= 0 {
				table = append(table, c10RemoteEntry{C: genCodec{PT: pt, Name: "rtx", Clock: 90000, Fmtp: fmt.Sprintf("apt=%d", apt)}, LocalPT: -1, RTXOf: -2})
			}
		}
	}

	return table
}

// c10SectionCodecs picks what one section offers from the description-wide table.
func c10SectionCodecs(r *kit.Rand, table []c10RemoteEntry) []genCodec {
	keep := make([]bool, len(table))
	whole := r.Chance(0.7)
	some := false
	for i, e := range table {
		if e.RTXOf == -1 {
			keep[i] = whole || r.Chance(0.6)
			some = some || keep[i]
		}
	}
	if !some {
		for i, e := range table {
			if e.RTXOf == -1 {
				keep[i] = true

				break
			}
		}
	}
	for i, e := range table {
		switch {
		case e.RTXOf >= 0 && keep[e.RTXOf]:
			keep[i] = whole || r.Chance(0.8)
		case e.RTXOf >= 0:
			keep[i] = r.Chance(0.15) // rtx of a primary this section does not offer
		case e.RTXOf == -2:
			keep[i] = true
		}
	}
	var prim, rtx []genCodec
	for i, e := range table {
		if !keep[i] {
			continue
		}
		if e.RTXOf == -1 {
			prim = append(prim, e.C)
		} else {
			rtx = append(rtx, e.C)
		}
	}
	var out []genCodec
	switch r.Intn(3) {
	case 0: // rtx directly after its primary
		for _, p := range prim {
			out = append(out, p)
			for _, x := range rtx {
				if x.Fmtp == fmt.Sprintf("apt=%d", p.PT) {
					out = append(out, x)
				}
			}
		}
		for _, x := range rtx {
			attached := false
			for _, p := range prim {
				attached = attached || x.Fmtp == fmt.Sprintf("apt=%d", p.PT)
			}
			if !attached {
				out = append(out, x)
			}
		}
	case 1: // rtx block after the primaries
		out = append(append(out, prim...), rtx...)
	default:
		out = append(append(out, prim...), rtx...)
		kit.Shuffle(r, out)
	}
	for i := range out {
		if r.Chance(0.1) {
			out[i].Name = strings.ToUpper(out[i].Name)
		}
	}

	return out
}

// c10GenCorrelatedOffer builds the remote offer; the structure (mids, directions, extmaps with permuted ids, ssrcs) comes from
// the shared generator, the codec lists are replaced.
func c10GenCorrelatedOffer(r *kit.Rand, spec c10EngineSpec) (g *genSDP, mode string, tables map[string][]c10RemoteEntry) {
	g = genRandomOffer(r, genOpts{
		MaxSections: 4, Kinds: []string{"audio", "video", "video", "video", "application"}, MidStyle: 0,
		ExtPermute: true, Dirs: []string{"sendrecv", "sendonly", "recvonly"},
	})
	mode = kit.Pick(r, []string{"same", "permuted", "permuted", "permuted", "mixed", "mixed", "disjoint"})
	used := map[int]bool{}
	tables = map[string][]c10RemoteEntry{}
	for _, kind := range []string{"video", "audio"} {
		tables[kind] = c10RemoteTable(r, spec, kind, mode, used)
	}
	for _, m := range g.Media {
		if m.Kind == "audio" || m.Kind == "video" {
			m.Codecs = c10SectionCodecs(r, tables[m.Kind])
		}
	}

	return g, mode, tables
}

// c10ClashClass classifies, from generator data only, how accepted local preferences (local numbering) relate to the remote
// table: "" no number of a not-offered preferred codec is reused by the remote; "number-reused" some preferred primary is
// not offered by the remote while the remote uses its number for another codec; "number-reused+rtx" the preferences also
// hold that primary's rtx.
func c10ClashClass(prefs []RTPCodecParameters, table []c10RemoteEntry) string {
	remoteIdent := map[string]bool{}
	remoteNum := map[int]bool{}
	for _, e := range table {
		if e.RTXOf == -1 {
			remoteIdent[c10CodecIdent("x/"+e.C.Name, e.C.Fmtp)] = true
		}
		remoteNum[e.C.PT] = true
	}
	class := ""
	for _, p := range prefs {
		if c10IsRTXParams(p) || p.PayloadType == 0 {
			continue
		}
		_, n, _ := strings.Cut(p.MimeType, "/")
		if remoteIdent[c10CodecIdent("x/"+n, p.SDPFmtpLine)] || !remoteNum[int(p.PayloadType)] {
			continue
		}
		if class == "" {
			class = "number-reused"
		}
		for _, x := range prefs {
			if c10IsRTXParams(x) && x.SDPFmtpLine == fmt.Sprintf("apt=%d", p.PayloadType) {
				class = "number-reused+rtx"
			}
		}
	}

	return class
}
