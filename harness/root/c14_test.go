package webrtc

import (
	"crypto"
	"crypto/ecdsa"
	"crypto/elliptic"
	"crypto/md5" //nolint:gosec // only to model "hash name changed" alterations
	cryptorand "crypto/rand"
	"crypto/rsa"
	"crypto/sha1" //nolint:gosec // only to model "hash name changed" alterations
	"crypto/sha256"
	"crypto/sha512"
	"fmt"
	"sort"
	"strings"
	"sync"
	"testing"
	"time"

	"github.com/pion/rtp"
	kit "github.com/pion/webrtc/v4/internal/verifkit"
)

// C14 — DTLS authenticates the peer against the signaled fingerprint.
//
//   (A) advertised direction: every a=fingerprint of the offer and of the answer (session or media level) is
//       "sha-256 <SHA-256 of the DER certificate the OTHER peer actually received in the DTLS handshake>";
//   (B) enforcement direction: when the certificate the remote peer presents matches NO a=fingerprint line of the
//       remote description that was applied (and verification was not disabled), the verifying peer's DTLSTransport
//       never reports connected, its PeerConnection never reports connected, and nothing (data channel, message,
//       track) from the unauthenticated peer reaches the application.
//
// The oracle for (B) is derived from the *altered text* (kit.ParseSDP + crypto/* hashes of the real DER), not from
// the alteration code: "matches no line" is recomputed by the monitor for every case.

// ---------------------------------------------------------------- independent fingerprint model

func c14Hex(sum []byte) string {
	const digits = "0123456789ABCDEF"
	var b strings.Builder
	for i, x := range sum {
		if i > 0 {
			b.WriteByte(':')
		}
		b.WriteByte(digits[x>>4])
		b.WriteByte(digits[x&15])
	}

	return b.String()
}

// c14SHA256 is the RFC 8122 presentation of SHA-256(der): upper-case, colon separated.
func c14SHA256(der []byte) string {
	s := sha256.Sum256(der)

	return c14Hex(s[:])
}

// c14Digest returns the fingerprint of der under an RFC 8122 hash name ("" when the name is not a registered one).
func c14Digest(name string, der []byte) string {
	switch strings.ToLower(name) {
	case "md5":
		s := md5.Sum(der) //nolint:gosec

		return c14Hex(s[:])
	case "sha-1":
		s := sha1.Sum(der) //nolint:gosec

		return c14Hex(s[:])
	case "sha-224":
		s := sha256.Sum224(der)

		return c14Hex(s[:])
	case "sha-256":
		s := sha256.Sum256(der)

		return c14Hex(s[:])
	case "sha-384":
		s := sha512.Sum384(der)

		return c14Hex(s[:])
	case "sha-512":
		s := sha512.Sum512(der)

		return c14Hex(s[:])
	}

	return ""
}

type c14FPLine struct {
	Level string // "session" or "media#k"
	Raw   string // attribute value
}

// c14Fingerprints lists every a=fingerprint of a description (independent line parser).
func c14Fingerprints(sdp string) ([]c14FPLine, error) {
	d, err := kit.ParseSDP(sdp)
	if err != nil {
		return nil, err
	}
	var out []c14FPLine
	for _, v := range d.AttrAll("fingerprint") {
		out = append(out, c14FPLine{"session", v})
	}
	for k, m := range d.Media {
		for _, v := range m.AttrAll("fingerprint") {
			out = append(out, c14FPLine{fmt.Sprintf("media#%d", k), v})
		}
	}

	return out, nil
}

// c14MatchesAny: does the certificate der match at least one fingerprint line of the description?
func c14MatchesAny(sdp string, der []byte) (bool, []c14FPLine) {
	fps, err := c14Fingerprints(sdp)
	if err != nil {
		return false, nil
	}
	for _, fp := range fps {
		f := strings.Fields(fp.Raw)
		if len(f) != 2 {
			continue
		}
		want := c14Digest(f[0], der)
		if want != "" && strings.EqualFold(want, f[1]) {
			return true, fps
		}
	}

	return false, fps
}

// ---------------------------------------------------------------- case space

var c14CertClasses = []string{"auto", "p256", "p384", "rsa2048", "multi"} //nolint:gochecknoglobals

type c14Spec struct {
	Class     string // alteration class ("none" = unaltered pair)
	Pos       int    // hex digit position for hexdigit / wrong-line classes (-1: random)
	Side      string // which description is altered: "offer" (answerer verifies) or "answer" (offerer verifies)
	AnsServer int    // 1: answerer takes the DTLS server role, 0: default (client), -1: random
	OffCert   string // "" = random
	AnsCert   string
	OffMFP    int // media-level fingerprints on the offerer: 0/1, -1 random
	AnsMFP    int
	Digit     int    // 1..15: index+1 of the replacement among the 15 other hex digits; 0 = random
	Reconf    string // SetConfiguration history kind (c14_reconf_test.go); "" = random background history on a third of the peers
	ReconfWho string // "offerer", "answerer", "both"
	Reneg     bool   // the history is applied to the connected pair and followed by a second offer/answer exchange
}

var ( //nolint:gochecknoglobals
	c14HashClasses    = []string{"hash:sha-1", "hash:sha-512", "hash:sha-384", "hash:sha-224", "hash:md5", "hash:unknown"}
	c14ValueClasses   = []string{"truncated", "truncated-half", "extended", "zeros", "own-fingerprint", "empty-value", "rotated-digits"}
	c14MovedClasses   = []string{"moved:to-media-all", "moved:to-media-first", "moved:to-session"}
	c14ExtraClasses   = []string{"extra-wrong-after", "extra-wrong-before"}
	c14ObserveClasses = []string{
		"split:right-session-wrong-media", "split:wrong-session-right-media",
		"lenient:lowercase-value", "lenient:uppercase-hash",
	}
	c14DisabledClasses = []string{"disabled:hexdigit", "disabled:zeros"}
)

// c14Specs is a pure function of (seed, tier).
func c14Specs(seed uint64) []c14Spec {
	rr := kit.NewRand(seed, 0xC14)
	thorough := kit.Tier() == "thorough"
	var out []c14Spec
	sides := []string{"offer", "answer"}

	// unaltered pairs: every (offerer cert class × answerer cert class)
	for _, oc := range c14CertClasses {
		for _, ac := range c14CertClasses {
			if thorough {
				for _, om := range []int{0, 1} {
					for _, am := range []int{0, 1} {
						for _, srv := range []int{0, 1} {
							out = append(out, c14Spec{Class: "none", Pos: -1, Side: "-", AnsServer: srv, OffCert: oc, AnsCert: ac, OffMFP: om, AnsMFP: am})
						}
					}
				}
			} else {
				for _, srv := range []int{0, 1} {
					out = append(out, c14Spec{Class: "none", Pos: -1, Side: "-", AnsServer: srv, OffCert: oc, AnsCert: ac, OffMFP: -1, AnsMFP: -1})
				}
			}
		}
	}

	// one hex digit changed
	var positions []int
	if thorough {
		for p := 0; p < 64; p++ {
			positions = append(positions, p)
		}
	} else {
		positions = append(positions, 0, 63) // both boundaries always, six more stratified over 1..62
		for k := 0; k < 6; k++ {
			lo, hi := 1+k*62/6, (k+1)*62/6
			positions = append(positions, rr.Range(lo, hi))
		}
	}
	for _, p := range positions {
		for _, side := range sides {
			for _, srv := range []int{0, 1} {
				if thorough {
					for _, cc := range c14CertClasses {
						s := c14Spec{Class: "hexdigit", Pos: p, Side: side, AnsServer: srv, OffMFP: -1, AnsMFP: -1}
						if side == "offer" {
							s.OffCert = cc
						} else {
							s.AnsCert = cc
						}
						out = append(out, s)
					}
				} else {
					out = append(out, c14Spec{Class: "hexdigit", Pos: p, Side: side, AnsServer: srv, OffMFP: -1, AnsMFP: -1})
				}
			}
		}
	}

	if thorough { // every one of the 15 other digit values at every position (side / role / certificates random)
		for p := 0; p < 64; p++ {
			for d := 1; d <= 15; d++ {
				out = append(out, c14Spec{Class: "hexdigit", Pos: p, Side: sides[rr.Intn(2)], AnsServer: -1, OffMFP: -1, AnsMFP: -1, Digit: d})
			}
		}
	}

	addClasses := func(classes []string) {
		for _, cl := range classes {
			for _, side := range sides {
				if thorough {
					for _, srv := range []int{0, 1} {
						for _, cc := range c14CertClasses {
							for _, mfp := range []int{0, 1} {
								s := c14Spec{Class: cl, Pos: -1, Side: side, AnsServer: srv, OffMFP: -1, AnsMFP: -1}
								if side == "offer" {
									s.OffCert, s.OffMFP = cc, mfp
								} else {
									s.AnsCert, s.AnsMFP = cc, mfp
								}
								out = append(out, s)
							}
						}
					}
				} else {
					for _, srv := range []int{0, 1} {
						out = append(out, c14Spec{Class: cl, Pos: -1, Side: side, AnsServer: srv, OffMFP: -1, AnsMFP: -1})
					}
				}
			}
		}
	}
	addClasses(c14HashClasses)
	addClasses(c14ValueClasses)
	addClasses(c14MovedClasses)
	addClasses(c14ExtraClasses)
	addClasses(c14ObserveClasses)
	addClasses(c14DisabledClasses)
	// fingerprint absent: both source layouts even in quick
	for _, side := range sides {
		for _, mfp := range []int{0, 1} {
			reps := 1
			if thorough {
				reps = 5
			}
			for k := 0; k < reps; k++ {
				s := c14Spec{Class: "absent", Pos: -1, Side: side, AnsServer: -1, OffMFP: -1, AnsMFP: -1}
				if side == "offer" {
					s.OffMFP = mfp
				} else {
					s.AnsMFP = mfp
				}
				out = append(out, s)
			}
		}
	}

	// configuration histories: SetConfiguration calls between construction and CreateOffer / CreateAnswer
	out = append(out, c14ReconfSpecs(rr, thorough)...)

	return out
}

// ---------------------------------------------------------------- certificates

type c14Keys struct {
	once sync.Once
	rsa  *rsa.PrivateKey
}

func (k *c14Keys) rsaKey() *rsa.PrivateKey {
	k.once.Do(func() {
		sk, err := rsa.GenerateKey(cryptorand.Reader, 2048)
		if err != nil {
			panic(err)
		}
		k.rsa = sk
	})

	return k.rsa
}

func c14OneCert(kind string, keys *c14Keys) Certificate {
	var sk crypto.PrivateKey
	var err error
	switch kind {
	case "p256":
		sk, err = ecdsa.GenerateKey(elliptic.P256(), cryptorand.Reader)
	case "p384":
		sk, err = ecdsa.GenerateKey(elliptic.P384(), cryptorand.Reader)
	case "rsa2048":
		sk = keys.rsaKey()
	default:
		panic("c14: unknown cert kind " + kind)
	}
	if err != nil {
		panic(err)
	}
	c, err := GenerateCertificate(sk)
	if err != nil {
		panic(fmt.Sprintf("c14: GenerateCertificate(%s): %v", kind, err))
	}

	return *c
}

// c14MakeCerts returns the Configuration.Certificates for a class (nil for "auto") and a description of it.
func c14MakeCerts(class string, r *kit.Rand, keys *c14Keys) ([]Certificate, string) {
	switch class {
	case "auto":
		return nil, "auto"
	case "multi":
		kinds := [][]string{{"p256", "rsa2048"}, {"rsa2048", "p256"}, {"p256", "p256"}, {"p384", "p256"}}[r.Intn(4)]

		return []Certificate{c14OneCert(kinds[0], keys), c14OneCert(kinds[1], keys)}, "multi(" + strings.Join(kinds, "+") + ")"
	case "multi3": // only used by the configuration-history specs
		kinds := [][]string{{"p256", "p384", "p256"}, {"rsa2048", "p256", "p384"}, {"p256", "p256", "rsa2048"}}[r.Intn(3)]

		return []Certificate{c14OneCert(kinds[0], keys), c14OneCert(kinds[1], keys), c14OneCert(kinds[2], keys)},
			"multi3(" + strings.Join(kinds, "+") + ")"
	default:
		return []Certificate{c14OneCert(class, keys)}, class
	}
}

// ---------------------------------------------------------------- instrumented peer

type c14Peer struct {
	name  string
	pc    *PeerConnection
	dtls  *DTLSTransport
	cert  string        // cert class description
	ders  [][]byte      // DER of the configured certificates (white-box), index 0 first
	certs []Certificate // the certificates the constructor was given / generated (GetConfiguration right after construction)

	reconf       []c14ReconfCall // SetConfiguration history (under mu)
	lastAccepted string          // kind of the last accepted SetConfiguration that carried certificates

	mu         sync.Mutex
	dtlsStates []string
	pcStates   []string
	polledDTLS bool // State() polled == connected at least once
	polledPC   bool
	opened     []string
	announced  []string
	msgs       []string
	tracks     int

	track *TrackLocalStaticRTP
}

func (p *c14Peer) snapshot() map[string]any {
	p.mu.Lock()
	defer p.mu.Unlock()

	return map[string]any{
		"cert": p.cert, "dtls_states": append([]string{}, p.dtlsStates...), "pc_states": append([]string{}, p.pcStates...),
		"polled_dtls_connected": p.polledDTLS, "polled_pc_connected": p.polledPC,
		"opened": append([]string{}, p.opened...), "ondatachannel": append([]string{}, p.announced...),
		"messages": append([]string{}, p.msgs...), "tracks": p.tracks,
		"setconfiguration_history": append([]c14ReconfCall{}, p.reconf...),
	}
}

// poll samples the public state getters (complements the callbacks).
func (p *c14Peer) poll() (dtls DTLSTransportState) {
	dtls = p.dtls.State()
	pcs := p.pc.ConnectionState()
	if dtls == DTLSTransportStateConnected || pcs == PeerConnectionStateConnected {
		p.mu.Lock()
		if dtls == DTLSTransportStateConnected {
			p.polledDTLS = true
		}
		if pcs == PeerConnectionStateConnected {
			p.polledPC = true
		}
		p.mu.Unlock()
	}

	return dtls
}

func (p *c14Peer) sawDTLS(states ...string) bool {
	p.mu.Lock()
	defer p.mu.Unlock()
	for _, s := range p.dtlsStates {
		for _, w := range states {
			if s == w {
				return true
			}
		}
	}

	return false
}

// everConnected: any evidence that the transport / connection reported connected.
func (p *c14Peer) everConnected() (bool, string) {
	p.mu.Lock()
	defer p.mu.Unlock()
	var why []string
	for _, s := range p.dtlsStates {
		if s == "connected" {
			why = append(why, "DTLSTransport.OnStateChange(connected)")

			break
		}
	}
	if p.polledDTLS {
		why = append(why, "DTLSTransport.State()==connected")
	}
	for _, s := range p.pcStates {
		if s == "connected" {
			why = append(why, "OnConnectionStateChange(connected)")

			break
		}
	}
	if p.polledPC {
		why = append(why, "ConnectionState()==connected")
	}

	return len(why) > 0, strings.Join(why, ", ")
}

// delivered: anything from the other side surfaced to the application.
func (p *c14Peer) delivered() (bool, string) {
	p.mu.Lock()
	defer p.mu.Unlock()
	var why []string
	if len(p.msgs) > 0 {
		why = append(why, fmt.Sprintf("OnMessage×%d", len(p.msgs)))
	}
	if len(p.announced) > 0 {
		why = append(why, fmt.Sprintf("OnDataChannel×%d", len(p.announced)))
	}
	if len(p.opened) > 0 {
		why = append(why, fmt.Sprintf("OnOpen×%d", len(p.opened)))
	}
	if p.tracks > 0 {
		why = append(why, fmt.Sprintf("OnTrack×%d", p.tracks))
	}

	return len(why) > 0, strings.Join(why, ", ")
}

func (p *c14Peer) gotMessage() bool {
	p.mu.Lock()
	defer p.mu.Unlock()

	return len(p.msgs) > 0
}

func (p *c14Peer) gotTrack() bool {
	p.mu.Lock()
	defer p.mu.Unlock()

	return p.tracks > 0
}

func (p *c14Peer) wire(dc *DataChannel) {
	label := dc.Label()
	dc.OnOpen(func() {
		p.mu.Lock()
		p.opened = append(p.opened, label)
		p.mu.Unlock()
		_ = dc.SendText("hello-from-" + p.name + "-on-" + label)
	})
	dc.OnMessage(func(m DataChannelMessage) {
		p.mu.Lock()
		p.msgs = append(p.msgs, firstN(string(m.Data), 60))
		p.mu.Unlock()
	})
}

type c14PeerOpts struct {
	name          string
	certClass     string
	mediaFP       bool
	dtlsServer    bool // answerer only
	disableVerify bool
	media         bool
}

func c14NewPeer(o c14PeerOpts, r *kit.Rand, keys *c14Keys) *c14Peer {
	certs, certDesc := c14MakeCerts(o.certClass, r, keys)
	pc := rigMustPC(rigOpts{
		OwnCert: len(certs) == 0,
		Cfg:     Configuration{Certificates: certs},
		SE: func(se *SettingEngine) {
			se.SetSDPMediaLevelFingerprints(o.mediaFP)
			if o.dtlsServer {
				if err := se.SetAnsweringDTLSRole(DTLSRoleServer); err != nil {
					panic(err)
				}
			}
			if o.disableVerify {
				se.DisableCertificateFingerprintVerification(true)
			}
		},
	})
	p := &c14Peer{name: o.name, pc: pc, cert: certDesc, dtls: pc.SCTP().Transport()}
	p.certs = append([]Certificate{}, pc.GetConfiguration().Certificates...)
	for _, c := range pc.configuration.Certificates { // white-box: the certificates this PeerConnection was configured with
		p.ders = append(p.ders, append([]byte{}, c.x509Cert.Raw...))
	}
	p.dtls.OnStateChange(func(s DTLSTransportState) { // called with the transport lock held: record only
		p.mu.Lock()
		p.dtlsStates = append(p.dtlsStates, s.String())
		p.mu.Unlock()
	})
	pc.OnConnectionStateChange(func(s PeerConnectionState) {
		p.mu.Lock()
		p.pcStates = append(p.pcStates, s.String())
		p.mu.Unlock()
	})
	pc.OnDataChannel(func(dc *DataChannel) {
		p.mu.Lock()
		p.announced = append(p.announced, dc.Label())
		p.mu.Unlock()
		p.wire(dc)
	})
	pc.OnTrack(func(*TrackRemote, *RTPReceiver) {
		p.mu.Lock()
		p.tracks++
		p.mu.Unlock()
	})
	neg, id := true, uint16(0)
	dcNeg, err := pc.CreateDataChannel("c14-negotiated", &DataChannelInit{Negotiated: &neg, ID: &id})
	if err != nil {
		panic(fmt.Sprintf("c14: CreateDataChannel: %v", err))
	}
	p.wire(dcNeg)
	dcIn, err := pc.CreateDataChannel("c14-inband-from-"+o.name, nil)
	if err != nil {
		panic(fmt.Sprintf("c14: CreateDataChannel: %v", err))
	}
	p.wire(dcIn)
	if o.media {
		tr, err := NewTrackLocalStaticRTP(RTPCodecCapability{MimeType: MimeTypeOpus, ClockRate: 48000, Channels: 2}, "a-"+o.name, "s-"+o.name)
		if err != nil {
			panic(err)
		}
		if _, err = pc.AddTrack(tr); err != nil {
			panic(fmt.Sprintf("c14: AddTrack: %v", err))
		}
		p.track = tr
	}

	return p
}

// pump writes RTP on the local track until stop is closed.
func (p *c14Peer) pump(stop <-chan struct{}, wg *sync.WaitGroup) {
	if p.track == nil {
		return
	}
	wg.Add(1)
	go func() {
		defer wg.Done()
		seq, ts := uint16(1), uint32(1000)
		tk := time.NewTicker(4 * time.Millisecond)
		defer tk.Stop()
		for {
			select {
			case <-stop:
				return
			case <-tk.C:
				_ = p.track.WriteRTP(&rtp.Packet{
					Header:  rtp.Header{Version: 2, PayloadType: 111, SequenceNumber: seq, Timestamp: ts, SSRC: 0x14},
					Payload: []byte{0xF8, 0xFF, 0xFE},
				})
				seq++
				ts += 960
			}
		}
	}()
}

// ---------------------------------------------------------------- alterations

func c14IsFP(line string) bool { return strings.HasPrefix(line, "a=fingerprint:") }

// c14ChangeDigit replaces hex digit number pos (0..63) of a colon-separated value by digit.
func c14ChangeDigit(value string, pos int, digit byte) string {
	idx := pos + pos/2
	if idx >= len(value) {
		return value
	}
	b := []byte(value)
	b[idx] = digit

	return string(b)
}

// c14Alter rewrites every fingerprint of sdp according to class. right = the value advertised (first line found).
func c14Alter(sdp, class string, pos int, digit byte, verifierOwn string) string { //nolint:gocognit,cyclop
	session, sections := rigSplitSections(sdp)
	right := ""
	for _, ln := range append(append([]string{}, session...), c14Flatten(sections)...) {
		if c14IsFP(ln) {
			right = strings.TrimPrefix(ln, "a=fingerprint:")

			break
		}
	}
	f := strings.Fields(right)
	if len(f) != 2 {
		return sdp
	}
	hash, value := f[0], f[1]
	wrongValue := c14ChangeDigit(value, pos, digit)
	rightLine := "a=fingerprint:" + hash + " " + value
	wrongLine := "a=fingerprint:" + hash + " " + wrongValue

	perLine := func(g func() []string) string {
		mapLines := func(in []string) []string {
			var out []string
			for _, ln := range in {
				if c14IsFP(ln) {
					out = append(out, g()...)
				} else {
					out = append(out, ln)
				}
			}

			return out
		}
		s2 := mapLines(session)
		sec2 := make([][]string, len(sections))
		for i := range sections {
			sec2[i] = mapLines(sections[i])
		}

		return rigJoinSections(s2, sec2)
	}
	place := func(sessLines []string, mediaLines func(k int) []string) string {
		strip := func(in []string) []string {
			var out []string
			for _, ln := range in {
				if !c14IsFP(ln) {
					out = append(out, ln)
				}
			}

			return out
		}
		s2 := append(strip(session), sessLines...)
		sec2 := make([][]string, len(sections))
		for i := range sections {
			sec2[i] = append(strip(sections[i]), mediaLines(i)...)
		}

		return rigJoinSections(s2, sec2)
	}
	one := func(v string) func() []string { return func() []string { return []string{v} } }

	switch {
	case class == "hexdigit" || class == "disabled:hexdigit":
		return perLine(one(wrongLine))
	case strings.HasPrefix(class, "hash:"):
		name := strings.TrimPrefix(class, "hash:")
		if name == "unknown" {
			name = "sha-257"
		}

		return perLine(one("a=fingerprint:" + name + " " + value))
	case class == "truncated":
		return perLine(one("a=fingerprint:" + hash + " " + value[:len(value)-3]))
	case class == "truncated-half":
		return perLine(one("a=fingerprint:" + hash + " " + value[:47]))
	case class == "extended":
		return perLine(one("a=fingerprint:" + hash + " " + value + ":00"))
	case class == "zeros" || class == "disabled:zeros":
		return perLine(one("a=fingerprint:" + hash + " " + c14Hex(make([]byte, 32))))
	case class == "own-fingerprint":
		return perLine(one("a=fingerprint:" + hash + " " + verifierOwn))
	case class == "empty-value":
		return perLine(one("a=fingerprint:" + hash))
	case class == "rotated-digits":
		// same digits, rotated by one digit: a different 256-bit value that shares every digit with the right one
		d := strings.ReplaceAll(value, ":", "")
		d = d[1:] + d[:1]
		var parts []string
		for i := 0; i+2 <= len(d); i += 2 {
			parts = append(parts, d[i:i+2])
		}

		return perLine(one("a=fingerprint:" + hash + " " + strings.Join(parts, ":")))
	case class == "absent":
		return perLine(func() []string { return nil })
	case class == "moved:to-media-all":
		return place(nil, func(int) []string { return []string{rightLine} })
	case class == "moved:to-media-first":
		return place(nil, func(k int) []string {
			if k == 0 {
				return []string{rightLine}
			}

			return nil
		})
	case class == "moved:to-session":
		return place([]string{rightLine}, func(int) []string { return nil })
	case class == "extra-wrong-after":
		return perLine(func() []string { return []string{rightLine, wrongLine} })
	case class == "extra-wrong-before":
		return perLine(func() []string { return []string{wrongLine, rightLine} })
	case class == "split:right-session-wrong-media":
		return place([]string{rightLine}, func(int) []string { return []string{wrongLine} })
	case class == "split:wrong-session-right-media":
		return place([]string{wrongLine}, func(int) []string { return []string{rightLine} })
	case class == "lenient:lowercase-value":
		return perLine(one("a=fingerprint:" + hash + " " + strings.ToLower(value)))
	case class == "lenient:uppercase-hash":
		return perLine(one("a=fingerprint:" + strings.ToUpper(hash) + " " + value))
	}

	return sdp
}

// c14ObserveOnly: classes where the right fingerprint is still present but the statement does not say which of several
// lines / levels / spellings a peer has to honour. Rejecting such a peer fails closed and cannot contradict "a peer whose
// certificate matches no fingerprint never connects"; the outcome is recorded (model_divergence when rejected).
// Set c14StrictAnyMatch to turn "right line preceded by a wrong one" into valid-fingerprint-rejected:extra-wrong-before.
const c14StrictAnyMatch = false

func c14ObserveOnly(class string) bool {
	return strings.HasPrefix(class, "split:") || strings.HasPrefix(class, "lenient:") ||
		(class == "extra-wrong-before" && !c14StrictAnyMatch)
}

func c14Flatten(ss [][]string) []string {
	var out []string
	for _, s := range ss {
		out = append(out, s...)
	}

	return out
}

// ---------------------------------------------------------------- the monitor

const c14Watchdog = 15 * time.Second

func TestVerifC14(t *testing.T) { //nolint:gocognit,cyclop,maintidx
	run := kit.Start(t, "C14", "real loopback PeerConnection pairs (negotiated + in-band data channel on both sides, audio track on both sides in ~half of the cases); "+
		"cert classes auto/P-256/P-384/RSA-2048/two-certificates × media-level fingerprints on/off × answerer DTLS role client/server; "+
		"the description sent to the verifying peer is altered per class (one hex digit at position p, hash name, truncated/extended/zero/own value, moved between levels, "+
		"extra wrong line, absent, verification disabled); configuration histories: SetConfiguration calls (same list, permuted, PEM clones, duplicates, subset, superset, foreign certificate, omitted) "+
		"on peers with 2-3 user-supplied certificates before CreateOffer/CreateAnswer or before a renegotiation, and on a third of the peers of all other cases. Expectation is recomputed from the altered text: certificate matches no a=fingerprint line ⇒ must never connect. "+
		"A case is non-trivial when a decisive observation was made (DTLS connected / failed|closed on the verifying side, or SetRemoteDescription error); "+
		"distinct by (class, position, side, roles, cert classes, fingerprint levels, media)")
	defer run.Finish()
	run.Assume("crypto/sha256, crypto/x509 of the Go standard library; kit.ParseSDP line parser")
	run.Assume("the certificate a peer 'presents' is observed as the DER the other peer's DTLSTransport.GetRemoteCertificate() returns")

	keys := &c14Keys{}
	specs := c14Specs(kit.Seed())
	run.Set("pairs_planned", len(specs))

	run.Parallel(len(specs), kit.N(10, 12), func(i int) {
		c14RunCase(run, i, specs[i], keys)
	})
	// hostile part: hand-built DTLS peers presenting certificate chains (c14_impostor_test.go); 7 chain classes × 2 victim roles
	c14Impostor(run, len(specs), kit.N(14, 140), keys)
}

func c14Pick(v int, r *kit.Rand) bool {
	if v < 0 {
		return r.Bool()
	}

	return v == 1
}

func c14RunCase(run *kit.Run, i int, spec c14Spec, keys *c14Keys) { //nolint:gocognit,cyclop,maintidx
	r := run.CaseRand(i)
	if spec.OffCert == "" {
		spec.OffCert = kit.Pick(r, c14CertClasses)
	}
	if spec.AnsCert == "" {
		spec.AnsCert = kit.Pick(r, c14CertClasses)
	}
	offMFP, ansMFP, ansServer := c14Pick(spec.OffMFP, r), c14Pick(spec.AnsMFP, r), c14Pick(spec.AnsServer, r)
	media := r.Bool()
	if spec.Pos < 0 {
		spec.Pos = r.Intn(64)
	}
	digitRoll := r.Intn(15)
	if spec.Digit > 0 {
		digitRoll = spec.Digit - 1
	}
	disabled := strings.HasPrefix(spec.Class, "disabled:")

	off := c14NewPeer(c14PeerOpts{name: "offerer", certClass: spec.OffCert, mediaFP: offMFP, media: media,
		disableVerify: disabled && spec.Side == "answer"}, r, keys)
	ans := c14NewPeer(c14PeerOpts{name: "answerer", certClass: spec.AnsCert, mediaFP: ansMFP, media: media, dtlsServer: ansServer,
		disableVerify: disabled && spec.Side == "offer"}, r, keys)
	stop := make(chan struct{})
	var wg sync.WaitGroup
	closed := false
	finish := func() {
		if !closed {
			closed = true
			close(stop)
			wg.Wait()
			rigClose(off.pc, ans.pc)
		}
	}
	defer finish()

	// verifier = the peer that receives the altered description; suspect = the peer whose description was altered.
	verifier, suspect := ans, off
	if spec.Side == "answer" {
		verifier, suspect = off, ans
	}
	role := "client"
	if (verifier == ans) == ansServer {
		role = "server"
	}
	// configuration history (own random stream: the draws of the classes above are unchanged)
	rc := kit.NewRand(kit.Seed(), 0xC14C0F000000+uint64(i))
	offKinds, ansKinds := c14ReconfPlan(spec, rc)
	ansAfterSRD := rc.Bool()
	if !spec.Reneg {
		off.reconfigure(run, offKinds, "before-offer", rc, keys)
		if !ansAfterSRD {
			ans.reconfigure(run, ansKinds, "before-srd", rc, keys)
		}
	}
	planDesc := func(ks []string, when string) string {
		if len(ks) == 0 {
			return "-"
		}

		return strings.Join(ks, "+") + "@" + when
	}
	ansWhen := "before-srd"
	if ansAfterSRD {
		ansWhen = "after-srd"
	}
	if spec.Reneg {
		ansWhen = "reneg"
	}
	desc := fmt.Sprintf("class=%s p=%d/alt#%d side=%s verifier-dtls=%s off=%s/mfp=%v ans=%s/mfp=%v media=%v setcfg=off:%s/ans:%s",
		spec.Class, spec.Pos, digitRoll, spec.Side, role, off.cert, offMFP, ans.cert, ansMFP, media,
		planDesc(offKinds, map[bool]string{false: "before-offer", true: "reneg"}[spec.Reneg]), planDesc(ansKinds, ansWhen))
	detail := map[string]any{"case": desc, "spec": spec}
	fail := func(sig, what string) {
		detail["offerer"], detail["answerer"] = off.snapshot(), ans.snapshot()
		run.Violation(sig, desc+": "+what, i, detail)
	}
	harness := func(stage string, err error) {
		run.Inconclusive("harness:" + stage)
		run.Seen("harness_errors", firstN(fmt.Sprintf("%s: %v", stage, err), 100))
	}

	alteredText := ""
	alter := func(text string) string {
		fps, _ := c14Fingerprints(text)
		digit := byte('0')
		if len(fps) > 0 {
			if f := strings.Fields(fps[0].Raw); len(f) == 2 {
				idx := spec.Pos + spec.Pos/2
				if idx < len(f[1]) {
					others := strings.ReplaceAll("0123456789ABCDEF", strings.ToUpper(string(f[1][idx])), "")
					digit = others[digitRoll%len(others)]
				}
			}
		}
		out := c14Alter(text, spec.Class, spec.Pos, digit, c14SHA256(verifier.ders[0]))
		before, _ := c14Fingerprints(text)
		after, _ := c14Fingerprints(out)
		detail["fingerprints_sent_by_"+suspect.name] = before
		detail["fingerprints_seen_by_"+verifier.name] = after
		alteredText = out

		return out
	}

	// ---- signaling (non-trickle), alteration on the way
	offer, err := rigOffer(off.pc, true)
	if err != nil {
		harness("offer", err)

		return
	}
	sentOffer := offer
	if spec.Side == "offer" {
		sentOffer.SDP = alter(offer.SDP)
	}
	var answer SessionDescription
	var srdErr error
	srdErr = ans.pc.SetRemoteDescription(sentOffer)
	if srdErr != nil && spec.Side != "offer" {
		harness("srd-offer", srdErr)

		return
	}
	if srdErr == nil {
		if ansAfterSRD && !spec.Reneg {
			ans.reconfigure(run, ansKinds, "after-srd", rc, keys)
		}
		if answer, err = ans.pc.CreateAnswer(nil); err == nil {
			err = ans.pc.SetLocalDescription(answer)
		}
		if err != nil {
			harness("answer", err)

			return
		}
		if !rigGatherDone(ans.pc, 10*time.Second) {
			harness("answer-gather", fmt.Errorf("watchdog"))

			return
		}
		answer = *ans.pc.LocalDescription()
		sentAnswer := answer
		if spec.Side == "answer" {
			sentAnswer.SDP = alter(answer.SDP)
		}
		srdErr = off.pc.SetRemoteDescription(sentAnswer)
		if srdErr != nil && spec.Side != "answer" {
			harness("srd-answer", srdErr)

			return
		}
	}

	// ---- expectation, recomputed from the text the verifier was given
	matches := true
	if spec.Class != "none" {
		matches, _ = c14MatchesAny(alteredText, suspect.ders[0])
	}
	mustFail := !matches && !disabled
	detail["suspect_cert_matches_a_line_of_altered_description"] = matches
	run.Seen("classes", spec.Class)
	run.Seen("verifier", spec.Side+"-altered/verifier-dtls-"+role)

	// self-check of the case generator: these classes are meant to leave no matching line / a matching line
	switch {
	case spec.Class == "none", strings.HasPrefix(spec.Class, "moved:"), strings.HasPrefix(spec.Class, "extra-"),
		strings.HasPrefix(spec.Class, "split:"), strings.HasPrefix(spec.Class, "lenient:"):
		if !matches {
			harness("alteration-lost-the-right-fingerprint:"+spec.Class, nil)

			return
		}
	default:
		if matches {
			harness("alteration-still-matches:"+spec.Class, nil)

			return
		}
	}

	// ---- SetRemoteDescription refused the altered description
	if srdErr != nil {
		outcome := "srd-error"
		run.Seen("outcome", spec.Class+" → SetRemoteDescription error")
		run.Seen("srd_errors", firstN(srdErr.Error(), 80))
		switch {
		case mustFail:
			// fails closed: nothing can connect; still make sure nothing did
			time.Sleep(20 * time.Millisecond)
			finish()
			if ok, why := verifier.everConnected(); ok {
				fail("connected-despite-fingerprint-mismatch:"+spec.Class, "SetRemoteDescription failed yet the verifier reported connected ("+why+")")
			}
			run.Count("mismatch_rejected_at_setremotedescription", 1)
		case disabled:
			run.Inconclusive("rig-sanity:verification-disabled-but-srd-error")
		case c14ObserveOnly(spec.Class):
			run.Count("model_divergence", 1)
			run.Seen("model_divergence_kinds", spec.Class+": SetRemoteDescription error")
		default:
			fail("valid-fingerprint-rejected:"+spec.Class, "SetRemoteDescription error for a description that still carries the right fingerprint: "+srdErr.Error())
		}
		run.Case(desc+" "+outcome, true)

		return
	}
	if spec.Class == "absent" {
		// no fingerprint at all and SetRemoteDescription accepted it: the statement only forbids connecting — keep watching
		run.Count("model_divergence", 1)
		run.Seen("model_divergence_kinds", "absent: SetRemoteDescription accepted a description without fingerprint")
	}

	off.pump(stop, &wg)
	ans.pump(stop, &wg)

	// ---- observe
	deadline := time.Now().Add(c14Watchdog)
	outcome := "watchdog"
	for time.Now().Before(deadline) {
		vs := verifier.poll()
		ss := suspect.poll()
		vConn, _ := verifier.everConnected()
		vDead := vs == DTLSTransportStateFailed || vs == DTLSTransportStateClosed || verifier.sawDTLS("failed", "closed")
		sDead := ss == DTLSTransportStateFailed || ss == DTLSTransportStateClosed || suspect.sawDTLS("failed", "closed")
		if mustFail {
			if vConn {
				outcome = "connected"

				break
			}
			if vDead {
				outcome = "failed"

				break
			}
		} else {
			if vDead || sDead {
				outcome = "failed"

				break
			}
			sConn, _ := suspect.everConnected()
			if vConn && sConn && verifier.sawDTLS("connected") && suspect.sawDTLS("connected") {
				if c14ObserveOnly(spec.Class) {
					outcome = "connected"

					break
				}
				if verifier.gotMessage() && suspect.gotMessage() && (!media || (verifier.gotTrack() && suspect.gotTrack())) {
					outcome = "connected"

					break
				}
				outcome = "connected-no-data"
			}
		}
		time.Sleep(time.Millisecond)
	}
	if mustFail {
		// extend the observation a little beyond the decisive event, then through Close
		for k := 0; k < 25; k++ {
			verifier.poll()
			time.Sleep(time.Millisecond)
		}
	}

	// certificates actually presented (available as soon as the handshake delivered them, also when it then failed)
	gotByOff := append([]byte{}, off.dtls.GetRemoteCertificate()...) // presented by the answerer
	gotByAns := append([]byte{}, ans.dtls.GetRemoteCertificate()...) // presented by the offerer

	// ---- renegotiation after a SetConfiguration history on the connected pair
	var reOffer, reAnswer SessionDescription
	if spec.Reneg && outcome == "connected" {
		off.reconfigure(run, offKinds, "before-reoffer", rc, keys)
		ans.reconfigure(run, ansKinds, "before-reanswer", rc, keys)
		var rerr error
		if reOffer, reAnswer, rerr = rigExchange(off.pc, ans.pc, nil, nil); rerr != nil {
			// the statement does not promise that renegotiation succeeds; what was created is still judged below
			run.Count("renegotiation_errors", 1)
			run.Seen("harness_errors", firstN("renegotiation: "+rerr.Error(), 100))
		} else {
			run.Count("renegotiations_after_setconfiguration", 1)
		}
	}
	finish()
	verifier.poll()

	run.Seen("outcome", spec.Class+" → "+outcome)
	sStates := suspect.snapshot()["dtls_states"].([]string) //nolint:forcetypeassert
	if spec.Class != "none" {
		run.Seen("other_side_dtls", fmt.Sprintf("%v verifier-%s: %s", mustFail, role, strings.Join(sStates, ">")))
	}

	// ---- (A) advertised fingerprint == SHA-256 of the presented certificate
	c14CheckAdvertised(run, i, desc, detail, "offer", offer.SDP, off, gotByAns)
	if answer.SDP != "" {
		c14CheckAdvertised(run, i, desc, detail, "answer", answer.SDP, ans, gotByOff)
	}
	if reOffer.SDP != "" {
		c14CheckAdvertised(run, i, desc, detail, "re-offer", reOffer.SDP, off, gotByAns)
	}
	if reAnswer.SDP != "" {
		c14CheckAdvertised(run, i, desc, detail, "re-answer", reAnswer.SDP, ans, gotByOff)
	}

	// ---- (B) enforcement
	switch {
	case mustFail:
		conn, whyC := verifier.everConnected()
		dlv, whyD := verifier.delivered()
		if conn {
			fail("connected-despite-fingerprint-mismatch:"+spec.Class,
				"the certificate of the "+suspect.name+" matches no a=fingerprint of the description applied by the "+verifier.name+", yet: "+whyC)
		}
		if dlv {
			fail("data-delivered-despite-mismatch",
				"the certificate of the "+suspect.name+" matches no a=fingerprint of the description applied by the "+verifier.name+", yet the application got: "+whyD)
		}
		switch {
		case conn || dlv:
			run.Case(desc, true)
		case outcome == "failed":
			run.Count("mismatch_rejected_by_dtls", 1)
			run.Case(desc, true)
		default:
			run.Inconclusive("watchdog:no-failed-no-connected:" + spec.Class)
			run.Case(desc, false)
		}
	case disabled:
		if outcome == "connected" {
			run.Count("disabled_verification_connected", 1)
			run.Case(desc, true)
		} else {
			run.Inconclusive("rig-sanity:verification-disabled-but-" + outcome)
			run.Case(desc, false)
		}
	case c14ObserveOnly(spec.Class):
		// the statement does not say which of several lines / spellings must be honoured: record only
		run.Seen("unconstrained_outcomes", spec.Class+" side="+spec.Side+" → "+outcome)
		if outcome == "failed" {
			run.Count("model_divergence", 1)
			run.Seen("model_divergence_kinds", spec.Class+": right fingerprint present but DTLS failed (only the first line / session level is honoured)")
		}
		run.Case(desc, outcome == "connected" || outcome == "failed")
	default: // unaltered, moved, extra wrong line: the right fingerprint is there — must authenticate
		switch outcome {
		case "connected":
			run.Count("matching_pairs_connected", 1)
			run.Case(desc, true)
		case "failed":
			sfx := "" // a certificate list replaced by an accepted SetConfiguration is a different cause than the alteration class
			for _, p := range []*c14Peer{off, ans} {
				p.mu.Lock()
				if p.lastAccepted != "" && sfx == "" {
					sfx = ":after-accepted-setconfiguration(" + p.lastAccepted + ")"
				}
				p.mu.Unlock()
			}
			fail("valid-fingerprint-rejected:"+spec.Class+sfx, "the description still carries the right fingerprint ("+spec.Class+") but DTLS failed")
			run.Case(desc, true)
		default:
			run.Inconclusive("watchdog:" + outcome + ":" + spec.Class)
			run.Case(desc, false)
		}
	}
	if c14SampleOnce(spec.Class) {
		run.Sample(map[string]any{"case": desc, "outcome": outcome, "verifier_dtls": verifier.snapshot()["dtls_states"],
			"other_dtls": sStates, "seen_by_verifier": detail["fingerprints_seen_by_"+verifier.name]})
	}
}

var ( //nolint:gochecknoglobals
	c14SampleMu   sync.Mutex
	c14SampleDone = map[string]bool{}
)

// c14SampleOnce: keep one example of a few representative classes for the evidence file.
func c14SampleOnce(class string) bool {
	switch class {
	case "none", "hexdigit", "hash:sha-512", "moved:to-media-all", "extra-wrong-after":
	default:
		return false
	}
	c14SampleMu.Lock()
	defer c14SampleMu.Unlock()
	if c14SampleDone[class] {
		return false
	}
	c14SampleDone[class] = true

	return true
}

// c14CheckAdvertised: every fingerprint line of text (as created by owner) is sha-256 of the DER that the other peer received.
func c14CheckAdvertised(run *kit.Run, i int, desc string, detail map[string]any, which, text string, owner *c14Peer, presented []byte) {
	fps, err := c14Fingerprints(text)
	if err != nil {
		run.Inconclusive("harness:unparsable-" + which)

		return
	}
	levels := map[string]bool{}
	for _, fp := range fps {
		levels[strings.SplitN(fp.Level, "#", 2)[0]] = true
	}
	var lv []string
	for k := range levels {
		lv = append(lv, k)
	}
	sort.Strings(lv)
	run.Seen("advertised_levels", which+":"+strings.Join(lv, "+"))
	if len(presented) == 0 {
		run.Count("advertised_not_checked_no_certificate_received", 1)

		return
	}
	want := c14SHA256(presented)
	sig := "advertised-fingerprint-differs-from-presented-cert:" + strings.SplitN(owner.cert, "(", 2)[0]
	owner.mu.Lock()
	if owner.lastAccepted != "" { // cause: the certificate list was replaced by an accepted SetConfiguration of this kind
		sig += ":after-accepted-setconfiguration(" + owner.lastAccepted + ")"
	}
	owner.mu.Unlock()
	report := func(what string) {
		d := map[string]any{}
		for k, v := range detail {
			d[k] = v
		}
		d["description"], d["advertised"], d["sha256_of_presented_der"], d["presented_der"] = which, fps, want, kit.Hex(presented)
		run.Violation(sig, desc+": "+which+" of the "+owner.name+": "+what, i, d)
	}
	run.Count("advertised_checks", 1)
	if len(fps) == 0 {
		report("no a=fingerprint line at all")

		return
	}
	for _, fp := range fps {
		f := strings.Fields(fp.Raw)
		switch {
		case len(f) != 2:
			report(fmt.Sprintf("malformed a=fingerprint:%s (%s)", fp.Raw, fp.Level))

			return
		case strings.ToLower(f[0]) != "sha-256":
			report(fmt.Sprintf("hash %q at %s level, expected sha-256", f[0], fp.Level))

			return
		case f[1] != want:
			report(fmt.Sprintf("a=fingerprint:%s (%s) but SHA-256 of the certificate the other peer received is %s", fp.Raw, fp.Level, want))

			return
		}
		run.Count("advertised_lines_checked", 1)
	}
	// informational: presented certificate vs the configured ones (white-box)
	idx := -1
	for k, d := range owner.ders {
		if string(d) == string(presented) {
			idx = k

			break
		}
	}
	run.Seen("presented_is_configured_certificate_index", fmt.Sprintf("%s:%d", strings.SplitN(owner.cert, "(", 2)[0], idx))
}
