//go:build !js

package webrtc

// C30 child phases 1-4: connected-pair SDP, candidates, packets, Plan-B / Unified mixing.

import (
	"fmt"
	"github.com/pion/rtp"
	"strconv"
	"strings"
	"time"

	kit "github.com/pion/webrtc/v4/internal/verifkit"
)

const c30ConnectWatchdog = 10 * time.Second

// connectPair runs the first exchange (offerer -> answerer) with optional rewriting of what the victim receives.
func (c *c30Child) connectPair(offerer, answerer *c30Peer, mo, ma rigMunge) (connected bool, err error) {
	var ok bool
	err, ok = c.call("first-exchange", func() error {
		_, _, e := rigExchange(offerer.pc, answerer.pc, mo, ma)

		return e
	})
	if !ok || err != nil {
		return false, err
	}
	wd := c30ConnectWatchdog
	if mo != nil || ma != nil {
		wd = 3 * time.Second
	}

	return rigWaitConnected(wd, offerer.pc, answerer.pc), nil
}

func (c *c30Child) alive(tag string, pcs ...*PeerConnection) bool {
	for _, pc := range pcs {
		pc := pc
		if _, ok := c.call(tag+".GetStats", func() error {
			_ = pc.GetStats()
			_ = pc.ConnectionState()
			_ = pc.SignalingState()
			_ = pc.GetTransceivers()

			return nil
		}); !ok {
			return false
		}
	}

	return true
}

// ---------------------------------------------------------------- phase 1: descriptions on a connected pair

func (c *c30Child) caseLive(k int) { //nolint:cyclop,gocognit,gocyclo,maintidx
	r := c.run.CaseRand(c.gcase)
	semV := kit.Pick(r, []SDPSemantics{
		SDPSemanticsUnifiedPlan, SDPSemanticsUnifiedPlan, SDPSemanticsUnifiedPlan, SDPSemanticsPlanB, SDPSemanticsUnifiedPlanWithFallback,
	})
	semA := semV
	if r.Chance(0.15) {
		semA = kit.Pick(r, c30Sems)
	}
	icpt := kit.Pick(r, []int{0, 1, 1, 1, 2})
	setupA := kit.Pick(r, []int{2, 2, 4, 4, 6, 3, 1})
	setupV := kit.Pick(r, []int{0, 0, 1, 2, 4, 5})
	vOffers := r.Chance(0.35)
	if vOffers && setupV == 0 {
		setupV = kit.Pick(r, []int{1, 2, 4, 5})
	}
	mutateFirst := r.Bool()
	seedFirst := r.Uint64()
	nFirst := r.Range(1, 3)
	// configuration dimension: the victim (and sometimes the live peer) is a generated application profile
	var profV, profA *c30Profile
	if r.Chance(0.45) {
		profV = c30GenProfile(r)
	}
	if r.Chance(0.15) {
		profA = c30GenProfile(r)
	}
	// foreign m-sections riding on the live peer's offers (only when the live peer makes the first offer)
	var graft *c30Graft
	graftFirst := !vOffers && r.Chance(0.5)
	graftSeed := c.pickSeed(r)
	seedGraft := r.Uint64()
	if graftFirst && mutateFirst && r.Bool() {
		mutateFirst = false
	}
	a := c.newPeer(c30PCOpt{Sem: semA, Icpt: icpt, Prof: profA})
	v := c.newPeer(c30PCOpt{Sem: semV, Icpt: icpt, Prof: profV, SE: func(se *SettingEngine) {
		if k%6 == 2 {
			se.SetHandleUndeclaredSSRCWithoutAnswer(true)
		}
		if k%5 == 1 {
			se.SetFireOnTrackBeforeFirstRTP(true)
		}
	}})
	if profV != nil || profA != nil {
		a.sendCaps, v.sendCaps = c30CommonCaps(profA, profV), c30CommonCaps(profV, profA)
	}
	c.setup(a, setupA)
	c.setup(v, setupV)
	if first := map[bool]*c30Peer{true: v, false: a}[vOffers]; (profV != nil || profA != nil) && len(first.pc.GetTransceivers()) == 0 {
		_, _ = first.pc.CreateDataChannel("c30", nil) // nothing in common to send: the first offer still needs a section
	}
	tag := fmt.Sprintf("live|%s<-%s|icpt%d|A%d|V%d|cfgV=%s|cfgA=%s", c30SemName(semV), c30SemName(semA), icpt, setupA, setupV, profV.Key(), profA.Key())
	steps := []any{}
	cur := map[string]any{
		"phase": "sdp-live", "victim_semantics": c30SemName(semV), "peer_semantics": c30SemName(semA), "interceptors": icpt,
		"peer_setup": setupA, "victim_setup": setupV, "victim_offers_first": vOffers, "steps": steps,
	}
	if profV != nil {
		cur["victim_profile"] = profV
		c.Seen("victim_media_engine", profV.ME)
		c.Seen("victim_policy", profV.Bundle+"/"+profV.RTCPMux)
		for _, s := range profV.SE {
			c.Seen("victim_setting_engine", s)
		}
		c.Count("live_victim_profiled", 1)
	}
	if profA != nil {
		cur["peer_profile"] = profA
		c.Seen("peer_media_engine", profA.ME)
		c.Count("live_peer_profiled", 1)
	}
	c.setCur(cur)
	c.Seen("live_mode", fmt.Sprintf("%s<-%s", c30SemName(semV), c30SemName(semA)))
	var firstNames []string
	var firstText, firstAnswer string
	munge := func(s string) string {
		firstText = s
		if graftFirst {
			if graft = c30NewGraft(kit.NewRand(seedGraft, 31), s, graftSeed.SDP, graftSeed.Name); graft != nil {
				firstText = graft.apply(s)
				cur["grafted_sections"] = graft
			}
		}
		if mutateFirst {
			firstText, firstNames = c30MutateSDP(kit.NewRand(seedFirst, 30), firstText, nFirst, true)
		}
		if !mutateFirst && graft == nil {
			return s
		}
		cur["first_exchange_received_by_victim"] = map[string]any{"mutators": firstNames, "sdp": firstText}
		c.setCur(cur)

		return firstText
	}
	// what the victim answered goes back to the live peer without the sections the live peer never offered
	unGraft := func(s string) string {
		firstAnswer = s
		if graft == nil {
			return s
		}

		return c30StripSections(s, graft.Mids)
	}
	var connected bool
	var err error
	if vOffers {
		connected, err = c.connectPair(v, a, nil, munge)
	} else {
		connected, err = c.connectPair(a, v, munge, unGraft)
	}
	munged := mutateFirst || graft != nil
	role0 := "offer"
	if vOffers {
		role0 = "answer"
	}
	c.Seen("sdp_stage", "live-first:"+c30ErrClassShort(err))
	switch {
	case connected:
		c.Count("live_connected", 1)
		if mutateFirst {
			c.Count("live_connected_after_mutated_exchange", 1)
		}
		if graft != nil {
			c.Count("live_connected_with_grafted_foreign_sections", 1)
			c.Seen("graft_source_connected", strings.SplitN(graft.Source, ":", 2)[0])
			for _, d := range graft.Streams {
				c.Seen("graft_stream_declaration_connected", d)
			}
		}
		if profV != nil {
			c.Count("live_connected_victim_profiled", 1)
			c.Seen("victim_media_engine_connected", profV.ME)
		}
		if profA != nil {
			c.Count("live_connected_peer_profiled", 1)
		}
		if !vOffers && firstAnswer != "" {
			// which codec-negotiation situations the victim's background work (startRTP) now runs with
			for _, f := range c30NegotiationFacts(firstText, firstAnswer) {
				c.Seen("negotiation_on_connected_pair", f)
			}
		}
		// the queued start of the receivers / senders runs once the transports are up: let it finish (or crash) here
		c30SoftDrain(v.pc, 200*time.Millisecond)
	case !munged && profV == nil && profA == nil && err == nil:
		c.inconclusive("live:unmutated-pair-did-not-connect")
	default:
		c.Count("live_not_connected", 1)
		if !munged && err == nil {
			// two pion applications with different configurations: not connecting is a legitimate outcome
			// (nothing in common, ice-lite on both sides ...), it is only counted
			c.Count("live_not_connected_profiled_unmutated", 1)
		}
	}
	if munged {
		for _, n := range firstNames {
			c.Seen("mutators_connected_pair", strings.SplitN(n, ":", 2)[0])
		}
		c.eval(fmt.Sprintf("%s|first|%s|%s", tag, role0, firstText), err == nil)
	}
	media := func() {
		a.sendMedia(3)
		v.sendMedia(1)
	}
	media()
	time.Sleep(2 * time.Millisecond)
	okAll := c.alive("live", v.pc, a.pc)
	nSteps := r.Range(3, 9)
	for s := 0; s < nSteps && okAll; s++ {
		var role, base string
		rollbackV := func() {
			switch v.pc.SignalingState() {
			case SignalingStateHaveLocalOffer, SignalingStateHaveRemotePranswer:
				_, _ = c.call("V.rollback", func() error { return v.pc.SetLocalDescription(SessionDescription{Type: SDPTypeRollback}) })
			case SignalingStateHaveRemoteOffer, SignalingStateHaveLocalPranswer:
				_, _ = c.call("V.rollback", func() error { return v.pc.SetRemoteDescription(SessionDescription{Type: SDPTypeRollback}) })
			default:
			}
		}
		rollbackV()
		if a.pc.SignalingState() != SignalingStateStable {
			_, _ = c.call("A.rollback", func() error { return a.pc.SetLocalDescription(SessionDescription{Type: SDPTypeRollback}) })
		}
		if r.Chance(0.6) {
			// A re-offers (sometimes after changing its tracks)
			role = "offer"
			switch r.Intn(6) {
			case 0:
				c.addTrack(a, RTPCodecTypeVideo)
			case 1:
				if ss := a.pc.GetSenders(); len(ss) > 0 {
					_ = a.pc.RemoveTrack(kit.Pick(r, ss))
				}
			case 2:
				_, _ = a.pc.AddTransceiverFromKind(RTPCodecTypeAudio, RTPTransceiverInit{Direction: RTPTransceiverDirectionRecvonly})
			default:
			}
			var opts *OfferOptions
			if r.Chance(0.15) {
				opts = &OfferOptions{ICERestart: true}
			}
			_, _ = c.call("A.CreateOffer", func() error {
				o, e := a.pc.CreateOffer(opts)
				if e == nil {
					base = o.SDP
					e = a.pc.SetLocalDescription(o)
				}

				return e
			})
		} else {
			// V re-offers, A answers for real, the answer is mutated
			role = kit.Pick(r, []string{"answer", "answer", "answer", "pranswer"})
			switch r.Intn(5) {
			case 0:
				c.addTrack(v, RTPCodecTypeVideo)
			case 1:
				_, _ = v.pc.AddTransceiverFromKind(RTPCodecTypeVideo, RTPTransceiverInit{Direction: RTPTransceiverDirectionRecvonly})
			case 2:
				if ss := v.pc.GetSenders(); len(ss) > 0 {
					_ = v.pc.RemoveTrack(kit.Pick(r, ss))
				}
			default:
			}
			var offer SessionDescription
			e, ok := c.call("V.CreateOffer", func() error {
				var e error
				offer, e = v.pc.CreateOffer(nil)
				if e == nil {
					e = v.pc.SetLocalDescription(offer)
				}

				return e
			})
			if !ok {
				okAll = false

				break
			}
			if e != nil {
				c.Seen("sdp_error", "victim-offer:"+c30ErrClass(e))

				continue
			}
			_, _ = c.call("A.answer", func() error {
				ans, e := rigAnswer(a.pc, offer, false)
				if e == nil {
					base = ans.SDP
				}

				return e
			})
		}
		if base == "" {
			if ld := a.pc.LocalDescription(); ld != nil {
				base = ld.SDP
			} else {
				continue
			}
		}
		regrafted := false
		if graft != nil && role == "offer" && r.Chance(0.7) {
			// the foreign sections stay part of the session, like the sections of a real multi-party offer would
			base, regrafted = graft.apply(base), true
		}
		text, names := c30MutateSDP(r, base, kit.Pick(r, []int{0, 1, 1, 2, 2, 3}), r.Chance(0.4))
		if regrafted {
			names = append(names, "regraft")
		}
		steps = append(steps, map[string]any{"step": s, "role": role, "mutators": names, "sdp": text})
		cur["steps"] = steps
		c.setCur(cur)
		c.setPos(s)
		for _, n := range names {
			c.Seen("mutators", strings.SplitN(n, ":", 2)[0])
		}
		c.Count("live_steps", 1)
		var srdOK bool
		okAll, srdOK = c.applyRemote(v.pc, role, text, tag)
		if okAll && srdOK && role == "offer" && v.pc.SignalingState() == SignalingStateStable && r.Chance(0.7) {
			// complete the round on A so that both sides stay in step
			if ld := v.pc.LocalDescription(); ld != nil {
				ans := *ld
				if graft != nil {
					ans.SDP = c30StripSections(ans.SDP, graft.Mids)
				}
				_, _ = c.call("A.SetRemoteDescription(answer)", func() error { return a.pc.SetRemoteDescription(ans) })
			}
		}
		if okAll && srdOK && role == "pranswer" {
			text2, n2 := c30MutateSDP(r, base, r.Intn(2), true)
			steps = append(steps, map[string]any{"step": s, "role": "answer-after-pranswer", "mutators": n2, "sdp": text2})
			cur["steps"] = steps
			c.setCur(cur)
			okAll, _ = c.applyRemote(v.pc, "answer", text2, tag)
		}
		if !okAll {
			break
		}
		if r.Chance(0.2) {
			cand := c30GenCandidate(r, nil)
			cur["candidate"] = cand
			c.setCur(cur)
			_, okAll = c.call("AddICECandidate", func() error { return v.pc.AddICECandidate(ICECandidateInit{Candidate: cand}) })
		}
		media()
		if connected {
			c30SoftDrain(v.pc, 50*time.Millisecond)
		}
		time.Sleep(time.Millisecond)
		okAll = okAll && c.alive("live", v.pc, a.pc)
	}
	c.Count("live_ontrack", int(v.onTrk.Load()))
	c.Count("live_rtp_read_by_victim", int(v.rtpIn.Load()))
	c.setPos(99)
	if okAll {
		time.Sleep(2 * time.Millisecond)
		c.finish(v.pc, a.pc)
	} else {
		go rigClose(v.pc, a.pc)
	}
	c.eval(tag+"|end|"+strconv.Itoa(k), connected)
}

// c30SoftDrain waits for the operations queue, but not for long: an operation may legitimately block on the
// network (SCTP association, ICE restart).
func c30SoftDrain(pc *PeerConnection, d time.Duration) {
	done := make(chan struct{})
	go func() {
		defer func() { _ = recover() }()
		rigDrain(pc)
		close(done)
	}()
	select {
	case <-done:
	case <-time.After(d):
	}
}

func c30ErrClassShort(err error) string {
	if err == nil {
		return "ok"
	}
	s := err.Error()
	if i := strings.IndexByte(s, ':'); i > 0 {
		s = s[:i]
	}

	return s
}

// ---------------------------------------------------------------- phase 2: candidates

func (c *c30Child) caseCandidates(k int) { //nolint:cyclop,gocognit
	r := c.run.CaseRand(c.gcase)
	sem := kit.Pick(r, c30Sems)
	state := kit.Pick(r, []string{"have-remote-offer", "connecting", "connecting", "connected", "closed", "no-remote-description", "have-local-offer-remote-answer"})
	v := c.newPeer(c30PCOpt{Sem: sem})
	var a *c30Peer
	ufrags := []string{}
	mids := []string{"0", "1", "audio", "nonexistent", ""}
	offerText := func() string {
		g := genRandomOffer(r, genOpts{MaxSections: 3, MidStyle: -1, MediaLevelSec: r.Bool()})
		ufrags = append(ufrags, g.Ufrag)
		for _, m := range g.Media {
			mids = append(mids, m.Mid)
		}

		return g.String()
	}
	switch state {
	case "have-remote-offer":
		_ = v.pc.SetRemoteDescription(SessionDescription{Type: SDPTypeOffer, SDP: offerText()})
	case "connecting":
		_, _ = rigAnswer(v.pc, SessionDescription{Type: SDPTypeOffer, SDP: offerText()}, false)
	case "have-local-offer-remote-answer":
		c.setup(v, 2)
		if off, err := rigOffer(v.pc, false); err == nil {
			h := c30NewPC(c30PCOpt{Sem: sem})
			if ans, e := rigAnswer(h, off, false); e == nil {
				_ = v.pc.SetRemoteDescription(ans)
				if p, e2 := kit.ParseSDP(ans.SDP); e2 == nil {
					if u, ok := p.Attr("ice-ufrag"); ok {
						ufrags = append(ufrags, u)
					}
					for _, m := range p.Media {
						if u, ok := m.Attr("ice-ufrag"); ok {
							ufrags = append(ufrags, u)
						}
					}
				}
			}
			rigClose(h)
		}
	case "connected":
		a = c.newPeer(c30PCOpt{Sem: sem})
		c.setup(a, 2)
		if ok, _ := c.connectPair(a, v, nil, nil); !ok {
			c.inconclusive("candidates:pair-did-not-connect")
		}
		if rd := v.pc.RemoteDescription(); rd != nil {
			if p, e := kit.ParseSDP(rd.SDP); e == nil {
				if u, ok := p.Attr("ice-ufrag"); ok {
					ufrags = append(ufrags, u)
				}
				for _, m := range p.Media {
					if u, ok := m.Attr("ice-ufrag"); ok {
						ufrags = append(ufrags, u)
					}
				}
			}
		}
	case "closed":
		_ = v.pc.SetRemoteDescription(SessionDescription{Type: SDPTypeOffer, SDP: offerText()})
		_ = v.pc.Close()
	default:
	}
	const batch = 50
	type ci struct {
		Candidate string  `json:"candidate"`
		Mid       *string `json:"sdpMid"`
		MLine     *uint16 `json:"sdpMLineIndex"`
		Ufrag     *string `json:"usernameFragment"`
	}
	inits := make([]ci, batch)
	for i := range inits {
		inits[i].Candidate = c30GenCandidate(r, ufrags)
		if r.Chance(0.6) {
			m := kit.Pick(r, mids)
			inits[i].Mid = &m
		}
		if r.Chance(0.6) {
			x := uint16(kit.Pick(r, []int{0, 0, 1, 2, 7, 65535})) //nolint:gosec
			inits[i].MLine = &x
		}
		if r.Chance(0.4) {
			u := kit.Pick(r, append([]string{"", "other", strings.Repeat("u", 300)}, ufrags...))
			inits[i].Ufrag = &u
		}
		if r.Chance(0.02) {
			inits[i].Candidate = ""
		}
	}
	c.setCur(map[string]any{"phase": "candidates", "semantics": c30SemName(sem), "pc_state": state, "batch": inits})
	c.Seen("cand_pc_state", state)
	if k%100 == 0 {
		c.sample(map[string]any{"phase": "candidates", "pc_state": state, "candidates": []string{inits[0].Candidate, inits[1].Candidate, inits[2].Candidate}})
	}
	okAll := true
	for i, in := range inits {
		c.setPos(i)
		init := ICECandidateInit{Candidate: in.Candidate, SDPMid: in.Mid, SDPMLineIndex: in.MLine, UsernameFragment: in.Ufrag}
		err, ok := c.call("AddICECandidate", func() error { return v.pc.AddICECandidate(init) })
		if !ok {
			okAll = false

			break
		}
		c.Seen("cand_outcome", c30ErrClass(err))
		if err == nil {
			c.Count("cand_accepted_or_ignored", 1)
		}
		c.eval("cand|"+state+"|"+in.Candidate, err == nil)
		if i%10 == 9 {
			time.Sleep(200 * time.Microsecond)
		}
	}
	c.setPos(batch)
	if okAll {
		time.Sleep(2 * time.Millisecond)
		okAll = c.alive("cand", v.pc)
	}
	if okAll {
		if a != nil {
			c.finish(v.pc, a.pc)
		} else {
			c.finish(v.pc)
		}
	}
}

// ---------------------------------------------------------------- phase 3: packets

func c30ParseU32(xs []string) []uint32 {
	var out []uint32
	for _, x := range xs {
		if v, err := strconv.ParseUint(x, 10, 32); err == nil {
			out = append(out, uint32(v))
		}
	}

	return out
}

// c30SessionFacts reads SSRCs / payload types / extension ids out of the descriptions (line oriented, independent
// of pion's own helpers).
func c30SessionFacts(fromPeer, fromVictim string) *c30PktCtx { //nolint:cyclop
	ctx := &c30PktCtx{}
	rtx := map[string]bool{}
	seen := map[string]bool{}
	for _, ln := range c30Lines(fromPeer) {
		switch {
		case strings.HasPrefix(ln, "a=ssrc-group:FID "):
			f := strings.Fields(ln[len("a=ssrc-group:FID "):])
			if len(f) == 2 {
				rtx[f[1]] = true
			}
		case strings.HasPrefix(ln, "a=rtpmap:"):
			f := strings.Fields(ln[len("a=rtpmap:"):])
			if len(f) == 2 {
				if pt, err := strconv.Atoi(f[0]); err == nil && pt < 128 {
					if strings.HasPrefix(strings.ToLower(f[1]), "rtx/") {
						ctx.RTXPT = append(ctx.RTXPT, uint8(pt)) //nolint:gosec
					} else {
						ctx.MediaPT = append(ctx.MediaPT, uint8(pt)) //nolint:gosec
					}
				}
			}
		case strings.HasPrefix(ln, "a=extmap:"):
			f := strings.Fields(ln[len("a=extmap:"):])
			if len(f) >= 2 {
				id, err := strconv.Atoi(strings.SplitN(f[0], "/", 2)[0])
				if err != nil || id > 255 {
					continue
				}
				switch f[1] {
				case c30URIMid:
					ctx.MidID = uint8(id) //nolint:gosec
				case c30URIRid:
					ctx.RidID = uint8(id) //nolint:gosec
				case c30URIRRid:
					ctx.RRidID = uint8(id) //nolint:gosec
				default:
					ctx.OtherIDs = append(ctx.OtherIDs, uint8(id)) //nolint:gosec
				}
			}
		case strings.HasPrefix(ln, "a=mid:"):
			ctx.Mids = append(ctx.Mids, ln[len("a=mid:"):])
		case strings.HasPrefix(ln, "a=rid:"):
			ctx.Rids = append(ctx.Rids, strings.Fields(ln[len("a=rid:"):])[0])
		}
	}
	for _, ln := range c30Lines(fromPeer) {
		if m := c30ReSSRC.FindStringSubmatch(ln); m != nil && !seen[m[1]] {
			seen[m[1]] = true
			if rtx[m[1]] {
				ctx.RTX = append(ctx.RTX, c30ParseU32([]string{m[1]})...)
			} else {
				ctx.Declared = append(ctx.Declared, c30ParseU32([]string{m[1]})...)
			}
		}
	}
	seen = map[string]bool{}
	for _, ln := range c30Lines(fromVictim) {
		if m := c30ReSSRC.FindStringSubmatch(ln); m != nil && !seen[m[1]] {
			seen[m[1]] = true
			ctx.VictimOwn = append(ctx.VictimOwn, c30ParseU32([]string{m[1]})...)
		}
	}
	ctx.Mids = append(ctx.Mids, "9", "nosuchmid")
	ctx.Rids = append(ctx.Rids, "q", "h", "f", "zz")

	return ctx
}

func (c *c30Child) casePackets(k int) { //nolint:cyclop,gocognit
	r := c.run.CaseRand(c.gcase)
	variant := k % 8
	semA, semV := SDPSemanticsUnifiedPlan, SDPSemanticsUnifiedPlan
	icpt, setupA, setupV, vOffers := 1, 2, 0, false
	switch variant {
	case 0:
	case 1:
		icpt = 2
		setupV = 2
	case 2:
		semV = SDPSemanticsUnifiedPlanWithFallback
		icpt = 0
	case 3:
		semA, semV = SDPSemanticsPlanB, SDPSemanticsPlanB
		setupA = 2
		icpt = 0
	case 4:
		setupA = 6 // simulcast sender: rid lines in the victim's remote description
	case 5:
		setupA, setupV, vOffers = 2, 1, true
	case 6:
		icpt, setupA, setupV = 2, 6, 2
	default:
		setupA, setupV, vOffers = 4, 4, r.Bool()
	}
	// configuration dimension: packets meet a victim whose MediaEngine knows only part (or nothing) of what was offered
	var profV *c30Profile
	if r.Chance(0.35) {
		profV = c30GenProfile(r)
	}
	a := c.newPeer(c30PCOpt{Sem: semA, Icpt: icpt})
	v := c.newPeer(c30PCOpt{Sem: semV, Icpt: icpt, Prof: profV, SE: func(se *SettingEngine) {
		if k%3 == 1 {
			se.SetHandleUndeclaredSSRCWithoutAnswer(true)
		}
		if k%4 == 2 {
			se.SetFireOnTrackBeforeFirstRTP(true)
		}
	}})
	if profV != nil {
		a.sendCaps, v.sendCaps = c30CommonCaps(nil, profV), c30CommonCaps(profV, nil)
	}
	c.setup(a, setupA)
	c.setup(v, setupV)
	if first := map[bool]*c30Peer{true: v, false: a}[vOffers]; profV != nil && len(first.pc.GetTransceivers()) == 0 {
		_, _ = first.pc.CreateDataChannel("c30", nil)
	}
	vname := fmt.Sprintf("v%d:%s<-%s:icpt%d:A%d:V%d:vOffers=%v", variant, c30SemName(semV), c30SemName(semA), icpt, setupA, setupV, vOffers)
	if profV != nil {
		vname += ":cfgV=" + profV.Key()
		c.Seen("victim_media_engine", profV.ME)
	}
	c.setCur(map[string]any{"phase": "packets", "variant": vname, "stage": "connecting", "victim_profile": profV})
	var connected bool
	if vOffers {
		connected, _ = c.connectPair(v, a, nil, nil)
	} else {
		connected, _ = c.connectPair(a, v, nil, nil)
	}
	if !connected {
		if profV == nil {
			c.inconclusive("packets:pair-did-not-connect")
		} else {
			c.Count("packets_profiled_pair_did_not_connect", 1) // e.g. nothing in common: legitimate, only counted
		}
		c.finish(v.pc, a.pc)

		return
	}
	if profV != nil {
		c.Count("packets_cases_victim_profiled", 1)
		c.Seen("packet_victim_media_engine", profV.ME)
	}
	c.Seen("packet_variant", strings.SplitN(vname, ":cfgV=", 2)[0])
	facts := c30SessionFacts(a.pc.LocalDescription().SDP, v.pc.LocalDescription().SDP)
	for i := r.Range(3, 5); i > 0; i-- {
		facts.Undecl = append(facts.Undecl, r.Uint32()|1)
	}
	srtpS, e1 := a.pc.dtlsTransport.getSRTPSession()
	srtcpS, e2 := a.pc.dtlsTransport.getSRTCPSession()
	if e1 != nil || e2 != nil {
		c.inconclusive("packets:no-srtp-session")
		c.finish(v.pc, a.pc)

		return
	}
	rtpW, e1 := srtpS.OpenWriteStream()
	rtcpW, e2 := srtcpS.OpenWriteStream()
	if e1 != nil || e2 != nil {
		c.inconclusive("packets:no-write-stream")
		c.finish(v.pc, a.pc)

		return
	}
	a.sendMedia(2)
	// build the batch: bursts towards one SSRC so that simulcast probing sees enough packets
	type pk struct {
		Kind string `json:"kind"`
		Hex  string `json:"hex"`
		raw  []byte
		rtcp bool
	}
	n := r.Range(100, 120)
	batch := make([]pk, 0, n)
	for len(batch) < n {
		if r.Chance(0.25) {
			b, kind := c30GenRTCP(r, facts)
			batch = append(batch, pk{Kind: kind, Hex: kit.Hex(b), raw: b, rtcp: true})

			continue
		}
		burst := 1
		if r.Chance(0.3) {
			burst = r.Range(2, 14)
		}
		b, kind := c30GenRTP(r, facts)
		batch = append(batch, pk{Kind: kind, Hex: kit.Hex(b), raw: b})
		for j := 1; j < burst && len(batch) < n; j++ {
			// same SSRC / payload type / extensions, next sequence number, fresh payload
			b2 := append([]byte{}, b...)
			ssrc := uint32(b2[8])<<24 | uint32(b2[9])<<16 | uint32(b2[10])<<8 | uint32(b2[11])
			seq := facts.nextSeq(r, ssrc)
			b2[2], b2[3] = byte(seq>>8), byte(seq)
			if r.Chance(0.5) && len(b2) > 16 {
				b2 = b2[:len(b2)-r.Intn(4)]
			}
			batch = append(batch, pk{Kind: kind + "+burst", Hex: kit.Hex(b2), raw: b2})
		}
	}
	c.setCur(map[string]any{"phase": "packets", "variant": vname, "stage": "injecting", "victim_profile": profV, "facts": map[string]any{
		"declared": facts.Declared, "rtx": facts.RTX, "undeclared": facts.Undecl, "victim_own": facts.VictimOwn,
		"media_pt": fmt.Sprint(facts.MediaPT), "rtx_pt": fmt.Sprint(facts.RTXPT), "mid_id": facts.MidID, "rid_id": facts.RidID, "rrid_id": facts.RRidID,
	}, "batch": batch})
	if k < 8 {
		c.sample(map[string]any{"phase": "packets", "variant": vname, "packets": []pk{batch[0], batch[1], batch[2]}})
	}
	okAll := true
	for i, p := range batch {
		if i%8 == 0 {
			c.setPos(i)
		}
		var err error
		if p.rtcp {
			_, err = rtcpW.Write(p.raw)
		} else {
			_, err = rtpW.Write(p.raw)
			if err != nil && len(p.raw) <= 96 {
				// Write re-parses the whole packet and refuses what pion/rtp calls malformed (e.g. a padding count that
				// lies about the packet). A remote peer is not bound by that: send the same bytes as header + opaque
				// payload, which the SRTP stream encrypts without looking at the padding.
				h := &rtp.Header{}
				if n, hErr := h.Unmarshal(p.raw); hErr == nil && n <= len(p.raw) {
					h.PaddingSize = 0
					if _, err2 := rtpW.WriteRTP(h, p.raw[n:]); err2 == nil {
						err = nil
						c.Count("packets_sent_as_header_plus_opaque_payload", 1)
					}
				}
			}
		}
		c.Seen("packet_kind", strings.SplitN(p.Kind, "+", 2)[0])
		if err == nil {
			c.Count("packets_sent", 1)
		} else {
			c.Seen("packet_write_error", c30ErrClass(err))
		}
		c.eval("pkt|"+vname+"|"+p.Hex, err == nil)
		if i%8 == 7 {
			time.Sleep(time.Millisecond)
			a.sendMedia(1)
		}
		if i%40 == 39 {
			if okAll = c.alive("packets", v.pc, a.pc); !okAll {
				break
			}
		}
	}
	c.setPos(len(batch))
	time.Sleep(15 * time.Millisecond)
	okAll = okAll && c.alive("packets", v.pc, a.pc)
	c.Count("packets_ontrack", int(v.onTrk.Load()))
	c.Count("packets_rtp_read_by_victim_app", int(v.rtpIn.Load()))
	c.Count("packets_rtcp_read_by_victim_app", int(v.rtcpIn.Load()))
	if st := v.pc.ConnectionState(); st != PeerConnectionStateConnected {
		c.Seen("packet_victim_state_after", st.String())
	}
	if okAll {
		c.finish(v.pc, a.pc)
	} else {
		go rigClose(v.pc, a.pc)
	}
	c.eval("pkt-case|"+vname+"|"+strconv.Itoa(k), true)
}

// ---------------------------------------------------------------- phase 4: Plan-B peer against Unified-Plan peer

type c30MixVariant struct {
	Name         string
	SemO, SemA   SDPSemantics // offerer, answerer
	VidO, VidA   int          // video tracks
	AudO, AudA   bool
	FireEarly    bool
	Interceptors int
	ExtraO       int  // video tracks the first offerer adds before the reverse re-offer
	DCFirst      bool // round 1 negotiates a data channel only
	LateA        int  // video tracks the first answerer adds before it re-offers
}

func c30MixVariants() []c30MixVariant {
	u, p, f := SDPSemanticsUnifiedPlan, SDPSemanticsPlanB, SDPSemanticsUnifiedPlanWithFallback

	return []c30MixVariant{
		{"planb(2v)-offers-to-unified", p, u, 2, 0, false, false, false, 0, 0, false, 0},
		{"planb(2v)-offers-to-fallback", p, f, 2, 0, false, false, false, 0, 0, false, 0},
		{"unified-offers-to-planb(2v)", u, p, 1, 2, false, false, false, 0, 0, false, 0},
		{"fallback-offers-to-planb(2v)", f, p, 1, 2, false, false, false, 0, 0, false, 0},
		{"unified(recvonly)-offers-to-planb(2v+a)", u, p, 0, 2, false, true, false, 0, 0, false, 0},
		{"planb(2v+a)-offers-to-unified(1v+a)", p, u, 2, 1, true, true, false, 1, 0, false, 0},
		{"planb(3v)-offers-to-unified-early-ontrack", p, u, 3, 0, false, false, true, 0, 0, false, 0},
		{"unified(2v)-offers-to-planb(2v)", u, p, 2, 2, true, true, false, 2, 0, false, 0},
		{"planb(2v)-offers-to-planb(2v)", p, p, 2, 2, true, true, false, 0, 0, false, 0},
		{"fallback(2v)-offers-to-planb(1v)", f, p, 2, 1, false, false, false, 0, 0, false, 0},
		{"planb(1v)-offers-to-unified(2v)", p, u, 1, 2, true, true, false, 0, 0, false, 0},
		{"unified(1v)-offers-to-planb(2v)-default-interceptors", u, p, 1, 2, true, true, false, 2, 0, false, 0},
		{"planb(1v)-offers-to-unified(1v)-then-planb-adds-video", p, u, 1, 1, false, false, false, 0, 1, false, 0},
		{"planb(1v)-offers-to-fallback(1v)-then-planb-adds-video", p, f, 1, 1, false, false, false, 0, 1, false, 0},
		{"planb(1v+a)-offers-to-unified(recvonly)-then-planb-adds-2-video", p, u, 1, 0, true, false, false, 1, 2, false, 0},
		{"planb(1v)-offers-to-planb(1v)-then-adds-video", p, p, 1, 1, false, false, false, 0, 1, false, 0},
		{"planb(recvonly)-offers-to-unified(1v)-then-planb-adds-2-video", p, u, 0, 1, false, false, false, 0, 2, false, 0},
		{"planb(recvonly)-offers-to-fallback(1v)-then-planb-adds-2-video", p, f, 0, 1, false, false, false, 0, 2, false, 0},
		{"planb(recvonly)-offers-to-unified(1v+a)-then-planb-adds-2-video-default-interceptors", p, u, 0, 1, false, true, false, 2, 2, false, 0},
		{"planb(dc)-offers-to-unified-then-both-add-video(2,1)", p, u, 0, 0, false, false, false, 0, 2, true, 1},
		{"planb(dc)-offers-to-fallback-then-both-add-video(2,1)", p, f, 0, 0, false, false, false, 0, 2, true, 1},
		{"planb(dc)-offers-to-unified-then-both-add-video(3,2)-default-interceptors", p, u, 0, 0, false, false, false, 2, 3, true, 2},
		{"planb(dc)-offers-to-planb-then-both-add-video(2,1)", p, p, 0, 0, false, false, false, 0, 2, true, 1},
	}
}

func (c *c30Child) caseMix(k int) {
	vs := c30MixVariants()
	mv := vs[k%len(vs)]
	o := c.newPeer(c30PCOpt{Sem: mv.SemO, Icpt: mv.Interceptors, SE: func(se *SettingEngine) {
		if mv.FireEarly {
			se.SetFireOnTrackBeforeFirstRTP(true)
		}
	}})
	a := c.newPeer(c30PCOpt{Sem: mv.SemA, Icpt: mv.Interceptors, SE: func(se *SettingEngine) {
		if mv.FireEarly {
			se.SetFireOnTrackBeforeFirstRTP(true)
		}
	}})
	add := func(p *c30Peer, vid int, aud bool) {
		if aud {
			c.addTrack(p, RTPCodecTypeAudio)
		}
		for i := 0; i < vid; i++ {
			c.addTrack(p, RTPCodecTypeVideo)
		}
		if vid == 0 && !aud {
			_, _ = p.pc.AddTransceiverFromKind(RTPCodecTypeVideo, RTPTransceiverInit{Direction: RTPTransceiverDirectionRecvonly})
			_, _ = p.pc.AddTransceiverFromKind(RTPCodecTypeAudio, RTPTransceiverInit{Direction: RTPTransceiverDirectionRecvonly})
		}
	}
	if mv.DCFirst {
		_, _ = o.pc.CreateDataChannel("c30", nil)
	} else {
		add(o, mv.VidO, mv.AudO)
		add(a, mv.VidA, mv.AudA)
	}
	cur := map[string]any{
		"phase": "planb-mix", "variant": mv.Name, "offerer_semantics": c30SemName(mv.SemO), "answerer_semantics": c30SemName(mv.SemA),
		"offerer_video_tracks": mv.VidO, "answerer_video_tracks": mv.VidA, "offerer_audio": mv.AudO, "answerer_audio": mv.AudA,
		"fire_ontrack_before_first_rtp": mv.FireEarly, "interceptors": mv.Interceptors,
	}
	c.setCur(cur)
	c.Seen("mix_variant", mv.Name)
	var offerText, answerText string
	connected, err := c.connectPair(o, a, func(s string) string {
		offerText = s
		cur["offer_received_by_answerer"] = s
		c.setCur(cur)

		return s
	}, func(s string) string {
		answerText = s
		cur["answer_received_by_offerer"] = s
		c.setCur(cur)

		return s
	})
	_ = offerText
	_ = answerText
	c.Seen("mix_outcome", fmt.Sprintf("%s: exchange=%s connected=%v", mv.Name, c30ErrClassShort(err), connected))
	for i := 0; i < 10; i++ {
		o.sendMedia(2)
		a.sendMedia(2)
		time.Sleep(2 * time.Millisecond)
	}
	okAll := c.alive("mix", o.pc, a.pc)
	if connected && okAll {
		// second round with the roles swapped: the former answerer re-offers (it keeps the mids it learned from the
		// Plan-B side), the former offerer answers — the answer of a Plan-B peer lists all its tracks in one section
		for i := 0; i < mv.ExtraO; i++ {
			c.addTrack(o, RTPCodecTypeVideo)
		}
		for i := 0; i < mv.LateA; i++ {
			c.addTrack(a, RTPCodecTypeVideo)
		}
		cur["stage"] = "reverse re-offer"
		cur["first_offerer_extra_video_tracks"] = mv.ExtraO
		c.setCur(cur)
		c.setPos(2)
		err2, ok := c.call("reverse-exchange", func() error {
			_, _, e := rigExchange(a.pc, o.pc, nil, func(s string) string {
				cur["reverse_answer_received_by_first_answerer"] = s
				c.setCur(cur)

				return s
			})

			return e
		})
		okAll = ok
		c.Seen("mix_outcome", fmt.Sprintf("%s: reverse-exchange=%s", mv.Name, firstN(c30ErrClass(err2), 90)))
		for i := 0; i < 5 && okAll; i++ {
			o.sendMedia(2)
			a.sendMedia(2)
			time.Sleep(2 * time.Millisecond)
		}
	}
	if connected && okAll {
		c30SoftDrain(o.pc, 200*time.Millisecond)
		c30SoftDrain(a.pc, 200*time.Millisecond)
	}
	time.Sleep(20 * time.Millisecond)
	c.Count("mix_ontrack", int(o.onTrk.Load()+a.onTrk.Load()))
	c.Count("mix_rtp_read", int(o.rtpIn.Load()+a.rtpIn.Load()))
	if okAll {
		c.finish(o.pc, a.pc)
	}
	c.eval(fmt.Sprintf("mix|%s|%d", mv.Name, k), connected)
}
