package webrtc

// C16 — answer codecs are a subset of the offered codecs, with the offered payload types.
//
// Statement: for every m-section of an answer, each listed payload type appears in the corresponding offer section
// and maps to the same codec (mime type, clock rate, channels). The answer never introduces a codec or payload type
// the offerer didn't list.
//
// Oracle (kit.ParseSDP only): sections are paired by mid (a rejected answer section without mid is paired through an
// order-preserving alignment, so that C07 failures do not cascade); for every format token of the answer's m= line:
// it must be a format token of the paired offer section, and the rtpmap of that token (name case-insensitive, clock
// rate, channels with "omitted" == 1; static table for 0/8/9 when no rtpmap is present) must be equal on both sides.
// The cause of a failure is classified from what is observable (see c16Classify) so that one signature = one cause.
//
// Workload: foreign offers with payload types permuted per description and, often, re-drawn per section; answerers
// with default / privately numbered / subset MediaEngines, 0..3 pre-created transceivers of which most carry
// SetCodecPreferences (engine payload types or 0), multi-codec negotiation on/off, optional second extended offer.
//
// Spelling classes (the same codec written differently on the two sides): pion's codec matcher treats a registered or
// offered clock rate 0 / channel count 0 as "the codec's default", so "matched" does not mean "textually equal".
// The generator therefore also draws (a) MediaEngine registrations and codec preferences that leave clock rate and/or
// channels 0 (the documented lazy registration) or spell a mono channel count explicitly, and (b) offers that spell
// the channel count the other way (opus without "/2", mono codecs with "/1"); pre-created transceivers come from
// AddTransceiverFromKind or AddTrack. The oracle is unchanged: whatever the local spelling, the answer's rtpmap
// for a payload type must denote the offered (name, clock rate, channels).

import (
	"fmt"
	"regexp"
	"strings"
	"testing"

	kit "github.com/pion/webrtc/v4/internal/verifkit"
)

// ---------------------------------------------------------------- local codec table (own copy, not pion's)

type c16Codec struct {
	Kind  RTPCodecType
	Name  string
	Clock uint32
	Ch    uint16
	Fmtp  string
	PT    PayloadType
	RTX   PayloadType // 0: none
	// local spelling of clock rate / channels when it differs from the canonical one above (0 = left unset)
	Re      bool
	ReClock uint32
	ReCh    uint16
}

// spelled returns clock rate and channels as the local side writes them.
func (c c16Codec) spelled() (uint32, uint16) {
	if c.Re {
		return c.ReClock, c.ReCh
	}

	return c.Clock, c.Ch
}

func (c c16Codec) label() string {
	if !c.Re {
		return fmt.Sprintf("%d=%s", c.PT, c.Name)
	}

	return fmt.Sprintf("%d=%s(/%d/%d)", c.PT, c.Name, c.ReClock, c.ReCh)
}

// c16Respell draws another spelling of the same codec: clock rate 0 where the canonical rate is the rate an unset clock
// rate stands for (48000 opus, 8000 PCMU/PCMA, 90000 video), channels 0 for opus (unset = stereo), explicit 1 for mono audio.
func c16Respell(r *kit.Rand, k c16Codec) c16Codec {
	clock, ch := k.Clock, k.Ch
	name := strings.ToLower(k.Name)
	if (k.Kind == RTPCodecTypeVideo || name == "opus" || name == "pcmu" || name == "pcma") && r.Chance(0.7) {
		clock = 0
	}
	switch {
	case name == "opus":
		if r.Chance(0.7) {
			ch = 0
		}
	case k.Kind == RTPCodecTypeAudio:
		if r.Chance(0.5) {
			ch = 1
		}
	}
	k.Re, k.ReClock, k.ReCh = clock != k.Clock || ch != k.Ch, clock, ch

	return k
}

func c16CodecTable() []c16Codec {
	type row struct {
		Kind  RTPCodecType
		Name  string
		Clock uint32
		Ch    uint16
		Fmtp  string
		PT    PayloadType
		RTX   PayloadType
	}
	var out []c16Codec
	for _, k := range []row{
		{RTPCodecTypeAudio, "opus", 48000, 2, "minptime=10;useinbandfec=1", 111, 0},
		{RTPCodecTypeAudio, "G722", 8000, 0, "", 9, 0},
		{RTPCodecTypeAudio, "PCMU", 8000, 0, "", 0, 0},
		{RTPCodecTypeAudio, "PCMA", 8000, 0, "", 8, 0},
		{RTPCodecTypeVideo, "VP8", 90000, 0, "", 96, 97},
		{RTPCodecTypeVideo, "H264", 90000, 0, "level-asymmetry-allowed=1;packetization-mode=1;profile-level-id=42001f", 102, 103},
		{RTPCodecTypeVideo, "H264", 90000, 0, "level-asymmetry-allowed=1;packetization-mode=1;profile-level-id=42e01f", 106, 107},
		{RTPCodecTypeVideo, "AV1", 90000, 0, "", 45, 46},
		{RTPCodecTypeVideo, "VP9", 90000, 0, "profile-id=0", 98, 99},
		{RTPCodecTypeVideo, "VP9", 90000, 0, "profile-id=2", 100, 101},
	} {
		out = append(out, c16Codec{Kind: k.Kind, Name: k.Name, Clock: k.Clock, Ch: k.Ch, Fmtp: k.Fmtp, PT: k.PT, RTX: k.RTX})
	}

	return out
}

func (c c16Codec) params() (primary RTPCodecParameters, rtx *RTPCodecParameters) {
	prefix := "audio/"
	var fb []RTCPFeedback
	if c.Kind == RTPCodecTypeVideo {
		prefix = "video/"
		fb = []RTCPFeedback{{"goog-remb", ""}, {"ccm", "fir"}, {"nack", ""}, {"nack", "pli"}}
	}
	clock, ch := c.spelled()
	primary = RTPCodecParameters{RTPCodecCapability: RTPCodecCapability{prefix + c.Name, clock, ch, c.Fmtp, fb}, PayloadType: c.PT}
	if c.RTX != 0 {
		rtx = &RTPCodecParameters{
			RTPCodecCapability: RTPCodecCapability{"video/rtx", clock, 0, fmt.Sprintf("apt=%d", c.PT), nil}, PayloadType: c.RTX,
		}
	}

	return primary, rtx
}

func c16BuildEngine(codecs []c16Codec) (*MediaEngine, error) {
	me := &MediaEngine{}
	for _, c := range codecs {
		p, rtx := c.params()
		if err := me.RegisterCodec(p, c.Kind); err != nil {
			return nil, err
		}
		if rtx != nil {
			if err := me.RegisterCodec(*rtx, c.Kind); err != nil {
				return nil, err
			}
		}
	}

	return me, nil
}

// ---------------------------------------------------------------- case description

type c16Local struct {
	Kind   string
	Dir    string
	Prefs  []int  // indexes into Engine (codecs of Kind), empty: no SetCodecPreferences
	PTMode string // engine | zero
	// PrefRe, when set, is parallel to Prefs: the preference spells clock rate / channels on its own (not as registered)
	PrefRe []c16Codec
	Via    string // "" AddTransceiverFromKind | "track": AddTrack of a local track of engine codec Track
	Track  int
}

// pref returns preference k as the codec the local side writes.
func (l c16Local) pref(engine []c16Codec, k int) c16Codec {
	if len(l.PrefRe) == len(l.Prefs) {
		return l.PrefRe[k]
	}

	return engine[l.Prefs[k]]
}

type c16Case struct {
	Offer        *genSDP
	FirstN       int
	Rounds       int
	EngineClass  string
	Engine       []c16Codec
	Locals       []c16Local
	DisableMulti bool
}

func c16Gen(r *kit.Rand) *c16Case {
	c := &c16Case{Rounds: 1}
	o := genOpts{
		MaxSections: 5, Kinds: []string{"audio", "video", "video", "audio", "video", "application"},
		Unknown: r.Chance(0.1), AbsentDir: r.Chance(0.1), MidStyle: -1,
		PTRemap: r.Chance(0.85), PTPerSection: r.Chance(0.8), ExtPermute: r.Bool(), RejectedOK: r.Chance(0.15),
	}
	if o.Unknown {
		o.Kinds = append(o.Kinds, "text")
	}
	c.Offer = genRandomOffer(r, o)
	n := len(c.Offer.Media)
	c.FirstN = n
	if n >= 2 && r.Chance(0.3) {
		c.Rounds = 2
		c.FirstN = r.Range(1, n-1)
	}
	tab := c16CodecTable()
	keepAll := r.Chance(0.6)
	for _, k := range tab {
		if keepAll || r.Chance(0.55) {
			c.Engine = append(c.Engine, k)
		}
	}
	if len(c.Engine) == 0 {
		c.Engine = append(c.Engine, tab[0], tab[4])
	}
	c.EngineClass = "default-pts"
	if !keepAll {
		c.EngineClass = "subset-default-pts"
	}
	if r.Chance(0.5) {
		// private numbering: every codec gets a payload type that differs from pion's default for it
		c.EngineClass = strings.Replace(c.EngineClass, "default", "private", 1)
		pool := []int{}
		for pt := 96; pt <= 127; pt++ {
			pool = append(pool, pt)
		}
		for pt := 35; pt <= 63; pt++ {
			pool = append(pool, pt)
		}
		kit.Shuffle(r, pool)
		next := 0
		take := func(not PayloadType) PayloadType {
			for {
				pt := PayloadType(pool[next])
				next++
				if pt != not {
					return pt
				}
			}
		}
		for i := range c.Engine {
			if c.Engine[i].PT >= 35 || r.Chance(0.3) { // static audio payload types usually stay
				c.Engine[i].PT = take(c.Engine[i].PT)
			}
			if c.Engine[i].RTX != 0 {
				c.Engine[i].RTX = take(c.Engine[i].RTX)
			}
		}
	}
	for i, nl := 0, r.Intn(4); i < nl; i++ {
		l := c16Local{
			Kind: kit.Pick(r, []string{"audio", "video", "video"}), Dir: kit.Pick(r, []string{"sendrecv", "sendonly", "recvonly", "recvonly"}),
			PTMode: kit.Pick(r, []string{"engine", "engine", "zero"}),
		}
		if r.Chance(0.7) {
			var idx []int
			for j, k := range c.Engine {
				if k.Kind.String() == l.Kind {
					idx = append(idx, j)
				}
			}
			kit.Shuffle(r, idx)
			if len(idx) > 0 {
				l.Prefs = idx[:r.Range(1, len(idx))]
			}
		}
		c.Locals = append(c.Locals, l)
	}
	c.DisableMulti = r.Chance(0.25)
	c16GenSpelling(r, c)

	return c
}

// c16GenSpelling draws the spelling classes on top of a generated case (drawn last: the structure of a case does not depend on them).
func c16GenSpelling(r *kit.Rand, c *c16Case) {
	// (a) registrations that leave clock rate / channels unset or spell mono explicitly
	if r.Chance(0.45) {
		all := r.Chance(0.4)
		n := 0
		for i := range c.Engine {
			if all || r.Chance(0.5) {
				c.Engine[i] = c16Respell(r, c.Engine[i])
				if c.Engine[i].Re {
					n++
				}
			}
		}
		if n > 0 {
			c.EngineClass += "+respelled"
		}
	}
	// (b) offers that spell the channel count the other way, consistently per description and codec name
	// (a payload type never denotes two codecs): opus without channel count, mono audio codecs with "/1"
	if r.Chance(0.35) {
		flip := map[string]bool{}
		for _, m := range c.Offer.Media {
			if m.Kind != "audio" {
				continue
			}
			for k := range m.Codecs {
				name := strings.ToLower(m.Codecs[k].Name)
				if _, drawn := flip[name]; !drawn {
					flip[name] = r.Chance(0.6)
				}
				if !flip[name] {
					continue
				}
				switch m.Codecs[k].Ch {
				case 0:
					m.Codecs[k].Ch = 1
				case 2:
					m.Codecs[k].Ch = 0
				}
			}
		}
	}
	// (c) codec preferences spelled on their own; pre-created transceivers that come from AddTrack
	for i := range c.Locals {
		l := &c.Locals[i]
		if len(l.Prefs) > 0 && r.Chance(0.35) {
			for _, idx := range l.Prefs {
				k := c.Engine[idx]
				k.Re = false
				l.PrefRe = append(l.PrefRe, c16Respell(r, k))
			}
		}
		if r.Chance(0.25) {
			var idx []int
			for j, k := range c.Engine {
				if k.Kind.String() == l.Kind {
					idx = append(idx, j)
				}
			}
			if len(idx) > 0 {
				l.Via, l.Track, l.Dir = "track", kit.Pick(r, idx), "sendrecv"
			}
		}
	}
}

func c16M(kind, mid, dir string, codecs ...genCodec) *genMedia {
	m := &genMedia{Kind: kind, Mid: mid, Port: 9, Proto: "UDP/TLS/RTP/SAVPF", Setup: "actpass", RTCPMux: true, Dir: dir, Codecs: codecs}
	if kind == "application" {
		m.Proto, m.SCTPPort, m.Dir = "UDP/DTLS/SCTP", 5000, ""
	}

	return m
}

func c16Hand(media ...*genMedia) *genSDP {
	return &genSDP{
		SessID: 1616, SessVer: 2, Bundle: true, Ufrag: "c16Ufrag", Pwd: "c16Passwordc16Passwordc16Pwd",
		Fingerprint: genFingerprint, Media: media,
	}
}

const c16NumDirected = 10

// c16Directed: hand-written minimal cases, the same for every seed.
func c16Directed(i int) *c16Case {
	tab := c16CodecTable()
	c := &c16Case{Rounds: 1, EngineClass: "default-pts", Engine: tab}
	vp8 := func(pt int) genCodec { return genCodec{pt, "VP8", 90000, 0, "", genVideoFb} }
	rtx := func(pt, apt int) genCodec { return genCodec{pt, "rtx", 90000, 0, fmt.Sprintf("apt=%d", apt), nil} }
	h264 := func(pt int) genCodec {
		return genCodec{pt, "H264", 90000, 0, "level-asymmetry-allowed=1;packetization-mode=1;profile-level-id=42001f", genVideoFb}
	}
	opus := func(pt int) genCodec { return genCodec{pt, "opus", 48000, 2, "minptime=10;useinbandfec=1", nil} }
	switch i {
	case 0: // the design witness: same codec, different payload type in the second section
		c.Offer = c16Hand(c16M("video", "0", "sendrecv", vp8(96), rtx(97, 96)), c16M("video", "1", "sendrecv", vp8(120), rtx(121, 120)))
	case 1: // remote numbering differs from the local engine's, single section (must be answered with the remote's)
		c.Offer = c16Hand(c16M("audio", "0", "sendrecv", opus(109)), c16M("video", "1", "sendrecv", vp8(100), rtx(101, 100), h264(96), rtx(97, 96)))
	case 2: // pre-created transceiver with codec preferences taken from the local engine (local payload types)
		c.Offer = c16Hand(c16M("video", "0", "sendrecv", vp8(120), rtx(121, 120), h264(122), rtx(123, 122)))
		c.Locals = []c16Local{{Kind: "video", Dir: "sendrecv", Prefs: []int{4, 5}, PTMode: "engine"}}
	case 3: // same, preferences given without payload types
		c.Offer = c16Hand(c16M("video", "0", "sendrecv", vp8(120), rtx(121, 120), h264(122), rtx(123, 122)))
		c.Locals = []c16Local{{Kind: "video", Dir: "sendrecv", Prefs: []int{5, 4}, PTMode: "zero"}}
	case 4: // second section offers a strict subset of the first; two pre-created transceivers without preferences
		c.Offer = c16Hand(c16M("video", "0", "sendrecv", vp8(96), rtx(97, 96), h264(102), rtx(103, 102)), c16M("video", "1", "sendrecv", h264(102), rtx(103, 102)))
		c.Locals = []c16Local{{Kind: "video", Dir: "recvonly"}, {Kind: "video", Dir: "recvonly"}}
	case 5: // same offer, no local transceivers
		c.Offer = c16Hand(c16M("video", "0", "sendrecv", vp8(96), rtx(97, 96), h264(102), rtx(103, 102)), c16M("video", "1", "sendrecv", h264(102), rtx(103, 102)))
	case 6: // no common codec: rejected section
		c.Offer = c16Hand(c16M("audio", "0", "sendrecv", opus(111)), c16M("video", "1", "sendrecv", genCodec{119, "FOO", 90000, 0, "", nil}))
	case 7: // VP9 twice (profile 0 exact, profile 2 partial match) without / with rtx, engine knows VP9 profile 0 only (holds on the pinned tree)
		vp9 := func(pt, profile int) genCodec {
			return genCodec{pt, "VP9", 90000, 0, fmt.Sprintf("profile-id=%d", profile), genVideoFb}
		}
		c.Offer = c16Hand(c16M("video", "b", "sendrecv", vp9(120, 0), vp9(61, 2), rtx(101, 61)), c16M("video", "0", "sendrecv", vp9(120, 0), rtx(104, 120)))
		c.EngineClass, c.Engine = "subset-default-pts", []c16Codec{tab[1], tab[5], tab[8]}
	case 9: // codec preference that names opus only (clock rate / channels unset, payload type 0) on a canonical engine
		c.Offer = c16Hand(c16M("audio", "0", "sendrecv", opus(109)))
		lazy := tab[0]
		lazy.Re, lazy.ReClock, lazy.ReCh = true, 0, 0
		c.Locals = []c16Local{{Kind: "audio", Dir: "recvonly", Prefs: []int{0}, PTMode: "zero", PrefRe: []c16Codec{lazy}}}
	default: // renegotiation appends a section that numbers VP8 differently
		c.Offer = c16Hand(c16M("video", "0", "sendrecv", vp8(96), rtx(97, 96)), c16M("application", "1", ""), c16M("video", "2", "sendonly", vp8(120), rtx(121, 120)))
		c.Rounds, c.FirstN = 2, 2
	}
	if c.FirstN == 0 {
		c.FirstN = len(c.Offer.Media)
	}

	return c
}

func (c *c16Case) offerFor(round int) *genSDP {
	g := *c.Offer
	g.Media = nil
	n := c.FirstN
	if round == 2 {
		n = len(c.Offer.Media)
		g.SessVer++
	}
	g.Media = append(g.Media, c.Offer.Media[:n]...)

	return &g
}

func c16Describe(g *genSDP) string {
	var parts []string
	for _, m := range g.Media {
		var cs []string
		for _, k := range m.Codecs {
			if m.Kind == "audio" && k.Ch > 0 {
				cs = append(cs, fmt.Sprintf("%d=%s/%d", k.PT, k.Name, k.Ch))
			} else {
				cs = append(cs, fmt.Sprintf("%d=%s", k.PT, k.Name))
			}
		}
		dir := m.Dir
		if dir == "" {
			dir = "absent"
		}
		parts = append(parts, fmt.Sprintf("%s/mid=%s/port=%d/%s[%s]", m.Kind, m.Mid, m.Port, dir, strings.Join(cs, ",")))
	}

	return strings.Join(parts, " ; ")
}

func c16DescribeParsed(d *kit.SDPDesc) string {
	var parts []string
	for _, m := range d.Media {
		mid, ok := m.Mid()
		if !ok {
			mid = "<none>"
		}
		names := map[string]string{}
		for _, rm := range m.RtpMaps() {
			names[rm.PT] = rm.Name
		}
		var cs []string
		for _, f := range m.Formats {
			cs = append(cs, f+"="+names[f])
		}
		parts = append(parts, fmt.Sprintf("%s/mid=%s/port=%s[%s]", m.Kind, mid, m.Port, strings.Join(cs, ",")))
	}

	return strings.Join(parts, " ; ")
}

func (c *c16Case) engineDesc() string {
	var cs []string
	for _, k := range c.Engine {
		cs = append(cs, k.label())
	}

	return strings.Join(cs, ",")
}

var c16ErrNoise = regexp.MustCompile(`"[^"]*"|[0-9]+`) //nolint:gochecknoglobals

func c16ErrClass(err error) string {
	s := c16ErrNoise.ReplaceAllString(err.Error(), "#")
	if len(s) > 90 {
		s = s[:90]
	}

	return s
}

// ---------------------------------------------------------------- oracle

type c16Ident struct {
	Name  string // lower case
	Clock string
	Ch    string // "1" when omitted
	Known bool
}

func (a c16Ident) String() string {
	if !a.Known {
		return "<no rtpmap>"
	}

	return a.Name + "/" + a.Clock + "/" + a.Ch
}

// c16Static is the RFC 3551 static assignment for the payload types an SDP may list without rtpmap.
var c16Static = map[string]c16Ident{ //nolint:gochecknoglobals
	"0": {"pcmu", "8000", "1", true}, "8": {"pcma", "8000", "1", true}, "9": {"g722", "8000", "1", true},
}

// c16Idents maps every format token of the section to its codec identity.
func c16Idents(m *kit.SDPMedia) map[string]c16Ident {
	out := map[string]c16Ident{}
	for _, f := range m.Formats {
		out[f] = c16Ident{}
	}
	isAudio := strings.EqualFold(m.Kind, "audio")
	for _, f := range m.Formats {
		if id, ok := c16Static[f]; ok && isAudio {
			out[f] = id
		}
	}
	seen := map[string]bool{}
	for _, rm := range m.RtpMaps() {
		if seen[rm.PT] {
			continue // the first rtpmap of a payload type wins
		}
		seen[rm.PT] = true
		if _, listed := out[rm.PT]; !listed {
			continue
		}
		ch := rm.Channels
		if ch == "" {
			ch = "1"
		}
		out[rm.PT] = c16Ident{strings.ToLower(rm.Name), rm.Clock, ch, true}
	}

	return out
}

func c16Align(off, ans *kit.SDPDesc) []int {
	no, na := len(off.Media), len(ans.Media)
	const inf = 1 << 20
	match := func(i, j int) bool {
		o, a := off.Media[i], ans.Media[j]
		om, _ := o.Mid()
		if am, ok := a.Mid(); ok {
			return am == om
		}

		return a.Rejected() && strings.EqualFold(a.Kind, o.Kind)
	}
	cost := make([][]int, no+1)
	for i := range cost {
		cost[i] = make([]int, na+1)
	}
	for i := no; i >= 0; i-- {
		for j := na; j >= 0; j-- {
			if i == no && j == na {
				continue
			}
			best := inf
			if i < no && j < na && match(i, j) {
				best = cost[i+1][j+1]
			}
			if i < no && cost[i+1][j]+1 < best {
				best = cost[i+1][j] + 1
			}
			if j < na && cost[i][j+1]+3 < best {
				best = cost[i][j+1] + 3
			}
			cost[i][j] = best
		}
	}
	ansTo := make([]int, na)
	i, j := 0, 0
	for j < na {
		switch {
		case i < no && match(i, j) && cost[i][j] == cost[i+1][j+1]:
			ansTo[j] = i
			i++
			j++
		case i < no && cost[i][j] == cost[i+1][j]+1:
			i++
		default:
			ansTo[j] = -1
			j++
		}
	}

	return ansTo
}

type c16Finding struct{ Sig, What string }

// c16SectionInfo is what the classifier may know about the answerer's side of a section (never used to decide
// whether there is a violation, only to name its cause).
type c16SectionInfo struct {
	HasPrefs bool   // the section is served by a pre-created transceiver on which SetCodecPreferences was called
	PreMade  bool   // the section is served by a pre-created transceiver
	PTMode   string // of the preferences
	// the codec identities as the answerer's side spells them (registration / preferences of the serving transceiver)
	Local []c16Ident
	Pref  []c16Ident
}

// c16LocalIdents is how the local side would write the codec (and its rtx) into an rtpmap.
func c16LocalIdents(k c16Codec) []c16Ident {
	clock, ch := k.spelled()
	chs := "1"
	if ch > 0 {
		chs = fmt.Sprint(ch)
	}
	out := []c16Ident{{strings.ToLower(k.Name), fmt.Sprint(clock), chs, true}}
	if k.RTX != 0 {
		out = append(out, c16Ident{"rtx", fmt.Sprint(clock), "1", true})
	}

	return out
}

func c16HasIdent(set []c16Ident, id c16Ident) bool {
	for _, x := range set {
		if x == id {
			return true
		}
	}

	return false
}

// c16SpelledOtherwise: the local side knows the codec name but no local spelling of it equals the offered identity.
func c16SpelledOtherwise(set []c16Ident, offered c16Ident) bool {
	named := false
	for _, x := range set {
		if x.Name == offered.Name {
			named = true
		}
	}

	return named && !c16HasIdent(set, offered)
}

// c16ClassifyIdentity names the cause of "the answer lists an offered payload type with another codec identity".
func c16ClassifyIdentity(want, got c16Ident, in c16SectionInfo, prefKept string) string {
	switch {
	case want.Name != got.Name:
		return "answer-pt-maps-to-different-codec" + prefKept
	case in.HasPrefs && c16HasIdent(in.Pref, got):
		// same codec name, but clock rate / channels are those of the local codec preference, not the offered ones
		return "answer-pt-changes-clock-or-channels:codec-preference-spelling-kept"
	case c16HasIdent(in.Local, got):
		// ... those of the local MediaEngine registration
		return "answer-pt-changes-clock-or-channels:local-registration-spelling-kept"
	default:
		return "answer-pt-changes-clock-or-channels"
	}
}

func c16Check(offerText, answerText string, info func(mid string) c16SectionInfo) (fs []c16Finding, stats map[string]int, err error) {
	off, err := kit.ParseSDP(offerText)
	if err != nil {
		return nil, nil, fmt.Errorf("offer: %w", err)
	}
	ans, err := kit.ParseSDP(answerText)
	if err != nil {
		return nil, nil, fmt.Errorf("answer: %w", err)
	}
	stats = map[string]int{}
	ansTo := c16Align(off, ans)
	offIdents := make([]map[string]c16Ident, len(off.Media))
	for i, m := range off.Media {
		offIdents[i] = c16Idents(m)
	}
	for j, a := range ans.Media {
		i := ansTo[j]
		if i < 0 {
			stats["answer_sections_unpaired"]++

			continue
		}
		o := off.Media[i]
		om, _ := o.Mid()
		oid, aid := offIdents[i], c16Idents(a)
		if a.Rejected() {
			stats["sections_rejected"]++
		} else {
			stats["sections_accepted"]++
		}
		// apt of the rtx formats (only used to fold an rtx finding into the finding of its primary and to name causes)
		aptOf := func(m *kit.SDPMedia) map[string]string {
			out := map[string]string{}
			for _, v := range m.AttrAll("fmtp") {
				pt, rest, _ := strings.Cut(v, " ")
				for _, kv := range strings.Split(rest, ";") {
					if k, val, ok := strings.Cut(strings.TrimSpace(kv), "="); ok && strings.EqualFold(k, "apt") {
						out[pt] = strings.TrimSpace(val)
					}
				}
			}

			return out
		}
		apt, oapt := aptOf(a), aptOf(o)
		bad := map[string]bool{}
		in := info(om)
		prefKept := ""
		if in.HasPrefs && in.PTMode == "engine" {
			prefKept = ":codec-preference-pt-kept"
		}
		for pass := 0; pass < 2; pass++ { // pass 0: primaries, pass 1: rtx
			for _, pt := range a.Formats {
				got := aid[pt]
				isRTX := got.Known && got.Name == "rtx"
				if isRTX != (pass == 1) {
					continue
				}
				stats["answer_formats_checked"]++
				want, offered := oid[pt]
				where := fmt.Sprintf("section %d (m=%s, mid %q): answer lists format %s (%s); offer section lists [%s]",
					i, o.Kind, om, pt, got, strings.Join(o.Formats, " "))
				switch {
				case a.Rejected() && !offered && !got.Known && pt == "0" && len(a.Formats) == 1:
					// cause: hard-coded placeholder format list "0" of the no-common-codec rejection path
					fs = append(fs, c16Finding{"rejected-section-lists-placeholder-format", where + " — the section is rejected (port 0)"})
				case a.Rejected() && !offered:
					// cause: a port-0 section (offered rejected / stopped transceiver) still lists the local kind-wide codecs
					fs = append(fs, c16Finding{"rejected-section-lists-unoffered-pt", where + " — the section is rejected (port 0)"})
				case a.Rejected():
					// a rejected section that echoes an offered format is fine
				case !offered && isRTX && bad[apt[pt]]:
					stats["rtx_findings_folded_into_primary"]++
				case !offered && isRTX:
					sig := "answer-rtx-pt-not-in-offer-section:rtx-not-offered-for-primary"
					for opt, oprim := range oapt {
						if _, listed := oid[opt]; listed && oprim == apt[pt] {
							sig = "answer-rtx-pt-not-in-offer-section:same-codec-different-pt-across-sections"
						}
					}
					switch {
					case prefKept != "":
						sig = "answer-rtx-pt-not-in-offer-section" + prefKept
					case in.HasPrefs:
						sig = "answer-codec-not-offered:codec-preference-not-intersected-with-section"
					case in.PreMade:
						sig = "answer-codec-not-offered:premade-transceiver-lists-kind-wide-codecs"
					}
					fs = append(fs, c16Finding{sig, where + "; its primary " + apt[pt] + " is an offered payload type"})
				case !offered:
					bad[pt] = true
					fs = append(fs, c16Finding{c16Classify(off, offIdents, aid, i, pt, got, in), where})
				case want.Known && got.Known && want != got:
					bad[pt] = true
					fs = append(fs, c16Finding{c16ClassifyIdentity(want, got, in, prefKept), where + fmt.Sprintf("; in the offer section %s is %s", pt, want)})
				case want.Known != got.Known:
					stats["model_divergence_rtpmap_on_one_side_only"]++
				default:
					stats["answer_formats_ok"]++
					// evidence for the spelling classes: the local side writes this codec differently from the offer, by serving path
					path := "transceiver-created-by-remote"
					set := in.Local
					switch {
					case in.HasPrefs:
						path, set = "premade-with-preferences", in.Pref
					case in.PreMade:
						path = "premade-no-preferences"
					}
					if want.Known && c16SpelledOtherwise(set, want) {
						stats["answer_formats_ok_local_spelling_differs:"+path]++
					}
				}
			}
		}
	}

	return fs, stats, nil
}

// c16Classify names the cause of "answer section lists payload type pt (a non-rtx codec) which its offer section does not list".
func c16Classify(off *kit.SDPDesc, offIdents []map[string]c16Ident, ansIdents map[string]c16Ident, sec int, pt string, got c16Ident,
	in c16SectionInfo,
) string {
	codecOfferedHere, anyCommon := false, false
	for _, id := range offIdents[sec] {
		if !id.Known || id.Name == "rtx" {
			continue
		}
		if got.Known && id == got {
			codecOfferedHere = true
		}
		for _, aidn := range ansIdents {
			if aidn == id {
				anyCommon = true
			}
		}
	}
	samePTElsewhere, codecElsewhere := false, false
	for k := range off.Media {
		if k == sec {
			continue
		}
		for p, id := range offIdents[k] {
			if got.Known && id == got {
				codecElsewhere = true
				if p == pt {
					samePTElsewhere = true
				}
			}
		}
	}
	switch {
	case codecOfferedHere && in.HasPrefs && in.PTMode == "engine":
		return "answer-pt-not-in-offer-section:codec-preference-pt-kept"
	case in.PreMade && !in.HasPrefs:
		return "answer-codec-not-offered:premade-transceiver-lists-kind-wide-codecs"
	case codecOfferedHere && samePTElsewhere:
		return "answer-pt-not-in-offer-section:same-codec-different-pt-across-sections"
	case codecOfferedHere:
		return "answer-pt-not-in-offer-section:local-pt-kept"
	case in.HasPrefs:
		return "answer-codec-not-offered:codec-preference-not-intersected-with-section"
	case !anyCommon && codecElsewhere:
		// known cause: the kind-wide negotiated list (fed by a usable sibling section) leaks into a section without a common codec
		return "answer-codec-not-offered:section-without-common-codec-accepted"
	case !anyCommon:
		// the listed codec was offered NOWHERE in the offer: a different cause (local codecs, not the negotiated list)
		return "answer-codec-not-offered:section-without-common-codec-accepted:codec-offered-nowhere"
	case codecElsewhere:
		return "answer-codec-not-offered:offered-in-other-section"
	default:
		return "answer-codec-not-offered"
	}
}

// ---------------------------------------------------------------- driver

type c16Answerer struct {
	pc     *PeerConnection
	made   map[*RTPTransceiver]c16Local
	notes  []string
	local  []c16Ident
	engine []c16Codec
}

func c16NewAnswerer(c *c16Case) (*c16Answerer, error) {
	me, err := c16BuildEngine(c.Engine)
	if err != nil {
		return nil, fmt.Errorf("engine: %w", err)
	}
	pc, err := rigNewPC(rigOpts{ME: me, SE: func(se *SettingEngine) { se.DisableMediaEngineMultipleCodecs(c.DisableMulti) }})
	if err != nil {
		return nil, err
	}
	a := &c16Answerer{pc: pc, made: map[*RTPTransceiver]c16Local{}, engine: c.Engine}
	for _, k := range c.Engine {
		a.local = append(a.local, c16LocalIdents(k)...)
	}
	for li, l := range c.Locals {
		var tr *RTPTransceiver
		var terr error
		if l.Via == "track" {
			p, _ := c.Engine[l.Track].params()
			track, nerr := NewTrackLocalStaticSample(p.RTPCodecCapability, fmt.Sprintf("c16track%d", li), "c16stream")
			if nerr != nil {
				return nil, fmt.Errorf("track: %w", nerr)
			}
			sender, aerr := pc.AddTrack(track)
			if aerr != nil {
				a.notes = append(a.notes, "AddTrack: "+c16ErrClass(aerr))

				continue
			}
			for _, cand := range pc.GetTransceivers() {
				if cand.Sender() == sender {
					tr = cand
				}
			}
			if tr == nil {
				continue
			}
			if prev, reused := a.made[tr]; reused { // AddTrack put the track on an earlier pre-created transceiver
				if len(prev.Prefs) > 0 {
					continue
				}
			}
		} else {
			tr, terr = pc.AddTransceiverFromKind(NewRTPCodecType(l.Kind), RTPTransceiverInit{Direction: NewRTPTransceiverDirection(l.Dir)})
		}
		if terr != nil {
			continue // an engine without codecs of the kind cannot have such a transceiver
		}
		if len(l.Prefs) > 0 {
			var prefs []RTPCodecParameters
			for k := range l.Prefs {
				p, rtx := l.pref(c.Engine, k).params()
				if l.PTMode == "zero" {
					p.PayloadType = 0
					rtx = nil // an rtx entry cannot be expressed without payload types
				}
				prefs = append(prefs, p)
				if rtx != nil {
					prefs = append(prefs, *rtx)
				}
			}
			if perr := tr.SetCodecPreferences(prefs); perr != nil {
				a.notes = append(a.notes, "SetCodecPreferences: "+c16ErrClass(perr))
				l.Prefs = nil
			}
		}
		a.made[tr] = l
	}

	return a, nil
}

func (a *c16Answerer) info(mid string) c16SectionInfo {
	for _, tr := range a.pc.GetTransceivers() {
		if tr.Mid() != mid {
			continue
		}
		l, ok := a.made[tr]
		if !ok {
			return c16SectionInfo{Local: a.local}
		}
		in := c16SectionInfo{PreMade: true, HasPrefs: len(l.Prefs) > 0, PTMode: l.PTMode, Local: a.local}
		for k := range l.Prefs {
			in.Pref = append(in.Pref, c16LocalIdents(l.pref(a.engine, k))...)
		}

		return in
	}

	return c16SectionInfo{Local: a.local}
}

func TestVerifC16(t *testing.T) {
	run := kit.Start(t, "C16", "seeded foreign offers (audio/video/application, payload types permuted per description and re-drawn per section, "+
		"RTX incl. dangling apt, unsupported codecs, re-cased names; first 10 cases hand-written) against answerers whose MediaEngine uses pion's default "+
		"numbering, a private numbering or a subset, with 0..3 pre-created transceivers (70% with SetCodecPreferences, engine payload types or 0), "+
		"multi-codec negotiation on/off, 30% with a second extended offer; spelling classes on top: 45% of the engines register some codecs with clock rate / "+
		"channels left 0 (lazy registration) or mono spelled as 1, 35% of the preference lists are spelled on their own, 35% of the offers spell audio channel counts the "+
		"other way (opus without /2, mono with /1), 25% of the pre-created transceivers come from AddTrack. A case counts when CreateAnswer succeeded; it is non-trivial when the answer "+
		"accepts >= 1 audio/video section whose offer section numbers a common codec differently from the answerer's MediaEngine; distinct by offer structure + engine + locals")
	defer run.Finish()
	run.Assume("kit.ParseSDP is a faithful line-level reader; codec identity = (rtpmap name case-folded, clock rate, channels with omitted == 1), exactly the triple of the statement")
	run.Assume("payload types 0/8/9 listed without rtpmap in an audio section denote PCMU/PCMA/G722 (RFC 3551)")
	run.Assume("offers never map one payload type to two codecs (the generator reserves payload types description-wide)")

	n := kit.N(4000, 80000)
	run.Parallel(n, 12, func(i int) {
		r := run.CaseRand(i)
		c := c16Gen(r)
		if i < c16NumDirected {
			c = c16Directed(i)
			run.Count("directed_cases", 1)
		}
		a, err := c16NewAnswerer(c)
		if err != nil {
			run.Inconclusive("harness: " + c16ErrClass(err))

			return
		}
		pc := a.pc
		defer rigClose(pc)
		run.Seen("engine", c.EngineClass)
		for _, nt := range a.notes {
			run.Seen("harness_notes", nt)
		}
		withPrefs := 0
		for _, l := range a.made {
			if len(l.Prefs) > 0 {
				withPrefs++
				run.Seen("preference_pt_mode", l.PTMode)
			}
		}
		run.Seen("locals", fmt.Sprintf("%d made/%d with preferences", len(a.made), withPrefs))
		for _, k := range c.Engine {
			if k.Re {
				run.Seen("registration_spelling", fmt.Sprintf("%s/%d/%d", k.Name, k.ReClock, k.ReCh))
			}
		}
		for _, l := range a.made {
			if l.Via != "" {
				run.Count("premade_transceivers_from_AddTrack", 1)
			}
			for k := range l.Prefs {
				if pk := l.pref(c.Engine, k); len(l.PrefRe) > 0 && pk.Re {
					run.Seen("preference_spelling", fmt.Sprintf("%s/%d/%d", pk.Name, pk.ReClock, pk.ReCh))
				}
			}
		}
		for _, m := range c.Offer.Media {
			for _, k := range m.Codecs {
				name := strings.ToLower(k.Name)
				if m.Kind == "audio" && ((name == "opus" && k.Ch != 2) || (name != "opus" && k.Ch != 0)) {
					run.Seen("offer_channel_spelling", fmt.Sprintf("%s/%d/%d", name, k.Clock, k.Ch))
				}
			}
		}
		for round := 1; round <= c.Rounds; round++ {
			g := c.offerFor(round)
			offerText := g.String()
			if err = pc.SetRemoteDescription(SessionDescription{Type: SDPTypeOffer, SDP: offerText}); err != nil {
				run.Seen("vacuous", fmt.Sprintf("round%d SetRemoteDescription: %s", round, c16ErrClass(err)))

				break
			}
			answer, aerr := pc.CreateAnswer(nil)
			if aerr != nil {
				run.Seen("vacuous", fmt.Sprintf("round%d CreateAnswer: %s", round, c16ErrClass(aerr)))

				break
			}
			run.Count(fmt.Sprintf("answers_checked_round%d", round), 1)
			fs, stats, perr := c16Check(offerText, answer.SDP, a.info)
			if perr != nil {
				run.Violation("unparseable-description", perr.Error(), i, map[string]any{"offer": offerText, "answer": answer.SDP})

				break
			}
			for k, v := range stats {
				run.Count(k, v)
			}
			// non-triviality: an accepted a/v section whose offer numbers a common codec differently from the engine
			nontrivial := false
			samePTAcross := false
			if ansP, e2 := kit.ParseSDP(answer.SDP); e2 == nil {
				accepted := map[string]bool{}
				for _, m := range ansP.Media {
					if mid, ok := m.Mid(); ok && !m.Rejected() {
						accepted[mid] = true
					}
				}
				firstPT := map[string]int{}
				for _, m := range g.Media {
					if m.Kind != "audio" && m.Kind != "video" {
						continue
					}
					for _, k := range m.Codecs {
						key := m.Kind + "/" + strings.ToLower(k.Name) + "/" + k.Fmtp
						if !strings.EqualFold(k.Name, "rtx") {
							if pt, ok := firstPT[key]; ok && pt != k.PT {
								samePTAcross = true
							} else if !ok {
								firstPT[key] = k.PT
							}
						}
						for _, e := range c.Engine {
							if accepted[m.Mid] && e.Kind.String() == m.Kind && strings.EqualFold(e.Name, k.Name) && int(e.Clock) == k.Clock && int(e.PT) != k.PT {
								nontrivial = true
							}
						}
					}
				}
				if i%131 == 0 || len(fs) > 0 {
					run.Sample(map[string]any{"case": i, "round": round, "offer": c16Describe(g), "answer": c16DescribeParsed(ansP),
						"engine": c.engineDesc(), "locals": c.Locals, "findings": len(fs)})
				}
			}
			if samePTAcross {
				run.Count("offers_with_same_codec_different_pt_across_sections", 1)
			}
			desc := fmt.Sprintf("r%d|%s|eng=%s|multi=%v|loc=%v", round, c16Describe(g), c.engineDesc(), !c.DisableMulti, c.Locals)
			run.Case(desc, nontrivial)
			seen := map[string]bool{}
			for _, f := range fs {
				if seen[f.Sig] {
					continue
				}
				seen[f.Sig] = true
				run.Violation(f.Sig, f.What, i, map[string]any{
					"round": round, "offer_sdp": offerText, "answer_sdp": answer.SDP, "engine_class": c.EngineClass, "engine": c.engineDesc(),
					"locals": c.Locals, "multi_codec_disabled": c.DisableMulti, "all_findings": fs,
				})
			}
			if len(fs) > 0 || round == c.Rounds {
				break
			}
			if err = pc.SetLocalDescription(answer); err != nil {
				run.Seen("vacuous", "round1 SetLocalDescription: "+c16ErrClass(err))

				break
			}
		}
	})
}
