package webrtc

import (
	"errors"
	"fmt"
	"os"
	"sort"
	"strings"
	"sync"
	"sync/atomic"
	"testing"
	"time"

	"github.com/pion/datachannel"
	kit "github.com/pion/webrtc/v4/internal/verifkit"
)

// C18 — every stream id a PeerConnection assigns to a data channel is even when the local DTLS role is client and odd
// when it is server (RFC 8832); no assigned id is 65535 or equal to the id of another (not closed) channel on the same
// connection; once set, a channel's id never changes.
//
// The monitor drives connected pion pairs and records, for every DataChannel object on both peers, the sequence of
// distinct consecutive ID() observations (at creation, in OnOpen, continuously from a background sampler while the
// concurrent steps run, after every step and at the end), which side holds the object, how it came to exist
// (auto = CreateDataChannel without id, explicit = negotiated with id, remote = announced in-band by the peer) and the
// DTLS role of that side (from the a=setup of the answer, cross-checked with the white-box role()).

type c18Chan struct {
	dc    *DataChannel
	side  int    // index of the PeerConnection that holds this object (0 offerer, 1 answerer)
	kind  string // auto | explicit | remote
	label string
	ord   int64 // position in the pair's creation order (CreateDataChannel returned / OnDataChannel fired)
	pre   bool  // created before signalling started, i.e. opened later by SCTPTransport.Start in creation order
	mu    sync.Mutex
	seq   []int    // distinct consecutive ID() observations, -1 = nil
	where []string // where each element of seq was first observed
	// detach dimension (c18_detach_test.go)
	clk        *atomic.Int64 // the pair's order clock
	idSeenOrd  int64         // stamped when ID() was first observed non-nil (so: after the id was assigned); under mu
	startOrd   int64         // stamped BEFORE the creating call was made (remote: when OnDataChannel fired)
	detaching  atomic.Bool  // Detach() is called at most once per object
	detachOrd  atomic.Int64 // stamped AFTER Detach() returned; 0 = not detached
	detachBeg  atomic.Int64 // stamped BEFORE Detach() was called
	raw        datachannel.ReadWriteCloser
	detachedAt string // onopen | later
	rawUsed    bool
}

func (c *c18Chan) sample(where string) int {
	id := c.dc.ID()
	v := -1
	if id != nil {
		v = int(*id)
	}
	c.mu.Lock()
	if len(c.seq) == 0 || c.seq[len(c.seq)-1] != v {
		c.seq = append(c.seq, v)
		c.where = append(c.where, where)
	}
	if v >= 0 && c.idSeenOrd == 0 && c.clk != nil {
		c.idSeenOrd = c.clk.Add(1)
	}
	c.mu.Unlock()

	return v
}

func (c *c18Chan) history() ([]int, []string) {
	c.mu.Lock()
	defer c.mu.Unlock()

	return append([]int{}, c.seq...), append([]string{}, c.where...)
}

type c18Pair struct {
	pcs   [2]*PeerConnection
	mu    sync.Mutex
	chans [2][]*c18Chan
	errs  map[string]int
	nLbl  atomic.Int64
	nOrd  atomic.Int64
	live  atomic.Bool // set when signalling starts: channels created from then on are not "pre"
	// detach dimension (c18_detach_test.go)
	plan       c18DetachPlan
	closedIDs  map[int]bool // stream ids the harness closed in a pair with a detach-mode peer
	detachErrs map[string]int
}

func (p *c18Pair) add(c *c18Chan) {
	c.ord = p.nOrd.Add(1)
	if c.startOrd == 0 {
		c.startOrd = c.ord
	}
	p.mu.Lock()
	p.chans[c.side] = append(p.chans[c.side], c)
	p.mu.Unlock()
}

func (p *c18Pair) list(side int) []*c18Chan {
	p.mu.Lock()
	defer p.mu.Unlock()

	return append([]*c18Chan{}, p.chans[side]...)
}

func (p *c18Pair) sampleAll(where string) {
	for side := 0; side < 2; side++ {
		for _, c := range p.list(side) {
			c.sample(where)
		}
	}
}

func (p *c18Pair) noteErr(err error) {
	p.mu.Lock()
	p.errs[c18ErrKey(err)]++
	p.mu.Unlock()
}

func c18ErrKey(err error) string {
	switch {
	case errors.Is(err, ErrMaxDataChannelID):
		return "ErrMaxDataChannelID"
	case errors.Is(err, ErrConnectionClosed):
		return "ErrConnectionClosed"
	default:
		return firstN(err.Error(), 60)
	}
}

// createAuto calls CreateDataChannel without an id (non-negotiated): the PeerConnection has to assign the id.
func (p *c18Pair) createAuto(side int, tag string, init *DataChannelInit) {
	label := fmt.Sprintf("a%d-%s-%d", side, tag, p.nLbl.Add(1))
	pre := !p.live.Load()
	startOrd := p.nOrd.Add(1)
	dc, err := p.pcs[side].CreateDataChannel(label, init)
	if err != nil {
		p.noteErr(err)

		return
	}
	c := &c18Chan{dc: dc, side: side, kind: "auto", label: label, pre: pre, startOrd: startOrd, clk: &p.nOrd}
	c.sample("created")
	p.add(c)
	dc.OnOpen(func() { p.onOpen(c) })
}

// createExplicit creates the application-negotiated channel `id` on BOTH peers (that is what negotiated means).
func (p *c18Pair) createExplicit(id uint16, tag string) {
	for side := 0; side < 2; side++ {
		v, yes := id, true // fresh variables: the PeerConnection keeps the pointer it is given
		label := fmt.Sprintf("x%d-%s-%d", side, tag, id)
		pre := !p.live.Load()
		startOrd := p.nOrd.Add(1)
		dc, err := p.pcs[side].CreateDataChannel(label, &DataChannelInit{ID: &v, Negotiated: &yes})
		if err != nil {
			p.noteErr(err)

			continue
		}
		c := &c18Chan{dc: dc, side: side, kind: "explicit", label: label, pre: pre, startOrd: startOrd, clk: &p.nOrd}
		c.sample("created")
		p.add(c)
		dc.OnOpen(func() { p.onOpen(c) })
	}
}

// c18Inits pre-generates the options of the auto channels (the generator is not goroutine-safe).
func c18Inits(r *kit.Rand, n int) []*DataChannelInit {
	out := make([]*DataChannelInit, n)
	for k := range out {
		switch r.Intn(5) {
		case 0:
			out[k] = nil
		case 1:
			out[k] = &DataChannelInit{}
		case 2:
			f := false
			out[k] = &DataChannelInit{Ordered: &f}
		case 3:
			v := uint16(r.Intn(4)) //nolint:gosec
			out[k] = &DataChannelInit{MaxRetransmits: &v}
		default:
			proto := fmt.Sprintf("p%d", r.Intn(100))
			out[k] = &DataChannelInit{Protocol: &proto}
		}
	}

	return out
}

// spawnAutos starts g goroutines on `side`, each creating len(inits[k]) auto channels once `start` is closed.
func (p *c18Pair) spawnAutos(wg *sync.WaitGroup, start <-chan struct{}, side int, tag string, inits [][]*DataChannelInit, spread bool) {
	for g := range inits {
		wg.Add(1)
		go func(g int) {
			defer wg.Done()
			<-start
			for k, in := range inits[g] {
				p.createAuto(side, fmt.Sprintf("%s.g%d", tag, g), in)
				if spread {
					time.Sleep(time.Duration((g*7+k*3)%5) * time.Millisecond) // spread the calls over the connection set-up
				}
			}
		}(g)
	}
}

type c18Checker struct {
	run      *kit.Run
	idx      int
	p        *c18Pair
	role     [2]string // client | server, from the SDP
	desc     func() string
	reported map[string]bool
	nviol    int
	reuse    map[string]bool
	autoIDs  [2]map[int]bool
}

func (ck *c18Checker) violate(key, sig, what string, detail map[string]any) {
	if ck.reported[key] {
		return
	}
	ck.reported[key] = true
	ck.nviol++
	detail["case"] = ck.desc()
	detail["roles"] = fmt.Sprintf("offerer=%s answerer=%s", ck.role[0], ck.role[1])
	ck.run.Violation(sig, what+" ["+ck.desc()+"]", ck.idx, detail)
}

// check evaluates all oracles on what has been observed so far. `quiescent` says that no create/close is in flight, so
// that ReadyState snapshots are stable: only then the uniqueness oracle (which needs "not closed") is evaluated.
func (ck *c18Checker) check(where string, quiescent bool) { //nolint:gocognit,cyclop
	for side := 0; side < 2; side++ {
		type snap struct {
			c     *c18Chan
			id    int
			state DataChannelState
		}
		var snaps []snap
		for _, c := range ck.p.list(side) {
			id := c.sample(where)
			snaps = append(snaps, snap{c, id, c.dc.ReadyState()})
			seq, at := c.history()
			// write-once: after the first non-nil observation nothing else may be observed
			for k, v := range seq {
				if v >= 0 && k+1 < len(seq) {
					ck.violate(fmt.Sprintf("chg/%d/%s", side, c.label), "id-changed",
						fmt.Sprintf("side %d %s channel %q: ID() observed as %v (at %v)", side, c.kind, c.label, c18Seq(seq), at),
						map[string]any{"side": side, "kind": c.kind, "label": c.label, "observations": c18Seq(seq), "observed_at": at})

					break
				}
			}
			if c.kind != "auto" {
				continue
			}
			for _, v := range seq {
				if v < 0 {
					continue
				}
				ck.autoIDs[side][v] = true
				if v == 65535 {
					ck.violate(fmt.Sprintf("max/%d/%s", side, c.label), "id-65535",
						fmt.Sprintf("side %d: CreateDataChannel(%q) was assigned id 65535", side, c.label),
						map[string]any{"side": side, "label": c.label})
				}
				wantEven := ck.role[side] == "client"
				if ck.role[side] != "" && (v%2 == 0) != wantEven {
					ck.violate(fmt.Sprintf("par/%d/%s", side, c.label), "wrong-parity:role="+ck.role[side],
						fmt.Sprintf("side %d has DTLS role %s but assigned id %d to %q (RFC 8832: client even, server odd)", side, ck.role[side], v, c.label),
						map[string]any{"side": side, "role": ck.role[side], "id": v, "label": c.label})
				}
			}
		}
		if !quiescent {
			continue
		}
		byID := map[int][]snap{}
		for _, s := range snaps {
			if s.id >= 0 {
				byID[s.id] = append(byID[s.id], s)
			}
		}
		for id, group := range byID {
			for a := 0; a < len(group); a++ {
				for b := a + 1; b < len(group); b++ {
					x, y := group[a], group[b]
					if x.c.kind != "auto" && y.c.kind != "auto" {
						continue // both ids chosen outside this PeerConnection: not "assigned"
					}
					key := fmt.Sprintf("dup/%d/%s/%s", side, x.c.label, y.c.label)
					// a stream the harness closed in a pair with a detach-mode peer never reports "closed" (no read loop there)
					if x.state == DataChannelStateClosed || y.state == DataChannelStateClosed || ck.p.isClosedID(id) {
						if !ck.reuse[key] {
							ck.reuse[key] = true
							ck.run.Count("reuse_after_close", 1)
						}

						continue
					}
					kinds := []string{x.c.kind, y.c.kind}
					sort.Strings(kinds)
					// history class of the pair (part of the cause): were both created before signalling started (ids are
					// then handed out later, by SCTPTransport.Start, in creation order), and which of the two is older
					hist := "on-live-connection"
					if x.c.pre && y.c.pre {
						older := x.c
						if y.c.ord < x.c.ord {
							older = y.c
						}
						hist = "both-pre-connect:" + older.kind + "-created-first"
					} else if x.c.pre || y.c.pre {
						hist = "one-pre-connect"
					}
					// detach history class: one of the two had been handed to the application with Detach() (it stays alive on its
					// stream but is no longer in the transport's channel list; stamp taken before the Detach call) before the other
					// one was first seen with the id (stamp taken after the assignment),
					// i.e. the id may have been handed out again after the detach of a holder
					detachNote := ""
					later := x.c // the one of the two that was seen with the id last: it was given an id that was already held
					if y.c.idSeen() > later.idSeen() {
						later = y.c
					}
					for _, h := range group { // any holder of this id on this peer, not only the other one of the two
						if d := h.c.detachBeg.Load(); h.c != later && h.c.detachOrd.Load() > 0 && d < later.idSeen() {
							hist += ":holder-detached-before"
							detachNote = fmt.Sprintf("; %q (same id) had been detached (%s) before %q was first seen with the id, and is still alive",
								h.c.label, h.c.detachWhere(), later.label)

							break
						}
					}
					ck.violate(key, "duplicate-id:"+kinds[0]+"-vs-"+kinds[1]+":"+hist,
						fmt.Sprintf("side %d (%s): id %d is held by %s channel %q (%s) and %s channel %q (%s) at the same time (%s)%s",
							side, ck.role[side], id, x.c.kind, x.c.label, x.state, y.c.kind, y.c.label, y.state, where, detachNote),
						map[string]any{"side": side, "id": id, "a": x.c.label, "a_kind": x.c.kind, "a_state": x.state.String(),
							"b": y.c.label, "b_kind": y.c.kind, "b_state": y.state.String(), "at": where,
							"a_created_pre_connect": x.c.pre, "b_created_pre_connect": y.c.pre, "a_order": x.c.ord, "b_order": y.c.ord,
							"a_detach_order": x.c.detachOrd.Load(), "b_detach_order": y.c.detachOrd.Load(),
							"a_detach_call_order": x.c.detachBeg.Load(), "b_detach_call_order": y.c.detachBeg.Load(),
							"a_create_started_order": x.c.startOrd, "b_create_started_order": y.c.startOrd,
							"a_id_first_seen_order": x.c.idSeen(), "b_id_first_seen_order": y.c.idSeen(),
							"detach_plan": ck.p.plan.String()})
				}
			}
		}
	}
}

var c18Debug = false //nolint:gochecknoglobals

func c18DebugF(f string, a ...any) {
	fh, err := os.OpenFile("/tmp/c18dbg.txt", os.O_APPEND|os.O_CREATE|os.O_WRONLY, 0o644)
	if err == nil {
		fmt.Fprintf(fh, f, a...)
		_ = fh.Close()
	}
}

func c18Seq(seq []int) string {
	var parts []string
	for _, v := range seq {
		if v < 0 {
			parts = append(parts, "nil")
		} else {
			parts = append(parts, fmt.Sprint(v))
		}
	}

	return strings.Join(parts, "→")
}

// settled: every successfully created auto channel has an id and left "connecting", and every in-band channel is
// known on the other peer under the same id.
func (p *c18Pair) settled() bool {
	for side := 0; side < 2; side++ {
		remoteIDs := map[int]bool{}
		for _, c := range p.list(1 - side) {
			if c.kind == "remote" {
				remoteIDs[c.sample("poll")] = true
			}
		}
		for _, c := range p.list(side) {
			if c.kind == "remote" {
				continue
			}
			id := c.sample("poll")
			if id < 0 || c.dc.ReadyState() == DataChannelStateConnecting {
				return false
			}
			if c.kind == "auto" && !remoteIDs[id] {
				return false
			}
		}
	}

	return true
}

func (p *c18Pair) countAssigned() int {
	n := 0
	for side := 0; side < 2; side++ {
		for _, c := range p.list(side) {
			if c.sample("poll") >= 0 {
				n++
			}
		}
	}

	return n
}

// waitStable polls until the number of channels with an id has not changed for 60 ms (bounded by d). Used where the
// allocator is expected to run out of ids, so that "all channels have an id" is not a usable condition.
func (p *c18Pair) waitStable(d time.Duration) {
	deadline := time.Now().Add(d)
	last, since := -1, time.Now()
	for time.Now().Before(deadline) {
		n := p.countAssigned()
		if n != last {
			last, since = n, time.Now()
		} else if time.Since(since) > 60*time.Millisecond {
			return
		}
		time.Sleep(2 * time.Millisecond)
	}
}

func c18RoleFromAnswer(answerSDP string) (answerer string, ok bool) {
	d, err := kit.ParseSDP(answerSDP)
	if err != nil {
		return "", false
	}
	setup, found := d.Attr("setup")
	for _, m := range d.Media {
		if v, has := m.Attr("setup"); has {
			setup, found = v, true
		}
	}
	if !found {
		return "", false
	}
	switch setup {
	case "active":
		return "client", true
	case "passive":
		return "server", true
	default:
		return "", false
	}
}

func c18Other(role string) string {
	if role == "client" {
		return "server"
	}

	return "client"
}

func TestVerifC18(t *testing.T) { //nolint:gocognit,cyclop,maintidx
	run := kit.Start(t, "C18", "seeded pion pairs, answerer's DTLS role alternating client/server (SettingEngine.SetAnsweringDTLSRole); per pair: a generated "+
		"pre-connection program of negotiated explicit ids of both parities (on both peers), single in-band creations and one concurrent step "+
		"(CreateDataChannel without id from 0..8 goroutines per peer) in explicit-first / in-band-first / interleaved order, then in-band creations "+
		"while the connection is being established, and after (explicit ids among the free ones, then both peers concurrently), random closes followed by new creations; every 6th pair "+
		"runs at the end of the id range (used-set pre-filled white-box up to ~65500..65531 + real explicit channels in 65526..65534). ID() of every "+
		"channel object sampled at creation, in OnOpen, by a background sampler and after each step. Detach dimension: in ~36% of the pairs one or both peers run with "+
		"SettingEngine.DetachDataChannels(); channels of such a peer (in-band, negotiated, remote-created) are Detach()ed in OnOpen with a per-peer probability "+
		"(0/35/70/100%) and 0..3 more per round from the application goroutine, the raw handle is written to, and all later creation rounds run against the still "+
		"alive detached channels (closes there via raw handle or DataChannel.Close). A pair is non-trivial when at least two ids were "+
		"auto-assigned on one peer that also held an explicit or remote-created channel; distinct by the generated operation list")
	defer run.Finish()
	sched := kit.NewSched(kit.Seed())
	defer sched.Uninstall()
	sched.Perturb(0.3)
	sched.OnlyPoints(func(name string) bool { return strings.HasPrefix(name, "dc.") })

	n := kit.N(150, 600)
	var maxAssigned atomic.Int64
	run.Parallel(n, 8, func(i int) {
		r := run.CaseRand(i)
		boundary := i%6 == 5
		roleBit := i % 2
		if boundary {
			roleBit = (i / 6) % 2
		}
		answererRole := DTLSRoleClient
		if roleBit == 1 {
			answererRole = DTLSRoleServer
		}
		var ops []string
		op := func(f string, a ...any) { ops = append(ops, fmt.Sprintf(f, a...)) }
		op("answerer=%s boundary=%v", answererRole, boundary)

		p := &c18Pair{errs: map[string]int{}, closedIDs: map[int]bool{}, detachErrs: map[string]int{}}
		// detach dimension: drawn from a generator of its own, so that the rest of the case does not depend on it
		rd := kit.NewRand(kit.Seed()^0xC18DE7AC4, uint64(i)) //nolint:gosec
		p.plan = c18GenDetachPlan(rd)
		if p.plan.any() {
			op("detach=%s", p.plan)
		}
		cfg := Configuration{AlwaysNegotiateDataChannels: true}
		p.pcs[0] = rigMustPC(rigOpts{Cfg: cfg, SE: func(se *SettingEngine) {
			if p.plan.mode[0] {
				se.DetachDataChannels()
			}
		}})
		p.pcs[1] = rigMustPC(rigOpts{Cfg: cfg, SE: func(se *SettingEngine) {
			_ = se.SetAnsweringDTLSRole(answererRole)
			if p.plan.mode[1] {
				se.DetachDataChannels()
			}
		}})
		defer rigClose(p.pcs[0], p.pcs[1])
		for side := 0; side < 2; side++ {
			side := side
			p.pcs[side].OnDataChannel(func(dc *DataChannel) {
				c := &c18Chan{dc: dc, side: side, kind: "remote", label: fmt.Sprintf("r%d-%s", side, dc.Label()), clk: &p.nOrd}
				c.sample("ondatachannel")
				p.add(c)
				dc.OnOpen(func() { p.onOpen(c) })
			})
		}
		ck := &c18Checker{run: run, idx: i, p: p, reported: map[string]bool{}, reuse: map[string]bool{},
			desc: func() string { return strings.Join(ops, "; ") }}
		ck.autoIDs[0], ck.autoIDs[1] = map[int]bool{}, map[int]bool{}

		// background sampler: catches an id that is visible only transiently
		stopBG := make(chan struct{})
		var bg sync.WaitGroup
		bg.Add(1)
		go func() {
			defer bg.Done()
			for {
				select {
				case <-stopBG:
					return
				default:
				}
				p.sampleAll("bg")
				time.Sleep(300 * time.Microsecond)
			}
		}()
		defer func() { close(stopBG); bg.Wait() }()

		// ---- boundary set-up: pretend almost the whole id space is taken
		if boundary {
			upTo := r.Range(65500, 65531)
			holes := map[int]bool{}
			for k := r.Intn(4); k > 0; k-- {
				holes[r.Range(60000, 65499)] = true
			}
			for side := 0; side < 2; side++ {
				st := p.pcs[side].sctpTransport
				st.lock.Lock()
				for id := 0; id < upTo; id++ {
					if !holes[id] {
						st.dataChannelIDsUsed[uint16(id)] = struct{}{} //nolint:gosec
					}
				}
				st.lock.Unlock()
			}
			op("prefill<%d holes=%d", upTo, len(holes))
		}

		// ---- phase 0: before the connection exists: no id has been assigned yet (every in-band channel shows ID()==nil), so
		// the application may claim ANY id for a negotiated channel. The phase is a generated program over three kinds of
		// step: x<id> (negotiated channel <id> on both peers), a<side> (one in-band channel on <side>) and C (the concurrent
		// step: 0..8 goroutines per peer creating in-band channels). The order is part of the case: explicit ids claimed
		// BEFORE the in-band channels exist (the allocator sees them reserved from the start), AFTER them (the in-band
		// channels are older in the transport's list, are opened first by SCTPTransport.Start and must still not be given
		// an id that was claimed later) or interleaved.
		var explicit []uint16
		if boundary {
			for id := 65526; id <= 65534; id++ {
				if r.Chance(0.35) {
					explicit = append(explicit, uint16(id)) //nolint:gosec
				}
			}
		} else {
			for id := 0; id < 12; id++ {
				if r.Chance(0.25) {
					explicit = append(explicit, uint16(id)) //nolint:gosec
				}
			}
		}
		kit.Shuffle(r, explicit)
		nPreExplicit := r.Intn(len(explicit) + 1)
		type preStep struct {
			kind string // x | a | C
			id   uint16
			side int
			init *DataChannelInit
		}
		var prog []preStep
		for _, id := range explicit[:nPreExplicit] {
			prog = append(prog, preStep{kind: "x", id: id})
		}
		seqInits := c18Inits(r, r.Intn(7))
		var seqAutos []preStep
		for _, in := range seqInits {
			seqAutos = append(seqAutos, preStep{kind: "a", side: r.Intn(2), init: in})
		}
		conc := preStep{kind: "C"}
		orderMode := []string{"explicit-first", "inband-first", "interleaved", "interleaved"}[r.Intn(4)]
		switch orderMode {
		case "explicit-first":
			prog = append(append(prog, conc), seqAutos...)
		case "inband-first":
			prog = append(append([]preStep{conc}, seqAutos...), prog...)
		default:
			prog = append(prog, seqAutos...)
			kit.Shuffle(r, prog)
			at := r.Intn(len(prog) + 1)
			prog = append(prog[:at], append([]preStep{conc}, prog[at:]...)...)
		}
		run.Seen("pre_order_mode", orderMode)

		genInits := func(tag string) [2][][]*DataChannelInit {
			var out [2][][]*DataChannelInit
			for side := 0; side < 2; side++ {
				g := r.Range(0, 8)
				if g > 0 && r.Chance(0.3) {
					g = 8
				}
				for k := 0; k < g; k++ {
					out[side] = append(out[side], c18Inits(r, r.Range(1, 4)))
				}
				tot := 0
				for _, l := range out[side] {
					tot += len(l)
				}
				op("%s-auto[%d]=%dg/%dch", tag, side, g, tot)
				run.Seen("goroutines_per_peer", fmt.Sprint(g))
			}

			return out
		}
		step := func(tag string, inits [2][][]*DataChannelInit, spread bool) (*sync.WaitGroup, chan struct{}) {
			var wg sync.WaitGroup
			start := make(chan struct{})
			for side := 0; side < 2; side++ {
				p.spawnAutos(&wg, start, side, tag, inits[side], spread)
			}

			return &wg, start
		}

		pre := genInits("pre")
		var wg *sync.WaitGroup
		var start chan struct{}
		var progDesc []string
		for _, st := range prog {
			switch st.kind {
			case "x":
				p.createExplicit(st.id, "pre")
				progDesc = append(progDesc, fmt.Sprintf("x%d", st.id))
			case "a":
				p.createAuto(st.side, "pre.seq", st.init)
				progDesc = append(progDesc, fmt.Sprintf("a%d", st.side))
			default:
				wg, start = step("pre", pre, false)
				close(start)
				wg.Wait()
				progDesc = append(progDesc, "C")
			}
		}
		op("pre-order=%s pre-program=[%s]", orderMode, strings.Join(progDesc, " "))
		ck.check("after-pre", false)

		// ---- phase 1: creations racing with the connection set-up (SCTP start snapshots the channel list)
		during := genInits("during")
		wg, start = step("during", during, true)
		p.live.Store(true)
		close(start)
		_, answer, err := rigExchange(p.pcs[0], p.pcs[1], nil, nil)
		if err != nil {
			wg.Wait()
			run.Inconclusive("exchange-failed: " + firstN(err.Error(), 60))

			return
		}
		if !rigWaitConnected(15*time.Second, p.pcs[0], p.pcs[1]) {
			wg.Wait()
			run.Inconclusive("connect-watchdog")

			return
		}
		wg.Wait()
		ansRole, ok := c18RoleFromAnswer(answer.SDP)
		if !ok {
			run.Inconclusive("no-setup-attribute-in-answer")

			return
		}
		ck.role = [2]string{c18Other(ansRole), ansRole}
		for side := 0; side < 2; side++ {
			wb := "server"
			if p.pcs[side].dtlsTransport.role() == DTLSRoleClient {
				wb = "client"
			}
			if wb != ck.role[side] {
				run.Count("role_crosscheck_mismatch", 1)
				run.Inconclusive("sdp-role-differs-from-whitebox-role")

				return
			}
		}
		run.Seen("roles", "offerer="+ck.role[0]+",answerer="+ck.role[1])

		waitSettle := func(where string) bool {
			// SCTPTransport.Start (which opens the channels created before/while connecting) runs on the operations queue:
			// once both queues are drained and all CreateDataChannel calls have returned, no id allocation is in flight.
			rigDrain(p.pcs[0])
			rigDrain(p.pcs[1])
			// Ids are write-once, so two live channels that share an id now will share it forever: judge uniqueness before
			// waiting for the remote announcements (a channel that shares its stream with another one may never be announced,
			// which would otherwise end in the settle watchdog and an inconclusive case instead of the witness).
			ck.check(where+"-drained", true)
			if ck.nviol > 0 {
				return false
			}
			if boundary {
				p.waitStable(3 * time.Second)

				return true
			}
			if !kit.Eventually(15*time.Second, p.settled) {
				ck.check(where+"(unsettled)", false)
				run.Inconclusive("settle-watchdog:" + where)
				run.Seen("settle_watchdog_detach_plan", p.plan.String())
				if c18Debug {
					for side := 0; side < 2; side++ {
						for _, c := range p.list(side) {
							c18DebugF("C18DEBUG unsettled case %d plan %s side %d %s %q id %d state %s det %d closed %v\n", i, p.plan, side, c.kind, c.label, c.sample("poll"), c.dc.ReadyState(), c.detachOrd.Load(), p.isClosedID(c.sample("poll")))
						}
					}
				}

				return false
			}

			return true
		}
		if !waitSettle("after-connect") {
			return
		}
		ck.check("after-connect", true)

		// ---- phases 2..: on the live connection
		usedIDs := func() map[int]bool {
			u := map[int]bool{}
			for side := 0; side < 2; side++ {
				for _, c := range p.list(side) {
					if id := c.sample("poll"); id >= 0 {
						u[id] = true
					}
				}
			}

			return u
		}
		rounds := r.Range(1, 3)
		rest := explicit[nPreExplicit:]
		for round := 0; round < rounds; round++ {
			tag := fmt.Sprintf("post%d", round)
			// explicit ids first: the rest of the planned ones plus some of the very next free numbers of either parity
			var now []uint16
			used := usedIDs()
			if round == 0 {
				for _, id := range rest {
					if !used[int(id)] {
						now = append(now, id)
					}
				}
			}
			if !boundary {
				free := []int{}
				for id := 0; len(free) < 6; id++ {
					if !used[id] {
						free = append(free, id)
					}
				}
				for _, id := range free {
					if r.Chance(0.3) {
						now = append(now, uint16(id)) //nolint:gosec
					}
				}
			}
			seen := map[uint16]bool{}
			for _, id := range now {
				if !seen[id] {
					seen[id] = true
					p.createExplicit(id, tag)
				}
			}
			op("%s-explicit=%v", tag, now)
			post := genInits(tag)
			wg, start = step(tag, post, false)
			close(start)
			wg.Wait()
			ck.check(tag+"-created", false)
			if !waitSettle(tag) {
				return
			}
			ck.check(tag+"-settled", true)
			if p.plan.any() { // more channels handed to the application, from its own goroutine this time
				op("%s-detach=%v", tag, p.detachLater(rd))
				wrote, failed := p.useDetached()
				run.Count("writes_on_detached_raw_handles", wrote)
				run.Count("writes_on_detached_raw_handles_failed", failed)
				ck.check(tag+"-detached", true)
			}

			// random closes, then the next round creates again
			if round+1 < rounds || r.Chance(0.5) {
				var open []*c18Chan
				for side := 0; side < 2; side++ {
					for _, c := range p.list(side) {
						if c.dc.ReadyState() == DataChannelStateOpen && !p.isClosedID(c.sample("poll")) {
							open = append(open, c)
						}
					}
				}
				kit.Shuffle(r, open)
				k := r.Intn(len(open)/2 + 1)
				var closedIDs []int
				picked := map[int]bool{}
				for _, c := range open[:k] {
					// one Close per channel: closing both ends at once runs into the closed→closing race that C20 reports
					if id := c.sample("close"); !picked[id] {
						picked[id] = true
						if p.plan.any() {
							p.closeInDetachPair(c, id, rd.Bool())
						} else {
							_ = c.dc.Close()
						}
						closedIDs = append(closedIDs, id)
					}
				}
				k = len(closedIDs)
				sort.Ints(closedIDs)
				op("%s-close=%v", tag, closedIDs)
				run.Count("closes", k)
				if p.plan.any() {
					// no read loop on a detach-mode peer: the ends do not reach "closed" by themselves, nothing to wait for
					run.Count("closes_in_detach_pairs", k)
					ck.check(tag+"-closed", true)

					continue
				}
				// wait (watchdog) until every channel object with one of those ids is closed on both peers
				want := map[int]bool{}
				for _, id := range closedIDs {
					want[id] = true
				}
				done := kit.Eventually(5*time.Second, func() bool {
					for side := 0; side < 2; side++ {
						for _, c := range p.list(side) {
							if want[c.sample("poll")] && c.dc.ReadyState() != DataChannelStateClosed {
								return false
							}
						}
					}

					return true
				})
				if !done {
					run.Count("close_not_completed_in_time", 1)
					if c18Debug {
						for side := 0; side < 2; side++ {
							for _, c := range p.list(side) {
								if want[c.sample("poll")] && c.dc.ReadyState() != DataChannelStateClosed {
									fmt.Printf("C18DEBUG case %d side %d %s %q id %d state %s\n", i, side, c.kind, c.label, c.sample("poll"), c.dc.ReadyState())
								}
							}
						}
					}
				}
				ck.check(tag+"-closed", done)
			}
		}

		// extra round after the closes: are the ids of closed channels handed out again?
		final := genInits("final")
		wg, start = step("final", final, false)
		close(start)
		wg.Wait()
		if !waitSettle("final") {
			return
		}
		ck.check("end", true)

		if boundary { // outside the statement (the application picks this id, the PeerConnection does not assign it): recorded only
			v, yes := uint16(65535), true
			if dc, err := p.pcs[0].CreateDataChannel("explicit-65535", &DataChannelInit{ID: &v, Negotiated: &yes}); err == nil {
				run.Count("model_divergence_explicit_id_65535_accepted", 1)
				_ = dc.Close()
			} else {
				run.Count("explicit_id_65535_rejected", 1)
			}
		}

		// ---- evidence
		nontrivial := false
		total := 0
		ck.detachEvidence()
		for side := 0; side < 2; side++ {
			// pre-connection order classes actually exercised on this peer: a negotiated id claimed while older in-band
			// channels were still waiting for their id, and whether the allocator then really had to step over it
			// (an older in-band channel ended up with a higher id of the same parity).
			list := p.list(side)
			for _, x := range list {
				xid := x.sample("end")
				if x.kind != "explicit" || !x.pre || xid < 0 {
					continue
				}
				older, stepped := 0, false
				for _, a := range list {
					if a.kind != "auto" || !a.pre || a.ord > x.ord {
						continue
					}
					older++
					if aid := a.sample("end"); aid > xid && aid%2 == xid%2 {
						stepped = true
					}
				}
				switch {
				case older == 0:
					run.Count("pre_explicit_claimed_before_any_inband", 1)
				case stepped:
					run.Count("pre_explicit_claimed_after_inband", 1)
					run.Count("pre_explicit_claimed_after_inband_and_stepped_over", 1)
				default:
					run.Count("pre_explicit_claimed_after_inband", 1)
				}
			}
			others := 0
			for _, c := range p.list(side) {
				if c.kind != "auto" && c.sample("end") >= 0 {
					others++
				}
			}
			if len(ck.autoIDs[side]) >= 2 && others >= 1 {
				nontrivial = true
			}
			total += len(ck.autoIDs[side])
			run.Count("auto_ids_assigned", len(ck.autoIDs[side]))
			run.Count("other_channels_with_id", others)
			for id := range ck.autoIDs[side] {
				if id >= 65500 {
					run.Seen("end_of_range_ids_assigned", fmt.Sprintf("%s:%d", ck.role[side], id))
				}
			}
		}
		for {
			cur := maxAssigned.Load()
			if int64(total) <= cur || maxAssigned.CompareAndSwap(cur, int64(total)) {
				break
			}
		}
		p.mu.Lock()
		for k, v := range p.errs {
			for ; v > 0; v-- {
				run.Seen("create_errors", k)
			}
		}
		p.mu.Unlock()
		run.Case(ck.desc(), nontrivial)
		if i < 3 || (boundary && i < 12) {
			ids := [2][]int{}
			for side := 0; side < 2; side++ {
				for id := range ck.autoIDs[side] {
					ids[side] = append(ids[side], id)
				}
				sort.Ints(ids[side])
			}
			run.Sample(map[string]any{"ops": ck.desc(), "roles": fmt.Sprintf("offerer=%s answerer=%s", ck.role[0], ck.role[1]),
				"offerer_assigned": fmt.Sprint(ids[0]), "answerer_assigned": fmt.Sprint(ids[1])})
		}
	})
	run.Set("max_auto_ids_in_one_pair", maxAssigned.Load())
	run.Set("hook_passes", sched.AllPasses())
	// scripted part (c18_script_test.go): two overlapping opens of one channel, serial because the yield point is global
	sched.Perturb(0)
	c18Scripted(run, sched, n, kit.N(10, 100))

}
