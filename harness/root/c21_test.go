package webrtc

import (
	"errors"
	"fmt"
	"runtime"
	"strings"
	"sync"
	"sync/atomic"
	"testing"
	"time"

	"github.com/pion/rtp"
	kit "github.com/pion/webrtc/v4/internal/verifkit"
	"github.com/pion/webrtc/v4/pkg/rtcerr"
)

// C21 — Close is idempotent, concurrency-safe and final.
// Workload: 1–4 concurrent Close/GracefulClose calls (barrier start) on one or both peers at five points of connection
// setup, yield points perturbed; afterwards every negotiation-changing call. Oracles: all closers return; signaling and
// connection state are closed and stay closed; mutating calls return *rtcerr.InvalidStateError; the recorded
// OnConnectionStateChange sequence has nothing after the first closed; after GracefulClose returned on both peers no
// goroutine running pion code is left (bounded settle).

type c21Rec struct {
	mu   sync.Mutex
	seen []PeerConnectionState
	slow *kit.Rand // when set: a handler invocation for a non-closed state may be descheduled at entry
}

func (r *c21Rec) handler(s PeerConnectionState) {
	// A handler runs on its own goroutine; being descheduled right at its entry is a legal schedule. It is modelled
	// here by a short seeded sleep before the handler "reports" (records) the state.
	if s != PeerConnectionStateClosed {
		r.mu.Lock()
		var d time.Duration
		if r.slow != nil && r.slow.Chance(0.5) {
			d = time.Duration(r.slow.Intn(3000)) * time.Microsecond
		}
		r.mu.Unlock()
		time.Sleep(d)
	}
	r.mu.Lock()
	r.seen = append(r.seen, s)
	r.mu.Unlock()
}

func (r *c21Rec) snapshot() []PeerConnectionState {
	r.mu.Lock()
	defer r.mu.Unlock()

	return append([]PeerConnectionState{}, r.seen...)
}

// c21Gate makes the connection's ICE-state handler (user code running on a goroutine the connection started) block
// from the moment the closers start until the gate opens: a GracefulClose that returns while such an invocation is
// still in flight has returned although "a goroutine started by the connection is still running".
type c21Gate struct {
	closing  atomic.Bool
	inflight atomic.Int32
	blocked  atomic.Int32
	open     chan struct{}
}

func (g *c21Gate) handler(ICEConnectionState) {
	if !g.closing.Load() {
		return
	}
	g.inflight.Add(1)
	g.blocked.Add(1)
	<-g.open
	g.inflight.Add(-1)
}

// c21PionGoroutines returns the stacks of goroutines that are running pion code and do not belong to the harness.
func c21PionGoroutines() []string {
	buf := make([]byte, 8<<20)
	n := runtime.Stack(buf, true)
	var out []string
	for _, g := range strings.Split(string(buf[:n]), "\n\n") {
		if !strings.Contains(g, "github.com/pion/") {
			continue
		}
		if strings.Contains(g, "vf_c21_test.go") || strings.Contains(g, "TestVerifC21") || strings.Contains(g, "internal/verifkit") {
			continue
		}
		out = append(out, g)
	}

	return out
}

func c21TopFrame(stack string) string {
	lines := strings.Split(stack, "\n")
	for _, ln := range lines[1:] {
		if strings.HasPrefix(ln, "github.com/pion/") {
			if i := strings.Index(ln, "("); i > 0 {
				return ln[:i]
			}

			return ln
		}
	}
	if len(lines) > 1 {
		return lines[1]
	}

	return "?"
}

func TestVerifC21(t *testing.T) { //nolint:cyclop,gocognit,maintidx
	run := kit.Start(t, "C21", "close point {before-sdp, after-setlocal, during-ice, connected-idle, during-transfer} × 1–4 concurrent closers drawn from "+
		"{Close, GracefulClose} on one or both peers (barrier start, seeded yields, handler goroutines descheduled at entry) followed by every mutating call; "+
		"non-trivial = ≥2 closers or a close during ice/transfer; distinct by (point, closer mix, observed handler sequence)")
	defer run.Finish()
	sched := kit.NewSched(kit.Seed())
	defer sched.Uninstall()
	points := []string{"before-sdp", "after-setlocal", "during-ice", "connected-idle", "during-transfer"}
	mixes := [][]string{
		{"Close"}, {"GracefulClose"}, {"Close", "Close"}, {"Close", "GracefulClose"}, {"GracefulClose", "GracefulClose"},
		{"Close", "GracefulClose", "Close"}, {"GracefulClose", "Close", "GracefulClose", "Close"}, {"Close", "Close", "Close", "Close"},
	}
	seedsPer := kit.N(3, 40)
	type cse struct {
		point string
		mix   []string
		rep   int
	}
	var cases []cse
	for rep := 0; rep < seedsPer; rep++ {
		for _, p := range points {
			for _, m := range mixes {
				cases = append(cases, cse{p, m, rep})
			}
		}
	}
	run.Set("cases_enumerated", len(cases))
	const wd = 20 * time.Second
	baseline := len(c21PionGoroutines())
	run.Set("pion_goroutines_before_first_case", baseline)

	for i, c := range cases {
		if !run.Want(i) {
			continue
		}
		r := run.CaseRand(i)
		recA, recB := &c21Rec{slow: kit.NewRand(kit.Seed(), uint64(i)*2+1)}, &c21Rec{slow: kit.NewRand(kit.Seed(), uint64(i)*2+2)}
		a, b := rigMustPC(rigOpts{Interceptors: r.Bool()}), rigMustPC(rigOpts{Interceptors: r.Bool()})
		a.OnConnectionStateChange(recA.handler)
		b.OnConnectionStateChange(recB.handler)
		gateA, gateB := &c21Gate{open: make(chan struct{})}, &c21Gate{open: make(chan struct{})}
		useGate := c.rep%2 == 0
		if useGate {
			a.OnICEConnectionStateChange(gateA.handler)
			b.OnICEConnectionStateChange(gateB.handler)
		}
		gateOf := map[*PeerConnection]*c21Gate{a: gateA, b: gateB}
		var gateViol atomic.Int32
		track, err := NewTrackLocalStaticRTP(RTPCodecCapability{MimeType: MimeTypeVP8}, "v", "s")
		if err != nil {
			t.Fatal(err)
		}
		sender, err := a.AddTrack(track)
		if err != nil {
			t.Fatal(err)
		}
		dc, err := a.CreateDataChannel("c21", nil)
		if err != nil {
			t.Fatal(err)
		}
		label := fmt.Sprintf("%s|%s", c.point, strings.Join(c.mix, "+"))
		setupOK := true
		stopTransfer := make(chan struct{})
		var transfer sync.WaitGroup
		switch c.point {
		case "before-sdp":
		case "after-setlocal":
			if _, err = rigOffer(a, false); err != nil {
				setupOK = false
			}
		default:
			offer, e1 := rigOffer(a, true)
			if e1 != nil {
				setupOK = false

				break
			}
			answer, e2 := rigAnswer(b, offer, true)
			if e2 != nil {
				setupOK = false

				break
			}
			if e3 := a.SetRemoteDescription(answer); e3 != nil {
				setupOK = false

				break
			}
			if c.point == "during-ice" {
				time.Sleep(time.Duration(r.Intn(8000)) * time.Microsecond)

				break
			}
			if !rigWaitConnected(wd, a, b) {
				setupOK = false

				break
			}
			if c.point == "during-transfer" {
				transfer.Add(1)
				go func() {
					defer transfer.Done()
					seq := uint16(0)
					for {
						select {
						case <-stopTransfer:
							return
						default:
						}
						_ = track.WriteRTP(&rtp.Packet{Header: rtp.Header{Version: 2, SequenceNumber: seq, Timestamp: uint32(seq) * 3000}, Payload: []byte{1, 2, 3, 4}})
						_ = dc.Send([]byte("x"))
						seq++
						time.Sleep(200 * time.Microsecond)
					}
				}()
				time.Sleep(3 * time.Millisecond)
			}
		}
		if !setupOK {
			run.Inconclusive("setup:" + c.point)
			close(stopTransfer)
			transfer.Wait()
			_ = a.GracefulClose()
			_ = b.GracefulClose()

			continue
		}
		// closers: barrier start; even indices hit peer a, odd ones peer b when the mix has more than two closers
		sched.Perturb(0.4)
		start := make(chan struct{})
		var wg sync.WaitGroup
		bothPeers := len(c.mix) > 2 || c.rep%2 == 1
		closedB := false
		for k, kind := range c.mix {
			pc := a
			if bothPeers && k%2 == 1 {
				pc = b
				closedB = true
			}
			wg.Add(1)
			go func(pc *PeerConnection, kind string) {
				defer wg.Done()
				<-start
				if kind == "Close" {
					_ = pc.Close()
				} else {
					_ = pc.GracefulClose()
					if gateOf[pc].inflight.Load() > 0 {
						gateViol.Add(1)
					}
				}
			}(pc, kind)
		}
		gateA.closing.Store(true)
		gateB.closing.Store(true)
		go func() { // the blocked handler invocations are let go 30 ms after the closers started
			time.Sleep(30 * time.Millisecond)
			close(gateA.open)
			close(gateB.open)
		}()
		close(start)
		returned := make(chan struct{})
		go func() { wg.Wait(); close(returned) }()
		select {
		case <-returned:
		case <-time.After(wd):
			buf := make([]byte, 1<<20)
			n := runtime.Stack(buf, true)
			run.Inconclusive("closers-did-not-return:" + label)
			run.Set("last_blocked_dump", firstN(string(buf[:n]), 4000))
			close(stopTransfer)
			sched.Perturb(0)

			continue
		}
		sched.Perturb(0)
		close(stopTransfer)
		transfer.Wait()
		detail := map[string]any{"case": label, "rep": c.rep}
		viol := func(sig, what string) { run.Violation(sig, label+": "+what, i, detail) }

		if n := gateViol.Load(); n > 0 {
			viol("gracefulclose-returned-while-ice-handler-running:"+c.point,
				fmt.Sprintf("%d GracefulClose call(s) returned while an OnICEConnectionStateChange invocation (a goroutine started by the connection) was still in flight", n))
		}
		run.Count("ice_handler_invocations_blocked_during_close", int(gateA.blocked.Load()+gateB.blocked.Load()))
		// final states
		if s := a.SignalingState(); s != SignalingStateClosed {
			viol("signaling-not-closed", "SignalingState is "+s.String())
		}
		if s := a.ConnectionState(); s != PeerConnectionStateClosed {
			viol("connection-state-not-closed", "ConnectionState is "+s.String()+" right after Close returned")
		}
		// mutating calls
		var ise *rtcerr.InvalidStateError
		calls := map[string]error{}
		_, calls["CreateOffer"] = a.CreateOffer(nil)
		_, calls["CreateAnswer"] = a.CreateAnswer(nil)
		calls["SetLocalDescription"] = a.SetLocalDescription(SessionDescription{Type: SDPTypeOffer, SDP: "v=0\r\n"})
		calls["SetRemoteDescription"] = a.SetRemoteDescription(genRandomOffer(r, genOpts{MaxSections: 2}).Desc(SDPTypeOffer))
		_, calls["AddTrack"] = a.AddTrack(track)
		calls["RemoveTrack"] = a.RemoveTrack(sender)
		_, calls["AddTransceiverFromKind"] = a.AddTransceiverFromKind(RTPCodecTypeAudio)
		_, calls["AddTransceiverFromTrack"] = a.AddTransceiverFromTrack(track)
		_, calls["CreateDataChannel"] = a.CreateDataChannel("late", nil)
		calls["SetConfiguration"] = a.SetConfiguration(a.GetConfiguration())
		for name, e := range calls {
			run.Count("mutating_calls_after_close", 1)
			if e == nil || !errors.As(e, &ise) {
				viol("no-invalid-state-error:"+name, fmt.Sprintf("%s after Close returned %v, want *rtcerr.InvalidStateError", name, e))
			}
		}
		// make both peers gracefully closed (idempotent by the property) so the goroutine census is meaningful
		endClosers := make(chan struct{})
		go func() {
			_ = a.GracefulClose()
			if gateA.inflight.Load() > 0 {
				gateViol.Add(100)
			}
			_ = b.GracefulClose()
			if gateB.inflight.Load() > 0 {
				gateViol.Add(100)
			}
			close(endClosers)
		}()
		select {
		case <-endClosers:
		case <-time.After(wd):
			run.Inconclusive("final-gracefulclose-did-not-return:" + label)

			continue
		}
		if n := gateViol.Load(); n >= 100 {
			viol("gracefulclose-returned-while-ice-handler-running:after-close:"+c.point,
				"a GracefulClose issued after the closers had returned came back while an OnICEConnectionStateChange invocation was still in flight")
		}
		// state stays closed; handler sequence has nothing after the first closed
		time.Sleep(6 * time.Millisecond)
		for name, pc := range map[string]*PeerConnection{"a": a, "b": b} {
			if name == "b" && !closedB && c.point == "before-sdp" {
				continue
			}
			if s := pc.ConnectionState(); s != PeerConnectionStateClosed {
				viol("connection-state-not-final", fmt.Sprintf("peer %s: ConnectionState is %s after close completed (late store)", name, s))
			}
		}
		for name, rec := range map[string]*c21Rec{"a": recA, "b": recB} {
			seq := rec.snapshot()
			closedAt := -1
			for k, s := range seq {
				if s == PeerConnectionStateClosed && closedAt < 0 {
					closedAt = k
				}
			}
			run.Seen("handler_sequences", fmt.Sprint(seq))
			if closedAt >= 0 && closedAt != len(seq)-1 {
				viol("handler-reports-after-closed", fmt.Sprintf("peer %s: OnConnectionStateChange reported %v — states after the first closed", name, seq))
			}
			detail["handler_"+name] = fmt.Sprint(seq)
		}
		// goroutine census with bounded settle
		var left []string
		for round := 0; round < 200; round++ {
			left = c21PionGoroutines()
			if len(left) <= baseline {
				break
			}
			time.Sleep(10 * time.Millisecond)
		}
		if len(left) > baseline {
			tops := map[string]int{}
			for _, g := range left {
				tops[c21TopFrame(g)]++
			}
			detail["leaked"] = tops
			detail["first_stack"] = firstN(left[0], 1500)
			var names []string
			for k := range tops {
				names = append(names, k)
			}
			viol("goroutine-left-after-gracefulclose:"+firstN(strings.Join(names, ","), 80),
				fmt.Sprintf("%d goroutine(s) running pion code 2 s after GracefulClose returned on both peers: %v", len(left)-baseline, tops))
			baseline = len(left) // do not report the same leak for every following case
		}
		run.Case(label+"|"+fmt.Sprint(recA.snapshot()), len(c.mix) >= 2 || c.point == "during-ice" || c.point == "during-transfer")
		run.Seen("close_points", c.point)
		run.Count("closers", len(c.mix))
		if i%17 == 0 {
			run.Sample(map[string]any{"case": label, "handler_a": fmt.Sprint(recA.snapshot()), "handler_b": fmt.Sprint(recB.snapshot())})
		}
	}
	run.Set("hook_passes", sched.AllPasses())
}
