package webrtc

import (
	"fmt"
	"hash/fnv"
	"sort"

	kit "github.com/pion/webrtc/v4/internal/verifkit"
)

// Detach dimension of C18. With SettingEngine.DetachDataChannels() a channel can be Detach()ed once it is open: the
// PeerConnection hands the raw stream to the application and forgets the DataChannel object (it is removed from the
// transport's channel list), but the channel is still alive on its SCTP stream and still holds its id. The statement
// quantifies over all channels "on the same connection", so ids assigned AFTER a detach must still avoid the ids of the
// detached channels. The class generated here: per pair each peer independently runs in detach mode or not; in detach
// mode every channel of that peer (in-band, negotiated, remote-created) is detached from its OnOpen handler with a
// per-peer probability, further open channels are detached from the application goroutine between the rounds, the raw
// handle is written to (the channel is in use), and all later creation rounds run against that history.

// c18DetachPlan is the detach configuration of one pair: a pure function of (VERIF_SEED, case index).
type c18DetachPlan struct {
	mode [2]bool // SettingEngine.DetachDataChannels() on offerer / answerer
	pct  [2]int  // probability (percent) that a channel of that peer is detached in its OnOpen handler
	salt uint64
}

func c18GenDetachPlan(rd *kit.Rand) c18DetachPlan {
	var pl c18DetachPlan
	pl.salt = rd.Uint64()
	if !rd.Chance(0.36) {
		return pl
	}
	switch rd.Intn(4) {
	case 0:
		pl.mode[0] = true
	case 1:
		pl.mode[1] = true
	default:
		pl.mode[0], pl.mode[1] = true, true
	}
	for side := 0; side < 2; side++ {
		if pl.mode[side] {
			pl.pct[side] = []int{0, 35, 70, 100, 100}[rd.Intn(5)]
		}
	}

	return pl
}

func (pl c18DetachPlan) any() bool { return pl.mode[0] || pl.mode[1] }

func (pl c18DetachPlan) String() string {
	part := func(side int) string {
		if !pl.mode[side] {
			return "off"
		}

		return fmt.Sprintf("onopen%d%%", pl.pct[side])
	}

	return part(0) + "," + part(1)
}

// wantsOnOpenDetach decides per channel (by label, so independent of goroutine scheduling of the generator).
func (pl c18DetachPlan) wantsOnOpenDetach(c *c18Chan) bool {
	if !pl.mode[c.side] {
		return false
	}
	h := fnv.New64a()
	_, _ = h.Write([]byte(c.label))
	_, _ = h.Write([]byte{byte(pl.salt), byte(pl.salt >> 8), byte(pl.salt >> 16), byte(pl.salt >> 24)})

	return int(h.Sum64()%100) < pl.pct[c.side]
}

// detach calls Detach() on the channel (once per object) and uses the raw handle, as an application in detach mode does.
func (p *c18Pair) detach(c *c18Chan, where string) bool {
	if !c.detaching.CompareAndSwap(false, true) {
		return false
	}
	c.detachBeg.Store(p.nOrd.Add(1))
	raw, err := c.dc.Detach()
	if err != nil {
		p.mu.Lock()
		p.detachErrs[where+":"+firstN(err.Error(), 50)]++
		p.mu.Unlock()
		c.detaching.Store(false)

		return false
	}
	c.mu.Lock()
	c.raw = raw
	c.detachedAt = where
	c.mu.Unlock()
	c.detachOrd.Store(p.nOrd.Add(1)) // stamped after Detach returned
	c.sample("detached")

	return true
}

func (c *c18Chan) detachWhere() string {
	c.mu.Lock()
	defer c.mu.Unlock()

	return c.detachedAt
}

func (c *c18Chan) idSeen() int64 {
	c.mu.Lock()
	defer c.mu.Unlock()

	return c.idSeenOrd
}

func (p *c18Pair) onOpen(c *c18Chan) {
	c.sample("onopen")
	if p.plan.wantsOnOpenDetach(c) {
		p.detach(c, "onopen")
	}
}

// useDetached writes once on the raw handle of every detached channel that is not closed: the channels are alive and in
// use. Done between the rounds (not in OnOpen), so that the creation bursts are not inflated with user data: pion/sctp
// discards data for new streams while its accept queue (16) is full and leaves it to the sender's retransmission timer.
func (p *c18Pair) useDetached() (n, failed int) {
	for side := 0; side < 2; side++ {
		for _, c := range p.list(side) {
			c.mu.Lock()
			raw, used := c.raw, c.rawUsed
			c.rawUsed = true
			c.mu.Unlock()
			if raw == nil || used || p.isClosedID(c.sample("poll")) {
				continue
			}
			if _, err := raw.Write([]byte("still-in-use")); err != nil {
				failed++
			} else {
				n++
			}
		}
	}

	return n, failed
}

// detachLater detaches up to k open, not yet detached channels of every detach-mode peer from the application goroutine.
func (p *c18Pair) detachLater(rd *kit.Rand) []string {
	var done []string
	for side := 0; side < 2; side++ {
		if !p.plan.mode[side] {
			continue
		}
		var cand []*c18Chan
		for _, c := range p.list(side) {
			if c.detachOrd.Load() == 0 && !c.detaching.Load() && c.dc.ReadyState() == DataChannelStateOpen && !p.isClosedID(c.sample("poll")) {
				cand = append(cand, c)
			}
		}
		kit.Shuffle(rd, cand)
		k := rd.Intn(4)
		if k > len(cand) {
			k = len(cand)
		}
		for _, c := range cand[:k] {
			if p.detach(c, "later") {
				done = append(done, fmt.Sprintf("%d:%s%d", side, c.kind[:1], c.sample("poll")))
			}
		}
	}
	sort.Strings(done)

	return done
}

func (p *c18Pair) isClosedID(id int) bool {
	p.mu.Lock()
	defer p.mu.Unlock()

	return p.closedIDs[id]
}

// closeInDetachPair closes one end of a stream in a pair where a peer runs in detach mode. There is no read loop on a
// detach-mode peer, so neither end reaches "closed" on its own (the application would have to read the raw handle to
// EOF): the harness remembers the stream id as closed instead of waiting for the state.
func (p *c18Pair) closeInDetachPair(c *c18Chan, id int, viaRaw bool) {
	c.mu.Lock()
	raw := c.raw
	c.mu.Unlock()
	if viaRaw && raw != nil {
		_ = raw.Close()
	} else {
		_ = c.dc.Close()
	}
	p.mu.Lock()
	p.closedIDs[id] = true
	p.mu.Unlock()
}

// detachEvidence records what the detach dimension really exercised in this pair.
func (ck *c18Checker) detachEvidence() {
	p, run := ck.p, ck.run
	if !p.plan.any() {
		run.Seen("detach_mode", "off,off")

		return
	}
	mode := func(side int) string {
		if p.plan.mode[side] {
			return "on"
		}

		return "off"
	}
	run.Seen("detach_mode", mode(0)+","+mode(1))
	for side := 0; side < 2; side++ {
		if !p.plan.mode[side] {
			continue
		}
		run.Seen("detach_onopen_percent", fmt.Sprint(p.plan.pct[side]))
		localEven := ck.role[side] == "client"
		minLocalDetach := int64(0)
		list := p.list(side)
		for _, c := range list {
			d := c.detachOrd.Load()
			if d == 0 {
				continue
			}
			id := c.sample("end")
			at := c.detachWhere()
			run.Count("channels_detached_"+at, 1)
			parity := "peer-parity"
			if (id%2 == 0) == localEven {
				parity = "local-parity"
			}
			run.Seen("detached_channel_class", c.kind+":"+parity)
			if p.isClosedID(id) {
				run.Count("detached_channels_closed_later", 1)

				continue
			}
			if c.dc.ReadyState() == DataChannelStateOpen {
				run.Count("detached_channels_alive_at_end", 1)
			}
			if parity == "local-parity" && (minLocalDetach == 0 || d < minLocalDetach) {
				minLocalDetach = d
			}
		}
		if minLocalDetach == 0 {
			continue
		}
		after := 0
		for _, c := range list {
			if c.kind == "auto" && c.startOrd > minLocalDetach && c.sample("end") >= 0 {
				after++
			}
		}
		run.Count("auto_ids_assigned_after_detach_of_live_local_parity_channel", after)
		if after > 0 {
			run.Count("pairs_sides_with_auto_id_assigned_after_detach", 1)
		}
	}
	p.mu.Lock()
	for k, v := range p.detachErrs {
		for ; v > 0; v-- {
			run.Seen("detach_errors", k)
		}
	}
	p.mu.Unlock()
}
