package webrtc

// C10 — each generated media section is internally consistent.
//
// Oracle (kit.ParseSDP, no pion/sdp, no webrtc helper): in every m-section of every description produced by
// CreateOffer / CreateAnswer
//   * the m= line lists each payload type once;
//   * every a=rtpmap / a=fmtp / a=rtcp-fb refers to a payload type of the m= line (rtcp-fb may use `*`);
//   * every rtx rtpmap's apt= names a payload type of the same m= line;
//   * a=extmap ids are pairwise distinct and in 1..14, each URI appears at most once.
// Workload: random MediaEngines (RegisterCodec / RegisterHeaderExtension), random SetCodecPreferences, as offerer and as
// answerer to foreign offers whose payload types / extmap ids differ from the local ones.

import (
	"fmt"
	"sort"
	"strconv"
	"strings"
	"testing"

	kit "github.com/pion/webrtc/v4/internal/verifkit"
)

// ------------------------------------------------------------------ oracle

type c10Finding struct {
	Sig     string
	What    string
	Section int
	Apt     string // rtx-apt-not-listed: the apt value
}

func c10FirstToken(v string) string {
	v = strings.TrimSpace(v)
	if i := strings.IndexAny(v, " \t"); i >= 0 {
		return v[:i]
	}

	return v
}

// c10CheckSection checks one m-section; it returns the findings and whether the section is non-trivial
// (>= 2 payload types and at least one rtx or extmap).
func c10CheckSection(idx int, m *kit.SDPMedia) (fs []c10Finding, nontrivial bool, nRTX, nExt int) { //nolint:cyclop
	if m.Kind == "application" {
		return nil, false, 0, 0
	}
	add := func(sig, f string, a ...any) {
		fs = append(fs, c10Finding{Sig: sig, What: fmt.Sprintf("section %d (%s): ", idx, m.Lines[0]) + fmt.Sprintf(f, a...), Section: idx})
	}
	listed := map[string]int{}
	for _, f := range m.Formats {
		listed[f]++
	}
	for pt, n := range listed {
		if n > 1 {
			shape := "the same codec entry twice"
			variants := map[string]bool{}
			for _, at := range m.Attrs {
				if (at.Key == "rtpmap" || at.Key == "fmtp") && c10FirstToken(at.Value) == pt {
					variants[at.Key+":"+at.Value] = true
				}
			}
			dm := 0
			for v := range variants {
				if strings.HasPrefix(v, "rtpmap:") {
					dm++
				}
			}
			if dm > 1 || len(variants)-dm > 1 {
				shape = "different codecs on one number"
			}
			add("duplicate-pt-in-mline", "payload type %s listed %d times (%s)", pt, n, shape)
		}
	}
	for _, a := range m.Attrs {
		switch a.Key {
		case "rtpmap", "fmtp", "rtcp-fb":
			pt := c10FirstToken(a.Value)
			if a.Key == "rtcp-fb" && pt == "*" {
				continue
			}
			if listed[pt] == 0 {
				add("attr-refers-unlisted-pt:"+a.Key, "a=%s:%s refers to payload type %q which the m= line does not list", a.Key, a.Value, pt)
			}
		}
	}
	// RTX: every rtx rtpmap's apt must be listed in the same section.
	for _, rm := range m.RtpMaps() {
		if !strings.EqualFold(rm.Name, "rtx") {
			continue
		}
		nRTX++
		for _, a := range m.Attrs {
			if a.Key != "fmtp" || c10FirstToken(a.Value) != rm.PT {
				continue
			}
			_, params, _ := strings.Cut(strings.TrimSpace(a.Value), " ")
			for _, p := range strings.Split(params, ";") {
				k, v, ok := strings.Cut(strings.TrimSpace(p), "=")
				if !ok || !strings.EqualFold(strings.TrimSpace(k), "apt") {
					continue
				}
				apt := strings.TrimSpace(v)
				if listed[apt] == 0 {
					add("rtx-apt-not-listed", "rtx payload type %s has apt=%s, which the m= line does not list", rm.PT, apt)
					fs[len(fs)-1].Apt = apt
				}
			}
		}
	}
	ids := map[int]int{}
	uris := map[string]int{}
	for _, v := range m.AttrAll("extmap") {
		nExt++
		f := strings.Fields(v)
		if len(f) < 2 {
			add("extmap-malformed", "a=extmap:%s", v)

			continue
		}
		idStr, _, _ := strings.Cut(f[0], "/")
		id, err := strconv.Atoi(idStr)
		if err != nil {
			add("extmap-malformed", "a=extmap:%s", v)

			continue
		}
		if id < 1 || id > 14 {
			add("extmap-id-out-of-range", "a=extmap:%s uses id %d outside 1..14", v, id)
		}
		ids[id]++
		uris[f[1]]++
	}
	for id, n := range ids {
		if n > 1 {
			add("extmap-id-duplicate", "extmap id %d used %d times", id, n)
		}
	}
	for u, n := range uris {
		if n > 1 {
			add("extmap-uri-duplicate", "extension URI %s appears %d times", u, n)
		}
	}
	sort.Slice(fs, func(i, j int) bool { return fs[i].Sig+fs[i].What < fs[j].Sig+fs[j].What })

	return fs, len(m.Formats) >= 2 && (nRTX > 0 || nExt > 0), nRTX, nExt
}

// ------------------------------------------------------------------ generators

type c10Codec struct {
	Kind string // audio | video
	P    RTPCodecParameters
}

type c10Ext struct {
	URI   string
	Audio bool
	Video bool
	Dirs  []string // "" (default), "sendonly", "recvonly"
}

type c10EngineSpec struct {
	Codecs []c10Codec
	Exts   []c10Ext
}

func (s c10EngineSpec) String() string {
	var b []string
	for _, c := range s.Codecs {
		b = append(b, fmt.Sprintf("%s:%d=%s/%d/%d{%s}fb%d", c.Kind, c.P.PayloadType, c.P.MimeType, c.P.ClockRate, c.P.Channels, c.P.SDPFmtpLine, len(c.P.RTCPFeedback)))
	}
	for _, e := range s.Exts {
		b = append(b, fmt.Sprintf("ext:%s a=%v v=%v %v", e.URI, e.Audio, e.Video, e.Dirs))
	}

	return strings.Join(b, " ")
}

func (s c10EngineSpec) kind(k string) []RTPCodecParameters {
	var out []RTPCodecParameters
	for _, c := range s.Codecs {
		if c.Kind == k {
			out = append(out, c.P)
		}
	}

	return out
}

// hasUnattachedRTX reports whether an rtx codec of the kind is registered whose apt is absent or names an unregistered payload type.
func (s c10EngineSpec) hasUnattachedRTX(k string) bool {
	cs := s.kind(k)
	for _, c := range cs {
		if !strings.EqualFold(c.MimeType, MimeTypeRTX) {
			continue
		}
		found := false
		for _, p := range cs {
			if c.SDPFmtpLine == fmt.Sprintf("apt=%d", p.PayloadType) {
				found = true
			}
		}
		if !found {
			return true
		}
	}

	return false
}

type c10Primary struct {
	Mime  string
	Clock uint32
	Ch    uint16
	Fmtp  string
}

// pairwise non-matching under fmtp.Match, so that an engine never holds two interchangeable codecs
var c10VideoPrimaries = []c10Primary{ //nolint:gochecknoglobals
	{MimeTypeVP8, 90000, 0, ""},
	{MimeTypeVP9, 90000, 0, "profile-id=0"},
	{MimeTypeVP9, 90000, 0, "profile-id=2"},
	{MimeTypeH264, 90000, 0, "level-asymmetry-allowed=1;packetization-mode=1;profile-level-id=42001f"},
	{MimeTypeH264, 90000, 0, "level-asymmetry-allowed=1;packetization-mode=0;profile-level-id=42001f"},
	{MimeTypeH264, 90000, 0, "level-asymmetry-allowed=1;packetization-mode=1;profile-level-id=42e01f"},
	{MimeTypeH264, 90000, 0, "level-asymmetry-allowed=1;packetization-mode=0;profile-level-id=42e01f"},
	{MimeTypeH264, 90000, 0, "level-asymmetry-allowed=1;packetization-mode=1;profile-level-id=4d001f"},
	{MimeTypeH264, 90000, 0, "level-asymmetry-allowed=1;packetization-mode=1;profile-level-id=64001f"},
	{MimeTypeAV1, 90000, 0, ""},
	{MimeTypeH265, 90000, 0, ""},
	{"video/FOO", 90000, 0, ""},
}

var c10AudioPrimaries = []c10Primary{ //nolint:gochecknoglobals
	{MimeTypeOpus, 48000, 2, "minptime=10;useinbandfec=1"},
	{MimeTypeG722, 8000, 0, ""},
	{MimeTypePCMU, 8000, 0, ""},
	{MimeTypePCMA, 8000, 0, ""},
	{"audio/telephone-event", 8000, 0, ""},
	{"audio/ISAC", 16000, 0, ""},
	{"audio/CN", 8000, 0, ""},
	{"audio/red", 48000, 2, ""},
}

var c10ExtURIs = []string{ //nolint:gochecknoglobals
	"urn:ietf:params:rtp-hdrext:sdes:mid",
	"urn:ietf:params:rtp-hdrext:sdes:rtp-stream-id",
	"urn:ietf:params:rtp-hdrext:sdes:repaired-rtp-stream-id",
	"http://www.ietf.org/id/draft-holmer-rmcat-transport-wide-cc-extensions-01",
	"http://www.webrtc.org/experiments/rtp-hdrext/abs-send-time",
	"urn:ietf:params:rtp-hdrext:ssrc-audio-level",
	"urn:ietf:params:rtp-hdrext:toffset",
	"urn:3gpp:video-orientation",
	"http://www.webrtc.org/experiments/rtp-hdrext/playout-delay",
	"http://www.webrtc.org/experiments/rtp-hdrext/video-content-type",
	"http://www.webrtc.org/experiments/rtp-hdrext/video-timing",
	"http://www.webrtc.org/experiments/rtp-hdrext/color-space",
	"http://www.webrtc.org/experiments/rtp-hdrext/abs-capture-time",
	"https://aomediacodec.github.io/av1-rtp-spec/#dependency-descriptor-rtp-header-extension",
	"urn:ietf:params:rtp-hdrext:csrc-audio-level",
	"urn:ietf:params:rtp-hdrext:encrypt",
	"http://example.org/verif/ext-a",
	"http://example.org/verif/ext-b",
	"urn:example:verif:ext-c",
}

var c10Feedback = []RTCPFeedback{ //nolint:gochecknoglobals
	{Type: "goog-remb"}, {Type: "ccm", Parameter: "fir"}, {Type: "nack"}, {Type: "nack", Parameter: "pli"}, {Type: "transport-cc"},
}

// c10GenEngine draws a MediaEngine configuration. Payload types are pairwise distinct within a kind (RegisterCodec
// rejects a second codec on a registered payload type); with small probability audio and video share numbers.
func c10GenEngine(r *kit.Rand) c10EngineSpec { //nolint:cyclop,gocognit
	var spec c10EngineSpec
	style := r.Intn(4) // 0: full 0..127; 1: dynamic range; 2: low numbers (crowded); 3: default-like
	usedAll := map[int]bool{}
	shareAcrossKinds := r.Chance(0.1)
	draw := func(used map[int]bool) int {
		for tries := 0; tries < 1000; tries++ {
			var pt int
			switch style {
			case 1:
				pt = r.Range(96, 127)
			case 2:
				pt = r.Range(0, 40)
			default:
				pt = r.Range(0, 127)
			}
			if !used[pt] {
				used[pt] = true

				return pt
			}
		}

		return -1
	}
	for _, kind := range []string{"video", "audio"} {
		used := usedAll
		if shareAcrossKinds {
			used = map[int]bool{}
		}
		if r.Chance(0.08) {
			continue // engine without this kind
		}
		n := r.Range(1, 12)
		pool := append([]c10Primary{}, c10VideoPrimaries...)
		if kind == "audio" {
			pool = append([]c10Primary{}, c10AudioPrimaries...)
		}
		kit.Shuffle(r, pool)
		var entries []RTPCodecParameters
		for len(entries) < n && len(pool) > 0 {
			p := pool[0]
			pool = pool[1:]
			pt := draw(used)
			if pt < 0 {
				break
			}
			var fb []RTCPFeedback
			if kind == "video" {
				for _, f := range c10Feedback {
					if r.Chance(0.6) {
						fb = append(fb, f)
					}
				}
			} else if r.Chance(0.3) {
				fb = append(fb, RTCPFeedback{Type: "transport-cc"})
			}
			c := RTPCodecParameters{
				RTPCodecCapability: RTPCodecCapability{MimeType: p.Mime, ClockRate: p.Clock, Channels: p.Ch, SDPFmtpLine: p.Fmtp, RTCPFeedback: fb},
				PayloadType:        PayloadType(pt),
			}
			entries = append(entries, c)
			// rtx for this primary
			if kind == "video" && len(entries) < n && r.Chance(0.55) {
				if rpt := draw(used); rpt >= 0 {
					entries = append(entries, RTPCodecParameters{
						RTPCodecCapability: RTPCodecCapability{MimeType: MimeTypeRTX, ClockRate: 90000, SDPFmtpLine: fmt.Sprintf("apt=%d", pt)},
						PayloadType:        PayloadType(rpt),
					})
				}
			}
		}
		if kind == "video" {
			// rtx without a primary: apt names a payload type that is not registered (or registered only for audio)
			for k := 0; k < 2; k++ {
				if !r.Chance(0.35) {
					continue
				}
				rpt := draw(used)
				apt := draw(used) // reserved but never registered
				if rpt < 0 || apt < 0 {
					continue
				}
				entries = append(entries, RTPCodecParameters{
					RTPCodecCapability: RTPCodecCapability{MimeType: MimeTypeRTX, ClockRate: 90000, SDPFmtpLine: fmt.Sprintf("apt=%d", apt)},
					PayloadType:        PayloadType(rpt),
				})
			}
			if r.Chance(0.06) {
				if rpt := draw(used); rpt >= 0 { // rtx without any apt
					entries = append(entries, RTPCodecParameters{
						RTPCodecCapability: RTPCodecCapability{MimeType: MimeTypeRTX, ClockRate: 90000},
						PayloadType:        PayloadType(rpt),
					})
				}
			}
			if r.Chance(0.35) {
				if fpt := draw(used); fpt >= 0 {
					entries = append(entries, RTPCodecParameters{
						RTPCodecCapability: RTPCodecCapability{MimeType: MimeTypeFlexFEC03, ClockRate: 90000, SDPFmtpLine: "repair-window=10000000"},
						PayloadType:        PayloadType(fpt),
					})
				}
			}
		}
		switch r.Intn(3) {
		case 0:
			kit.Shuffle(r, entries) // rtx may precede its primary
		case 1:
			// rtx block after all primaries (like many applications do)
			sort.SliceStable(entries, func(i, j int) bool {
				return !strings.EqualFold(entries[i].MimeType, MimeTypeRTX) && strings.EqualFold(entries[j].MimeType, MimeTypeRTX)
			})
		}
		for _, e := range entries {
			spec.Codecs = append(spec.Codecs, c10Codec{Kind: kind, P: e})
		}
	}
	nExt := r.Range(0, 16)
	if r.Chance(0.15) {
		nExt = r.Range(14, 18)
	}
	uris := append([]string{}, c10ExtURIs...)
	kit.Shuffle(r, uris)
	if nExt > len(uris) {
		nExt = len(uris)
	}
	for _, u := range uris[:nExt] {
		e := c10Ext{URI: u}
		switch r.Intn(4) {
		case 0:
			e.Audio = true
		case 1:
			e.Video = true
		default:
			e.Audio, e.Video = true, true
		}
		switch r.Intn(5) {
		case 0:
			e.Dirs = []string{"sendonly"}
		case 1:
			e.Dirs = []string{"recvonly"}
		case 2:
			e.Dirs = []string{"sendonly", "recvonly"}
		}
		spec.Exts = append(spec.Exts, e)
	}

	return spec
}

func c10Dir(s string) RTPTransceiverDirection {
	if s == "sendonly" {
		return RTPTransceiverDirectionSendonly
	}

	return RTPTransceiverDirectionRecvonly
}

// c10Build registers the spec; registration errors are counted, never violations.
func c10Build(spec c10EngineSpec, run *kit.Run) *MediaEngine {
	me := &MediaEngine{}
	for _, c := range spec.Codecs {
		typ := RTPCodecTypeVideo
		if c.Kind == "audio" {
			typ = RTPCodecTypeAudio
		}
		if err := me.RegisterCodec(c.P, typ); err != nil {
			run.Count("register_codec_errors", 1)
		}
	}
	for _, e := range spec.Exts {
		var dirs []RTPTransceiverDirection
		for _, d := range e.Dirs {
			dirs = append(dirs, c10Dir(d))
		}
		if e.Audio {
			if err := me.RegisterHeaderExtension(RTPHeaderExtensionCapability{URI: e.URI}, RTPCodecTypeAudio, dirs...); err != nil {
				run.Count("register_ext_errors", 1)
			}
		}
		if e.Video {
			if err := me.RegisterHeaderExtension(RTPHeaderExtensionCapability{URI: e.URI}, RTPCodecTypeVideo, dirs...); err != nil {
				run.Count("register_ext_errors", 1)
			}
		}
	}

	return me
}

// c10GenPrefs draws codec preferences from the registered codecs of a kind: subset, re-ordering, entries with PayloadType 0.
func c10GenPrefs(r *kit.Rand, codecs []RTPCodecParameters) (prefs []RTPCodecParameters, class string) {
	if len(codecs) == 0 {
		return nil, "none"
	}
	keepP := kit.Pick(r, []float64{1, 0.8, 0.5, 0.3})
	for _, c := range codecs {
		if r.Chance(keepP) {
			prefs = append(prefs, c)
		}
	}
	class = "subset"
	if len(prefs) == len(codecs) {
		class = "all"
	}
	if r.Bool() {
		kit.Shuffle(r, prefs)
		class += "+reorder"
	}
	zeroP := kit.Pick(r, []float64{0, 0, 0.3, 1})
	z := 0
	for i := range prefs {
		if r.Chance(zeroP) {
			prefs[i].PayloadType = 0
		}
		if prefs[i].PayloadType == 0 { // includes a codec that is registered on payload type 0
			z++
		}
	}
	if z > 0 {
		class += "+pt0"
	}
	if len(prefs) == 0 {
		class = "empty"
	}

	return prefs, class
}

func c10PrefsString(p []RTPCodecParameters) string {
	var b []string
	for _, c := range p {
		b = append(b, fmt.Sprintf("%d=%s{%s}", c.PayloadType, c.MimeType, c.SDPFmtpLine))
	}

	return strings.Join(b, ",")
}

// ------------------------------------------------------------------ the monitor

type c10Step struct {
	Op     string `json:"op"`
	Detail string `json:"detail,omitempty"`
	Err    string `json:"err,omitempty"`
}

type c10Case struct {
	run   *kit.Run
	idx   int
	r     *kit.Rand
	spec  c10EngineSpec
	steps []c10Step
	role  string // offerer | answerer
	prefs bool
	descs []string // identity of the sections seen (for the distinct count)
	nontr bool
	remot string
	// some accepted SetCodecPreferences call carried an entry with PayloadType 0 (recorded in the replay detail)
	pt0Prefs bool
	pc       *PeerConnection
	// per transceiver: class of the accepted user preferences ("" = none); transceivers absent from the map were created by SetRemoteDescription
	userPrefs map[*RTPTransceiver]string
	// the remote offer maps one extension URI to different ids in different sections (not BUNDLE-consistent)
	inconsistent bool
	// accepted preference lists (as passed, local numbering) of the transceivers created locally
	prefLists map[*RTPTransceiver][]RTPCodecParameters
	// answerer to an offer whose numbering is derived from the local one (c10_corr_test.go): numbering mode, "" otherwise
	corrMode string
}

func (c *c10Case) step(op, detail string, err error) {
	s := c10Step{Op: op, Detail: detail}
	if err != nil {
		s.Err = err.Error()
	}
	c.steps = append(c.steps, s)
}

// check runs the oracle over one generated description.
// dupCause names the scenario class of a duplicate payload type, from facts (not from the SDP text), so that different
// causes get different signatures:
//   - the MediaEngine's own codec list of that kind now holds a payload type twice (white-box: getCodecsByKind), i.e. the list the
//     application registered was altered;
//   - the section's transceiver carries user preferences with PayloadType-0 entries (resolved against local or negotiated numbers);
//   - the section's transceiver was created by SetRemoteDescription (preferences derived from the remote section);
//   - none of these.
func (c *c10Case) dupCause(m *kit.SDPMedia) string {
	kind := NewRTPCodecType(m.Kind)
	seen := map[PayloadType]bool{}
	for _, cd := range c.pc.api.mediaEngine.getCodecsByKind(kind) {
		if seen[cd.PayloadType] {
			return ":mediaengine-codec-list-altered"
		}
		seen[cd.PayloadType] = true
	}
	mid, _ := m.Mid()
	for _, tr := range c.pc.GetTransceivers() {
		if tr.Mid() != mid {
			continue
		}
		class, local := c.userPrefs[tr]
		switch {
		case strings.Contains(class, "pt0") && c.remot != "":
			return ":pt0-prefs-after-remote"
		case strings.Contains(class, "pt0"):
			return ":pt0-prefs"
		case class != "":
			return ":user-prefs"
		case !local:
			return ":transceiver-from-remote"
		}
	}

	return ""
}

// aptRemoteUse reports (as a signature suffix) whether the remote offer's section with the same mid lists the payload type
// number that a generated rtx names as apt without listing it.
func (c *c10Case) aptRemoteUse(m *kit.SDPMedia, apt string) string {
	if c.remot == "" {
		return ""
	}
	rd, err := kit.ParseSDP(c.remot)
	if err != nil {
		return ""
	}
	mid, _ := m.Mid()
	for _, rm := range rd.Media {
		if rmid, _ := rm.Mid(); rmid != mid {
			continue
		}
		for _, f := range rm.Formats {
			if f == apt {
				return ":apt-number-listed-by-remote"
			}
		}
	}

	return ":apt-number-not-listed-by-remote"
}

func (c *c10Case) check(what string, sd SessionDescription) {
	d, err := kit.ParseSDP(sd.SDP)
	if err != nil {
		c.run.Violation("generated-sdp-unparsable", what+": "+err.Error(), c.idx, map[string]any{"sdp": sd.SDP, "steps": c.steps})

		return
	}
	c.run.Count("descriptions_checked", 1)
	c.run.Seen("generated_by", what)
	for i, m := range d.Media {
		if m.Kind == "application" {
			continue
		}
		fs, nontrivial, nRTX, nExt := c10CheckSection(i, m)
		c.run.Count("sections_checked", 1)
		if m.Rejected() {
			c.run.Count("sections_rejected", 1)
		}
		if nRTX > 0 {
			c.run.Count("sections_with_rtx", 1)
		}
		if nExt > 0 {
			c.run.Count("sections_with_extmap", 1)
		}
		if nExt >= 14 {
			c.run.Count("sections_with_14_extmaps", 1)
		}
		for _, a := range m.Attrs {
			if a.Key == "rtpmap" && strings.Contains(strings.ToLower(a.Value), "flexfec") {
				c.run.Count("sections_with_flexfec", 1)

				break
			}
		}
		if nontrivial {
			c.nontr = true
			c.run.Count("sections_nontrivial", 1)
		}
		c.descs = append(c.descs, m.Lines[0]+"|"+strings.Join(m.AttrAll("extmap"), ","))
		seen := map[string]bool{}
		for _, f := range fs {
			if seen[f.Sig] {
				continue
			}
			seen[f.Sig] = true
			if f.Sig == "duplicate-pt-in-mline" {
				f.Sig += c.dupCause(m)
			}
			if f.Sig == "rtx-apt-not-listed" {
				// scenario class from facts: where the section's codec list comes from, and whether the remote description
				// uses the dangling apt number itself (for whatever codec) in the section of the same mid
				f.Sig += c.dupCause(m) + c.aptRemoteUse(m, f.Apt)
			}
			if c.inconsistent && strings.HasPrefix(f.Sig, "extmap-") {
				f.Sig += ":remote-extmap-inconsistent"
			}
			c.run.Violation(f.Sig, fmt.Sprintf("%s as %s (prefs=%v): %s", what, c.role, c.prefs, f.What), c.idx, map[string]any{
				"generated_by": what, "role": c.role, "engine": c.spec.String(), "steps": c.steps, "section": m.Lines,
				"remote_offer": c.remot, "remote_numbering": c.corrMode, "finding": f.What, "prefs_with_pt0": c.pt0Prefs, "engine_has_unattached_rtx": c.spec.hasUnattachedRTX(m.Kind),
			})
		}
	}
}

func (c *c10Case) addTransceivers(pc *PeerConnection, max int) {
	n := c.r.Range(1, max)
	for k := 0; k < n; k++ {
		kind := RTPCodecTypeVideo
		ks := "video"
		if c.r.Chance(0.35) {
			kind, ks = RTPCodecTypeAudio, "audio"
		}
		dir := kit.Pick(c.r, []RTPTransceiverDirection{RTPTransceiverDirectionSendrecv, RTPTransceiverDirectionSendonly, RTPTransceiverDirectionRecvonly})
		tr, err := pc.AddTransceiverFromKind(kind, RTPTransceiverInit{Direction: dir})
		c.step("AddTransceiverFromKind", ks+" "+dir.String(), err)
		if err != nil {
			c.run.Count("add_transceiver_errors", 1)

			continue
		}
		c.userPrefs[tr] = ""
		if c.r.Chance(0.6) {
			prefs, class := c10GenPrefs(c.r, c.spec.kind(ks))
			ps := c10PrefsString(prefs) // before the call: SetCodecPreferences may reorder the caller's slice
			passed := append([]RTPCodecParameters{}, prefs...)
			err = tr.SetCodecPreferences(prefs)
			c.step("SetCodecPreferences", class+" ["+ps+"]", err)
			if err != nil {
				c.run.Count("set_prefs_errors", 1)
			} else if len(prefs) > 0 {
				c.prefs = true
				c.pt0Prefs = c.pt0Prefs || strings.Contains(class, "pt0")
				c.userPrefs[tr] = class
				c.prefLists[tr] = passed
				c.run.Seen("prefs_class", class)
			}
		}
	}
}

func (c *c10Case) asOfferer() {
	c.role = "offerer"
	pc, err := rigNewPC(rigOpts{ME: c10Build(c.spec, c.run), Quiet: true})
	if err != nil {
		c.run.Inconclusive("new-peerconnection: " + err.Error())

		return
	}
	defer rigClose(pc)
	c.pc = pc
	c.addTransceivers(pc, 4)
	offer, err := pc.CreateOffer(nil)
	c.step("CreateOffer", "", err)
	if err != nil {
		c.run.Seen("create_offer_errors", err.Error())

		return
	}
	c.check("CreateOffer", offer)
}

func (c *c10Case) asAnswerer(correlated bool) { //nolint:cyclop
	c.role = "answerer"
	if correlated {
		c.role = "answerer-correlated"
	}
	pc, err := rigNewPC(rigOpts{ME: c10Build(c.spec, c.run), Quiet: true})
	if err != nil {
		c.run.Inconclusive("new-peerconnection: " + err.Error())

		return
	}
	defer rigClose(pc)
	c.pc = pc
	var g *genSDP
	var tables map[string][]c10RemoteEntry
	if correlated {
		if c.r.Chance(0.85) {
			c.addTransceivers(pc, 3)
		}
		g, c.corrMode, tables = c10GenCorrelatedOffer(c.r, c.spec)
		c.run.Seen("corr_numbering", c.corrMode)
	} else {
		if c.r.Chance(0.5) {
			c.addTransceivers(pc, 3) // pre-existing local transceivers (with preferences in local numbering)
		}
		g = genRandomOffer(c.r, genOpts{
			MaxSections: 4, Kinds: []string{"audio", "video", "video", "application"}, MidStyle: 0,
			PTRemap: true, PTPerSection: c.r.Chance(0.3), ExtPermute: true, Dirs: []string{"sendrecv", "sendonly", "recvonly"},
		})
	}
	if kit.Tier() == "thorough" && c.r.Chance(0.15) {
		// BUNDLE-inconsistent class (thorough only, own signature suffix): the same URI gets different ids in different sections
		for _, m := range g.Media {
			ids := []int{1, 2, 3, 4, 5, 6, 7, 8, 9, 10, 11, 12, 13, 14}
			kit.Shuffle(c.r, ids)
			for k := range m.Exts {
				m.Exts[k].ID = ids[k%len(ids)]
			}
		}
		c.inconsistent = true
		c.run.Count("remote_offers_extmap_inconsistent", 1)
	}
	c.remot = g.String()
	err = pc.SetRemoteDescription(g.Desc(SDPTypeOffer))
	c.step("SetRemoteDescription", "generated offer", err)
	if err != nil {
		c.run.Seen("set_remote_errors", c10ErrClass(err))

		return
	}
	if correlated {
		// how the local preferences of the transceivers that were matched to a remote section relate to the remote numbering
		for _, tr := range pc.GetTransceivers() {
			if prefs := c.prefLists[tr]; len(prefs) > 0 && tr.Mid() != "" {
				if class := c10ClashClass(prefs, tables[tr.Kind().String()]); class != "" {
					c.run.Count("corr_matched_prefs_"+class, 1)
				} else {
					c.run.Count("corr_matched_prefs_no-clash", 1)
				}
			}
		}
	}
	// preferences on transceivers created from the remote offer
	if c.r.Chance(0.3) {
		for _, tr := range pc.GetTransceivers() {
			if !c.r.Chance(0.5) {
				continue
			}
			prefs, class := c10GenPrefs(c.r, c.spec.kind(tr.Kind().String()))
			ps := c10PrefsString(prefs)
			err = tr.SetCodecPreferences(prefs)
			c.step("SetCodecPreferences(after remote)", class+" ["+ps+"]", err)
			if err == nil && len(prefs) > 0 {
				c.prefs = true
				c.pt0Prefs = c.pt0Prefs || strings.Contains(class, "pt0")
				c.userPrefs[tr] = class
				c.run.Seen("prefs_class", class+"+after-remote")
			}
		}
	}
	answer, err := pc.CreateAnswer(nil)
	c.step("CreateAnswer", "", err)
	if err != nil {
		c.run.Seen("create_answer_errors", c10ErrClass(err))

		return
	}
	c.check("CreateAnswer", answer)
	if !c.r.Chance(0.5) {
		return
	}
	// the former answerer re-offers (negotiated payload types / extmap ids + fresh local transceivers)
	err = pc.SetLocalDescription(answer)
	c.step("SetLocalDescription", "answer", err)
	if err != nil {
		c.run.Seen("set_local_errors", c10ErrClass(err))

		return
	}
	if c.r.Chance(0.6) {
		c.addTransceivers(pc, 2)
	}
	offer, err := pc.CreateOffer(nil)
	c.step("CreateOffer", "after answering", err)
	if err != nil {
		c.run.Seen("create_offer_errors", c10ErrClass(err))

		return
	}
	c.check("CreateOffer(after answer)", offer)
}

func c10ErrClass(err error) string {
	s := err.Error()
	if i := strings.IndexAny(s, ":\""); i > 0 {
		s = s[:i]
	}
	if len(s) > 60 {
		s = s[:60]
	}

	return s
}

func TestVerifC10(t *testing.T) {
	run := kit.Start(t, "C10", "case = random MediaEngine (1-12 RegisterCodec per kind, PTs 0..127, rtx with/without primary, flexfec-03, 0-18 "+
		"RegisterHeaderExtension with direction restrictions) x random transceivers/SetCodecPreferences (subset, reorder, PT 0), a third as offerer "+
		"(CreateOffer), a third as answerer to generated foreign offers with independently remapped PTs / permuted extmap ids, a third as answerer to "+
		"offers whose codec table is derived from the local registration (subset of the local codecs + foreign ones; numbers same / permutation of the "+
		"local number set / mixed / disjoint, so a local number can mean another codec remotely; rtx attached or dangling) (CreateAnswer, then CreateOffer); "+
		"non-trivial when some generated section lists >= 2 payload types and has >= 1 rtx or extmap; distinct by the m= lines + extmap lines produced")
	defer run.Finish()
	run.Assume("kit.ParseSDP line splitter is the trusted base; SDP text is what CreateOffer/CreateAnswer return (before SetLocalDescription)")

	n := kit.N(3000, 30000)
	run.Parallel(n, 16, func(i int) {
		c := &c10Case{run: run, idx: i, r: run.CaseRand(i), userPrefs: map[*RTPTransceiver]string{}, prefLists: map[*RTPTransceiver][]RTPCodecParameters{}}
		c.spec = c10GenEngine(c.r)
		defer func() {
			if p := recover(); p != nil {
				// crash freedom is not C10's statement: undecided case, loudly
				fmt.Printf("C10: case %d (%s) panicked: %v\n  engine: %s\n  steps: %+v\n", i, c.role, p, c.spec.String(), c.steps)
				run.Inconclusive(fmt.Sprintf("panic:%s: %v", c.role, p))
			}
		}()
		switch c.r.Intn(3) {
		case 0:
			c.asOfferer()
		case 1:
			c.asAnswerer(false)
		default:
			c.asAnswerer(true)
		}
		run.Case(c.role+"|"+strings.Join(c.descs, "||"), c.nontr)
		run.Seen("role", fmt.Sprintf("%s prefs=%v", c.role, c.prefs))
		if i < 40 && c.nontr && len(c.descs) > 0 {
			run.Sample(map[string]any{"case": i, "role": c.role, "engine": c.spec.String(), "steps": c.steps, "sections": c.descs})
		}
	})
}
