//go:build !js

package webrtc

// C30 configuration dimension ("under any configuration" part of the property's quantifier).
//
// The property quantifies over inputs AND configurations. A remote description is judged against what the local
// application registered: the outcome of codec / header-extension negotiation (full match, partial match, no codec in
// common, payload types that collide with other local codecs) decides which branches of SetRemoteDescription,
// CreateAnswer and above all of the queued background work (startRTP -> startRTPReceivers -> startReceive,
// handleIncomingSSRC, undeclared-SSRC handling) run. A victim that always registers the default MediaEngine is a
// superset of nearly everything a pion / browser / generator description offers, so every "nothing in common" branch
// stays cold. c30GenProfile draws an application profile:
//
//   - MediaEngine class: default | audio-only | video-only | one-video (a single primary codec, with or without its
//     rtx) | subset (every default codec kept with its own coin) | odd-pt (default codecs on permuted / shifted payload
//     types) | rtx-orphan (rtx entries without / with foreign primary) | disjoint (codecs nobody offers) | empty;
//   - header extensions: none | simulcast (mid/rid/rrid) | a random subset of the usual URIs;
//   - Configuration: BundlePolicy, RTCPMuxPolicy;
//   - SettingEngine: a random subset of the switches that do not stop a loopback pair from connecting.
//
// c30Graft is the second half: it lets FOREIGN m-sections (browser literals, repository literals, generator offers,
// descriptions of differently configured pion peers) ride on the real offer of a live peer, so that the victim
// negotiates them on a pair that really connects and really runs its background work; the grafted sections are cut
// out of the victim's answer again before the live peer sees it.

import (
	"fmt"
	"sort"
	"strings"

	kit "github.com/pion/webrtc/v4/internal/verifkit"
)

type c30Profile struct {
	ME      string   `json:"media_engine"`
	Codecs  []string `json:"codecs"`
	HdrExt  []string `json:"header_extensions"`
	Bundle  string   `json:"bundle_policy"`
	RTCPMux string   `json:"rtcp_mux_policy"`
	SE      []string `json:"setting_engine"`

	video, audio []RTPCodecParameters
	bundle       BundlePolicy
	rtcpMux      RTCPMuxPolicy
}

// Key is a short stable name of the profile for evidence sets / case descriptions.
func (p *c30Profile) Key() string {
	if p == nil {
		return "default"
	}

	return fmt.Sprintf("%s/v%d/a%d/x%d/%s/%s/%s", p.ME, len(p.video), len(p.audio), len(p.HdrExt), p.Bundle, p.RTCPMux, strings.Join(p.SE, "+"))
}

func c30DefaultCodecs() (video, audio []RTPCodecParameters) {
	me := &MediaEngine{}
	if err := me.RegisterDefaultCodecs(); err != nil {
		panic(err)
	}

	return append([]RTPCodecParameters{}, me.videoCodecs...), append([]RTPCodecParameters{}, me.audioCodecs...)
}

func c30IsRTX(c RTPCodecParameters) bool { return strings.EqualFold(c.MimeType, MimeTypeRTX) }

// c30CodecPairs groups the default video codecs into (primary, its rtx).
func c30CodecPairs(video []RTPCodecParameters) [][2]*RTPCodecParameters {
	var out [][2]*RTPCodecParameters
	for i := range video {
		if c30IsRTX(video[i]) {
			continue
		}
		pair := [2]*RTPCodecParameters{&video[i], nil}
		want := fmt.Sprintf("apt=%d", video[i].PayloadType)
		for j := range video {
			if c30IsRTX(video[j]) && video[j].SDPFmtpLine == want {
				pair[1] = &video[j]
			}
		}
		out = append(out, pair)
	}

	return out
}

var c30ExtURIs = []string{ //nolint:gochecknoglobals
	c30URIMid, c30URIRid, c30URIRRid,
	"urn:ietf:params:rtp-hdrext:ssrc-audio-level",
	"http://www.ietf.org/id/draft-holmer-rmcat-transport-wide-cc-extensions-01",
	"http://www.webrtc.org/experiments/rtp-hdrext/abs-send-time",
	"urn:ietf:params:rtp-hdrext:toffset",
	"urn:3gpp:video-orientation",
	"http://www.webrtc.org/experiments/rtp-hdrext/playout-delay",
}

var c30SESwitches = []string{ //nolint:gochecknoglobals
	"no-srtp-replay-protection", "no-srtcp-replay-protection", "srtp-replay-window-1", "receive-mtu-small", "receive-mtu-large",
	"answering-dtls-client", "answering-dtls-server", "media-level-fingerprints", "no-media-engine-copy", "no-multiple-codecs",
	"dtls-skip-hello-verify", "sctp-zero-checksum", "ignore-rid-pause", "no-close-by-dtls", "undeclared-ssrc-without-answer",
	"ontrack-before-first-rtp", "ice-lite", "detach-data-channels", "sctp-max-message-size-small",
}

// c30GenProfile draws an application profile. A nil result is never returned; class "default" with no switches is
// one of the members.
func c30GenProfile(r *kit.Rand) *c30Profile { //nolint:cyclop,gocognit,gocyclo,maintidx
	p := &c30Profile{}
	dv, da := c30DefaultCodecs()
	pairs := c30CodecPairs(dv)
	opus := da[0]
	withRTX := func(pair [2]*RTPCodecParameters, rtx bool) []RTPCodecParameters {
		out := []RTPCodecParameters{*pair[0]}
		if rtx && pair[1] != nil {
			out = append(out, *pair[1])
		}

		return out
	}
	p.ME = kit.Pick(r, []string{
		"default", "audio-only", "audio-only", "video-only", "one-video", "one-video", "subset", "subset", "odd-pt", "odd-pt",
		"rtx-orphan", "disjoint", "disjoint", "empty",
	})
	switch p.ME {
	case "default":
		p.video, p.audio = dv, da
	case "audio-only":
		if r.Bool() {
			p.audio = []RTPCodecParameters{opus}
		} else {
			for _, c := range da {
				if r.Bool() {
					p.audio = append(p.audio, c)
				}
			}
			if len(p.audio) == 0 {
				p.audio = []RTPCodecParameters{kit.Pick(r, da)}
			}
		}
	case "video-only":
		if r.Bool() {
			p.video = dv
		} else {
			p.video = withRTX(kit.Pick(r, pairs), r.Bool())
		}
	case "one-video":
		p.video = withRTX(kit.Pick(r, pairs), r.Bool())
		if r.Chance(0.8) {
			p.audio = []RTPCodecParameters{kit.Pick(r, da)}
		}
	case "subset":
		for _, pair := range pairs {
			if r.Chance(0.3) {
				p.video = append(p.video, withRTX(pair, r.Chance(0.6))...)
			}
		}
		for _, c := range da {
			if r.Chance(0.4) {
				p.audio = append(p.audio, c)
			}
		}
	case "odd-pt":
		// the same codecs, on other payload types: shifted into the range other stacks use for something else, or
		// permuted among themselves (VP8 on the number the remote uses for H264, rtx on the number of a primary ...)
		p.video, p.audio = append([]RTPCodecParameters{}, dv...), append([]RTPCodecParameters{}, da...)
		remap := map[PayloadType]PayloadType{}
		var dyn []PayloadType
		for _, c := range append(append([]RTPCodecParameters{}, p.video...), p.audio...) {
			if c.PayloadType >= 35 {
				dyn = append(dyn, c.PayloadType)
			}
		}
		switch r.Intn(3) {
		case 0: // permutation of the dynamic numbers in use
			perm := append([]PayloadType{}, dyn...)
			kit.Shuffle(r, perm)
			for i, pt := range dyn {
				remap[pt] = perm[i]
			}
		case 1: // fresh numbers from the whole dynamic range
			pool := []PayloadType{}
			for pt := 35; pt <= 127; pt++ {
				if pt < 64 || pt > 95 {
					pool = append(pool, PayloadType(pt)) //nolint:gosec
				}
			}
			kit.Shuffle(r, pool)
			for i, pt := range dyn {
				remap[pt] = pool[i%len(pool)]
			}
		default: // rotate by one: every codec sits on its neighbour's number
			for i, pt := range dyn {
				remap[pt] = dyn[(i+1)%len(dyn)]
			}
		}
		fix := func(cs []RTPCodecParameters) {
			for i := range cs {
				if c30IsRTX(cs[i]) {
					var apt int
					if _, err := fmt.Sscanf(cs[i].SDPFmtpLine, "apt=%d", &apt); err == nil {
						if n, ok := remap[PayloadType(apt)]; ok { //nolint:gosec
							cs[i].SDPFmtpLine = fmt.Sprintf("apt=%d", n)
						}
					}
				}
				if n, ok := remap[cs[i].PayloadType]; ok {
					cs[i].PayloadType = n
				}
			}
		}
		fix(p.video)
		fix(p.audio)
		if r.Bool() { // and narrow as well
			keep := r.Range(1, 4)
			var nv []RTPCodecParameters
			for _, pair := range c30CodecPairs(p.video) {
				if keep > 0 && r.Bool() {
					nv = append(nv, withRTX(pair, r.Bool())...)
					keep--
				}
			}
			p.video = nv
		}
	case "rtx-orphan":
		// retransmission entries whose primary is missing, points elsewhere, or is an audio codec
		pair := kit.Pick(r, pairs)
		other := kit.Pick(r, pairs)
		p.audio = []RTPCodecParameters{opus}
		switch r.Intn(4) {
		case 0:
			if pair[1] != nil {
				p.video = []RTPCodecParameters{*pair[1]}
			}
		case 1:
			p.video = []RTPCodecParameters{*other[0]}
			if pair[1] != nil {
				p.video = append(p.video, *pair[1])
			}
		case 2:
			p.video = []RTPCodecParameters{*pair[0], {
				RTPCodecCapability: RTPCodecCapability{MimeType: MimeTypeRTX, ClockRate: 90000, SDPFmtpLine: fmt.Sprintf("apt=%d", opus.PayloadType)},
				PayloadType:        PayloadType(r.Range(35, 63)), //nolint:gosec
			}}
		default:
			p.video = []RTPCodecParameters{*pair[0], {
				RTPCodecCapability: RTPCodecCapability{MimeType: MimeTypeRTX, ClockRate: 90000, SDPFmtpLine: kit.Pick(r, []string{"", "apt=", "apt=x", "apt=300"})},
				PayloadType:        PayloadType(r.Range(35, 63)), //nolint:gosec
			}}
		}
	case "disjoint":
		// codecs that neither pion's defaults nor the corpus descriptions contain
		names := []string{"video/X-C30A", "video/H263-1998", "video/X-C30B", "video/theora"}
		kit.Shuffle(r, names)
		for i := 0; i < r.Range(0, 2); i++ {
			p.video = append(p.video, RTPCodecParameters{
				RTPCodecCapability: RTPCodecCapability{MimeType: names[i], ClockRate: 90000, RTCPFeedback: []RTCPFeedback{{Type: "nack"}}},
				PayloadType:        PayloadType(kit.Pick(r, []int{96, 97, 102, 120, 35, 126}) + i), //nolint:gosec
			})
		}
		if r.Chance(0.7) {
			p.audio = append(p.audio, RTPCodecParameters{
				RTPCodecCapability: RTPCodecCapability{MimeType: kit.Pick(r, []string{"audio/L16", "audio/X-C30", "audio/opus"}), ClockRate: kit.Pick(r, []uint32{44100, 16000, 8000}), Channels: uint16(r.Range(0, 2))}, //nolint:gosec
				PayloadType:        PayloadType(kit.Pick(r, []int{111, 110, 63, 9})), //nolint:gosec
			})
		}
	default: // empty: an application that only wants data channels
	}
	switch r.Intn(4) {
	case 0:
	case 1:
		p.HdrExt = []string{c30URIMid, c30URIRid, c30URIRRid}
	default:
		for _, u := range c30ExtURIs {
			if r.Chance(0.35) {
				p.HdrExt = append(p.HdrExt, u)
			}
		}
	}
	p.bundle = kit.Pick(r, []BundlePolicy{BundlePolicyBalanced, BundlePolicyBalanced, BundlePolicyMaxCompat, BundlePolicyMaxBundle})
	p.rtcpMux = kit.Pick(r, []RTCPMuxPolicy{RTCPMuxPolicyRequire, RTCPMuxPolicyRequire, RTCPMuxPolicyNegotiate})
	p.Bundle, p.RTCPMux = p.bundle.String(), p.rtcpMux.String()
	for n := kit.Pick(r, []int{0, 0, 1, 1, 2, 3, 5}); n > 0; n-- {
		s := kit.Pick(r, c30SESwitches)
		dup := false
		for _, x := range p.SE {
			dup = dup || x == s
		}
		if !dup {
			p.SE = append(p.SE, s)
		}
	}
	sort.Strings(p.SE)
	for _, c := range p.video {
		p.Codecs = append(p.Codecs, fmt.Sprintf("video %d %s/%d %s", c.PayloadType, c.MimeType, c.ClockRate, c.SDPFmtpLine))
	}
	for _, c := range p.audio {
		p.Codecs = append(p.Codecs, fmt.Sprintf("audio %d %s/%d/%d %s", c.PayloadType, c.MimeType, c.ClockRate, c.Channels, c.SDPFmtpLine))
	}

	return p
}

// mediaEngine builds the MediaEngine of the profile. Codecs the MediaEngine refuses to register are skipped (the
// profile then simply is narrower).
func (p *c30Profile) mediaEngine() *MediaEngine {
	me := &MediaEngine{}
	for _, c := range p.video {
		_ = me.RegisterCodec(c, RTPCodecTypeVideo)
	}
	for _, c := range p.audio {
		_ = me.RegisterCodec(c, RTPCodecTypeAudio)
	}
	for _, u := range p.HdrExt {
		if u != "urn:ietf:params:rtp-hdrext:ssrc-audio-level" {
			_ = me.RegisterHeaderExtension(RTPHeaderExtensionCapability{URI: u}, RTPCodecTypeVideo)
		}
		if u != "urn:3gpp:video-orientation" {
			_ = me.RegisterHeaderExtension(RTPHeaderExtensionCapability{URI: u}, RTPCodecTypeAudio)
		}
	}

	return me
}

func (p *c30Profile) settingEngine(se *SettingEngine) {
	for _, s := range p.SE {
		switch s {
		case "no-srtp-replay-protection":
			se.DisableSRTPReplayProtection(true)
		case "no-srtcp-replay-protection":
			se.DisableSRTCPReplayProtection(true)
		case "srtp-replay-window-1":
			se.SetSRTPReplayProtectionWindow(1)
			se.SetSRTCPReplayProtectionWindow(1)
		case "receive-mtu-small":
			se.SetReceiveMTU(1250) // below the usual 1460, above a DTLS handshake fragment
		case "receive-mtu-large":
			se.SetReceiveMTU(16384)
		case "answering-dtls-client":
			_ = se.SetAnsweringDTLSRole(DTLSRoleClient)
		case "answering-dtls-server":
			_ = se.SetAnsweringDTLSRole(DTLSRoleServer)
		case "media-level-fingerprints":
			se.SetSDPMediaLevelFingerprints(true)
		case "no-media-engine-copy":
			se.DisableMediaEngineCopy(true)
		case "no-multiple-codecs":
			se.DisableMediaEngineMultipleCodecs(true)
		case "dtls-skip-hello-verify":
			se.SetDTLSInsecureSkipHelloVerify(true)
		case "sctp-zero-checksum":
			se.EnableSCTPZeroChecksum(true)
		case "ignore-rid-pause":
			se.SetIgnoreRidPauseForRecv(true)
		case "no-close-by-dtls":
			se.DisableCloseByDTLS(true)
		case "undeclared-ssrc-without-answer":
			se.SetHandleUndeclaredSSRCWithoutAnswer(true)
		case "ontrack-before-first-rtp":
			se.SetFireOnTrackBeforeFirstRTP(true)
		case "ice-lite":
			se.SetLite(true)
		case "detach-data-channels":
			se.DetachDataChannels()
		case "sctp-max-message-size-small":
			se.SetSCTPMaxMessageSize(1200)
		default:
		}
	}
}

// trackCap returns the capability a local track of this application uses: the first primary codec it registered.
func (p *c30Profile) trackCap(kind RTPCodecType) (RTPCodecCapability, bool) {
	if p == nil {
		return RTPCodecCapability{}, false
	}
	list := p.video
	if kind == RTPCodecTypeAudio {
		list = p.audio
	}
	for _, c := range list {
		if !c30IsRTX(c) {
			return RTPCodecCapability{MimeType: c.MimeType, ClockRate: c.ClockRate, Channels: c.Channels, SDPFmtpLine: c.SDPFmtpLine}, true
		}
	}

	return RTPCodecCapability{}, false
}

// c30CommonCaps returns, per kind, the first primary codec of own (nil: default application) that other (nil:
// default application) registered too - nil when there is none.
func c30CommonCaps(own, other *c30Profile) map[RTPCodecType]*RTPCodecCapability {
	dv, da := c30DefaultCodecs()
	lists := func(p *c30Profile) map[RTPCodecType][]RTPCodecParameters {
		if p == nil {
			return map[RTPCodecType][]RTPCodecParameters{RTPCodecTypeVideo: dv, RTPCodecTypeAudio: da}
		}

		return map[RTPCodecType][]RTPCodecParameters{RTPCodecTypeVideo: p.video, RTPCodecTypeAudio: p.audio}
	}
	mine, theirs := lists(own), lists(other)
	out := map[RTPCodecType]*RTPCodecCapability{}
	for _, kind := range []RTPCodecType{RTPCodecTypeVideo, RTPCodecTypeAudio} {
		out[kind] = nil
		for _, c := range mine[kind] {
			if c30IsRTX(c) || out[kind] != nil {
				continue
			}
			for _, d := range theirs[kind] {
				if strings.EqualFold(c.MimeType, d.MimeType) && c.ClockRate == d.ClockRate && c.Channels == d.Channels && c.SDPFmtpLine == d.SDPFmtpLine {
					out[kind] = &RTPCodecCapability{MimeType: c.MimeType, ClockRate: c.ClockRate, Channels: c.Channels, SDPFmtpLine: c.SDPFmtpLine}

					break
				}
			}
		}
	}

	return out
}

// ---------------------------------------------------------------- grafting foreign m-sections onto a live offer

type c30Graft struct {
	Source string   `json:"source"`
	Mids   []string `json:"mids"`
	Kinds  []string `json:"kinds"`
	// Streams says per grafted section whether its stream announcement is the foreign stack's or was added
	Streams []string `json:"streams"`

	secs [][]string // grafted sections without transport lines; "\x00transport" marks where they go
}

func c30SplitSDP(text string) (session []string, secs [][]string) {
	lines := c30Lines(text)
	ms := c30MLineIdx(lines)
	if len(ms) == 0 {
		return lines, nil
	}
	session = lines[:ms[0]]
	for k := range ms {
		end := len(lines)
		if k+1 < len(ms) {
			end = ms[k+1]
		}
		secs = append(secs, lines[ms[k]:end])
	}

	return session, secs
}

func c30FirstWithPrefix(lines []string, p string) string {
	for _, ln := range lines {
		if strings.HasPrefix(ln, p) {
			return ln
		}
	}

	return ""
}

const c30TransportMark = "\x00transport"

// c30NewGraft picks 1-3 media sections of the foreign description for grafting onto descriptions of a live peer whose
// current offer is host. Everything that describes media (codecs, fmtp, feedback, header extensions, ssrc / ssrc-group
// / rid / simulcast / msid, direction) is kept as the foreign stack wrote it; the transport lines (ICE credentials,
// fingerprint, setup, candidates, connection address) are dropped - apply() puts the host's there, so that the bundle
// still describes ONE working transport. Grafted sections get fresh mids.
func c30NewGraft(r *kit.Rand, host, foreign, source string) *c30Graft { //nolint:cyclop
	_, hSecs := c30SplitSDP(host)
	_, fSecs := c30SplitSDP(foreign)
	var media [][]string
	for _, s := range fSecs {
		f := strings.Fields(s[0])
		if len(f) >= 4 && (f[0] == "m=audio" || f[0] == "m=video") {
			media = append(media, s)
		}
	}
	if len(hSecs) == 0 || len(media) == 0 {
		return nil
	}
	used := map[string]bool{}
	for _, s := range hSecs {
		if ln := c30FirstWithPrefix(s, "a=mid:"); ln != "" {
			used[ln[6:]] = true
		}
	}
	kit.Shuffle(r, media)
	if r.Chance(0.7) {
		// sections that announce streams (ssrc / rid) first: they are the ones background work is started for
		sort.SliceStable(media, func(i, j int) bool {
			di := c30FirstWithPrefix(media[i], "a=ssrc") != "" || c30FirstWithPrefix(media[i], "a=rid") != ""
			dj := c30FirstWithPrefix(media[j], "a=ssrc") != "" || c30FirstWithPrefix(media[j], "a=rid") != ""

			return di && !dj
		})
	}
	n := r.Range(1, 3)
	if n > len(media) {
		n = len(media)
	}
	g := &c30Graft{Source: source}
	style := r.Intn(3)
	for k := 0; k < n; k++ {
		var mid string
		for try := 0; ; try++ {
			switch style {
			case 0:
				mid = fmt.Sprint(len(hSecs) + k + try)
			case 1:
				mid = fmt.Sprintf("g%d", k+try)
			default:
				mid = kit.Pick(r, []string{"video", "audio", "cam", "screen", "x-" + fmt.Sprint(r.Intn(1000))}) + strings.Repeat("_", try)
			}
			if !used[mid] {
				break
			}
		}
		used[mid] = true
		sec := media[k]
		f := strings.Fields(sec[0])
		if f[1] == "0" && r.Chance(0.8) {
			f[1] = "9"
		}
		res := []string{strings.Join(f, " ")}
		placed := false
		for _, ln := range sec[1:] {
			switch {
			case strings.HasPrefix(ln, "a=ice-ufrag"), strings.HasPrefix(ln, "a=ice-pwd"), strings.HasPrefix(ln, "a=fingerprint"),
				strings.HasPrefix(ln, "a=setup"), strings.HasPrefix(ln, "a=candidate"), strings.HasPrefix(ln, "a=end-of-candidates"),
				strings.HasPrefix(ln, "a=ice-options"), strings.HasPrefix(ln, "a=mid"), strings.HasPrefix(ln, "a=bundle-only"):
				continue
			case strings.HasPrefix(ln, "c="):
				res = append(res, "c=IN IP4 0.0.0.0")
			default:
				res = append(res, ln)
			}
			if !placed && (strings.HasPrefix(ln, "c=") || strings.HasPrefix(ln, "a=")) {
				res = append(res, "a=mid:"+mid, c30TransportMark)
				placed = true
			}
		}
		if !placed {
			res = append(res, "a=mid:"+mid, c30TransportMark)
		}
		decl := "as-written"
		if c30FirstWithPrefix(res, "a=ssrc") == "" && c30FirstWithPrefix(res, "a=rid") == "" && r.Chance(0.65) {
			// many corpus literals stop at the codec lines: let the section announce streams the way senders do, so that
			// receivers are really started for it (primary only | primary + repair flow | two tracks | rid layers)
			p1 := uint32(r.Range(1, 1<<31)) //nolint:gosec
			msid := fmt.Sprintf("graft%d track%d", k, k)
			ssrcLines := func(x uint32, id string) []string {
				return []string{fmt.Sprintf("a=ssrc:%d cname:graft", x), fmt.Sprintf("a=ssrc:%d msid:%s", x, id)}
			}
			switch r.Intn(5) {
			case 0:
				decl = "ssrc"
				res = append(res, ssrcLines(p1, msid)...)
			case 1, 2:
				decl = "ssrc+fid"
				res = append(res, fmt.Sprintf("a=ssrc-group:FID %d %d", p1, p1+1))
				res = append(res, ssrcLines(p1, msid)...)
				res = append(res, ssrcLines(p1+1, msid)...)
			case 3:
				decl = "two-tracks"
				res = append(res, ssrcLines(p1, msid)...)
				res = append(res, ssrcLines(p1+7, "graftB trackB")...)
			default:
				decl = "rid"
				res = append(res, "a=msid:"+msid, "a=rid:q send", "a=rid:h send", "a=simulcast:send q;h")
			}
			for j, ln := range res {
				if (ln == "a=recvonly" || ln == "a=inactive") && r.Chance(0.7) {
					res[j] = kit.Pick(r, []string{"a=sendrecv", "a=sendonly"})
				}
			}
		}
		g.secs = append(g.secs, res)
		g.Mids = append(g.Mids, mid)
		g.Kinds = append(g.Kinds, strings.TrimPrefix(f[0], "m="))
		g.Streams = append(g.Streams, decl)
	}

	return g
}

// apply appends the grafted sections to host (a complete description of the live peer), with the host's transport
// lines, and adds their mids to the BUNDLE group.
func (g *c30Graft) apply(host string) string {
	hSession, hSecs := c30SplitSDP(host)
	if g == nil || len(hSecs) == 0 {
		return host
	}
	all := append(append([]string{}, hSession...), hSecs[0]...)
	transport := []string{}
	for _, p := range []string{"a=ice-ufrag:", "a=ice-pwd:", "a=fingerprint:", "a=setup:"} {
		if ln := c30FirstWithPrefix(all, p); ln != "" {
			transport = append(transport, ln)
		}
	}
	out := append([]string{}, hSession...)
	for _, s := range hSecs {
		out = append(out, s...)
	}
	for _, sec := range g.secs {
		for _, ln := range sec {
			if ln == c30TransportMark {
				out = append(out, transport...)
			} else {
				out = append(out, ln)
			}
		}
	}
	for i, ln := range out {
		if strings.HasPrefix(ln, "a=group:BUNDLE") {
			out[i] = ln + " " + strings.Join(g.Mids, " ")

			break
		}
	}

	return strings.Join(out, "\r\n") + "\r\n"
}

// c30StripSections removes the sections with the given mids (and their BUNDLE membership) from a description: what the
// live peer gets back is an answer to the offer it really made.
func c30StripSections(text string, mids []string) string {
	drop := map[string]bool{}
	for _, m := range mids {
		drop[m] = true
	}
	session, secs := c30SplitSDP(text)
	var out []string
	for _, ln := range session {
		if strings.HasPrefix(ln, "a=group:BUNDLE") {
			var keep []string
			for _, m := range strings.Fields(ln[len("a=group:BUNDLE"):]) {
				if !drop[m] {
					keep = append(keep, m)
				}
			}
			ln = strings.TrimRight("a=group:BUNDLE "+strings.Join(keep, " "), " ")
		}
		out = append(out, ln)
	}
	for _, s := range secs {
		if ln := c30FirstWithPrefix(s, "a=mid:"); ln != "" && drop[ln[6:]] {
			continue
		}
		out = append(out, s...)
	}

	return strings.Join(out, "\r\n") + "\r\n"
}

// c30NegotiationFacts looks at what the victim answered to what it was offered (line-oriented view, independent of
// pion's helpers) and names the codec-negotiation situations that occurred: these are the evidence that the
// configuration dimension really produced "nothing in common" / "partly in common" outcomes on sending sections that
// announce SSRCs.
func c30NegotiationFacts(offer, answer string) []string {
	po, e1 := kit.ParseSDP(offer)
	pa, e2 := kit.ParseSDP(answer)
	if e1 != nil || e2 != nil {
		return nil
	}
	var out []string
	for i, mo := range po.Media {
		if i >= len(pa.Media) || (mo.Kind != "audio" && mo.Kind != "video") {
			continue
		}
		ma := pa.Media[i]
		sending := true
		for _, d := range mo.Directions() {
			if d == "recvonly" || d == "inactive" {
				sending = false
			}
		}
		ssrc := len(mo.AttrAll("ssrc")) > 0
		fid := false
		for _, g := range mo.AttrAll("ssrc-group") {
			fid = fid || strings.HasPrefix(g, "FID ")
		}
		rid := len(mo.AttrAll("rid")) > 0
		state := "accepted"
		switch {
		case ma.Rejected():
			state = "rejected"
		case len(ma.RtpMaps()) < len(mo.RtpMaps()):
			state = "accepted-narrowed"
		}
		decl := "no-ssrc"
		switch {
		case fid:
			decl = "ssrc+fid"
		case ssrc:
			decl = "ssrc"
		case rid:
			decl = "rid"
		}
		dir := "sending"
		if !sending {
			dir = "not-sending"
		}
		out = append(out, fmt.Sprintf("%s:%s:%s:%s", mo.Kind, state, dir, decl))
	}

	return out
}
