package webrtc

// C06 — generated descriptions have unique mids and a correct BUNDLE group.
//
// Oracle (kit.ParseSDP only, no webrtc/pion-sdp helper): for EVERY description returned by CreateOffer/CreateAnswer
// in a history (both peers when the remote side is a pion PeerConnection):
//   - it parses (v=/o= present, m= lines well formed, numeric port);
//   - no two m-sections carry the same a=mid; an accepted (port != 0) section has a mid;
//   - the (single) a=group:BUNDLE line lists exactly the mids of the accepted sections, each once (an absent group is
//     read as the empty list, so it is only legal when no section is accepted);
//   - each accepted section has ice-ufrag + ice-pwd, a setup attribute and a fingerprint at media or session level
//     and exactly one direction attribute.
//
// Workload: seeded histories in two modes.
//   pair: two pion PeerConnections, 2..5 rounds with a random offerer per round, random local operations in between;
//   (pair: with p=0.3 the offer reaches the answerer in max-bundle browser form: bundled sections after the first are
//         port 0 + a=bundle-only, still listed in the group; gen: the same class for any section kind, p=0.35)
//   gen : a foreign (generator) offer with dense / sparse / non-numeric / mixed mids is applied and answered, then
//         local transceivers / tracks / data channels are added and CreateOffer is called; optionally the offer is
//         answered by a mirrored foreign answer and a second round of additions + CreateOffer follows.

import (
	"fmt"
	"os"
	"sort"
	"strconv"
	"strings"
	"testing"
	"time"

	kit "github.com/pion/webrtc/v4/internal/verifkit"
)

type c06Peer struct {
	name         string
	pc           *PeerConnection
	sem          SDPSemantics
	hadRemoteOff bool
	nTracks      int
}

type c06Hist struct {
	run  *kit.Run
	idx  int
	r    *kit.Rand
	ops  []string
	cfg  string
	mode string

	remoteTexts     []string          // remote descriptions applied from the generator (for the replay file)
	remoteNonDense  bool              // some applied remote description had mids other than "0".."n-1"
	remoteDropped   bool              // some applied foreign offer had a section pion may not mirror in its answer (unknown kind / no direction)
	addAfterRemote  bool              // a local addition happened on a peer that had already applied a remote offer
	bundleOnly      map[string]string // mid -> kind of the port-0 sections LISTED IN BUNDLE of the remote offer being answered
	maxSections     int
	descsChecked    int
	violationsFound int
	aborted         bool
}

func (h *c06Hist) logf(f string, a ...any) {
	h.ops = append(h.ops, fmt.Sprintf(f, a...))
	if c06Trace {
		fmt.Printf("T %d %s\n", h.idx, h.ops[len(h.ops)-1])
	}
}

var c06Trace = os.Getenv("C06_TRACE") != "" //nolint:gochecknoglobals

func c06Short(err error) string {
	s := err.Error()
	for i, c := range s {
		if c >= '0' && c <= '9' && i > 12 {
			s = s[:i]

			break
		}
	}
	if len(s) > 70 {
		s = s[:70]
	}

	return s
}

func (h *c06Hist) apiErr(where string, err error) {
	h.logf("%s -> error %v", where, err)
	h.run.Seen("api_error", where+": "+c06Short(err))
}

func c06Dense(mids []string) bool {
	for i, m := range mids {
		if m != strconv.Itoa(i) {
			return false
		}
	}

	return true
}

func c06Mids(d *kit.SDPDesc) []string {
	out := make([]string, 0, len(d.Media))
	for _, m := range d.Media {
		v, _ := m.Mid()
		out = append(out, v)
	}

	return out
}

func c06Summary(d *kit.SDPDesc) string {
	parts := make([]string, 0, len(d.Media))
	for _, m := range d.Media {
		mid, ok := m.Mid()
		if !ok {
			mid = "<none>"
		}
		parts = append(parts, fmt.Sprintf("%s:%s:%s", m.Kind, mid, m.Port))
	}
	b, ok := d.BundleMids()
	bs := "BUNDLE<absent>"
	if ok {
		bs = "BUNDLE " + strings.Join(b, " ")
	}

	return strings.Join(parts, " ") + " | " + bs
}

func (h *c06Hist) violation(sig, what, who, typ, text string) {
	h.violationsFound++
	h.run.Violation(sig, fmt.Sprintf("%s %s of %s [%s]: %s", h.mode, typ, who, h.cfg, what), h.idx, map[string]any{
		"config": h.cfg, "mode": h.mode, "ops": h.ops, "who": who, "type": typ, "description": text,
		"foreign_descriptions_applied": h.remoteTexts,
	})
}

// check is the C06 oracle for one generated description.
func (h *c06Hist) check(who, typ, text string) { //nolint:gocognit,cyclop
	h.descsChecked++
	h.run.Count("descriptions_"+typ, 1)
	d, err := kit.ParseSDP(text)
	if err != nil {
		h.violation("unparsable", err.Error(), who, typ, text)

		return
	}
	for _, m := range d.Media {
		if _, perr := strconv.ParseUint(strings.SplitN(m.Port, "/", 2)[0], 10, 16); perr != nil {
			h.violation("unparsable:port", fmt.Sprintf("m= line with port %q", m.Port), who, typ, text)

			return
		}
	}
	sum := c06Summary(d)
	h.logf("  %s.%s => %s", who, typ, sum)
	if len(d.Media) > h.maxSections {
		h.maxSections = len(d.Media)
	}
	h.run.Seen("section_count", fmt.Sprintf("%02d", len(d.Media)))

	// --- mids
	byMid := map[string][]int{}
	var accepted []string
	nAccepted := 0
	for i, m := range d.Media {
		mid, ok := m.Mid()
		if m.Rejected() {
			h.run.Count("rejected_sections", 1)
		} else {
			nAccepted++
			h.run.Count("accepted_sections", 1)
		}
		if !ok || mid == "" {
			if m.Rejected() {
				// the statement's "each m-section has a mid" read strictly would flag this; pion emits rejected
				// no-codec sections without any attribute (reported under C07) — counted, not flagged here.
				h.run.Count("model_divergence", 1)
				h.run.Count("rejected_section_without_mid", 1)
			} else {
				h.violation("missing-mid:accepted-section", fmt.Sprintf("section %d (%s) has no mid: %s", i, m.Kind, sum), who, typ, text)
			}

			continue
		}
		byMid[mid] = append(byMid[mid], i)
		if !m.Rejected() {
			accepted = append(accepted, mid)
		}
	}
	dup := false
	dupMids := make([]string, 0, 1)
	for mid, idxs := range byMid {
		if len(idxs) > 1 {
			dupMids = append(dupMids, mid)
		}
	}
	sort.Strings(dupMids)
	for _, mid := range dupMids {
		dup = true
		idxs := byMid[mid]
		kinds := make([]string, 0, len(idxs))
		app := -1
		for _, i := range idxs {
			kinds = append(kinds, d.Media[i].Kind)
			if d.Media[i].Kind == "application" {
				app = i
			}
		}
		var sig string
		switch {
		case app >= 0 && mid == "data":
			sig = "mid-collision:planb-data-vs-media-mid-named-data"
		case app >= 0 && mid == strconv.Itoa(app):
			// the application mid equals the number of sections before it: derived from a section count
			switch {
			case h.remoteNonDense:
				sig = "mid-collision:data-vs-media-after-sparse-remote-mids"
			case h.remoteDropped:
				sig = "mid-collision:data-vs-media-after-unmirrored-remote-section"
			default:
				sig = "mid-collision:data-vs-media"
			}
		case app >= 0:
			sig = "mid-collision:data-vs-media:other"
		default:
			sig = "mid-collision:media-vs-media"
		}
		h.violation(sig, fmt.Sprintf("mid %q is shared by sections %v (%s): %s", mid, idxs, strings.Join(kinds, ","), sum), who, typ, text)
	}

	if typ == "answer" && len(h.bundleOnly) > 0 {
		for mid, kind := range h.bundleOnly {
			if idxs := byMid[mid]; len(idxs) == 1 {
				if d.Media[idxs[0]].Rejected() {
					h.run.Count("offered_bundle_only_answered_rejected:"+kind, 1)
				} else {
					h.run.Count("offered_bundle_only_answered_accepted:"+kind, 1)
				}
			}
		}
	}

	// --- BUNDLE
	nGroups := 0
	for _, g := range d.AttrAll("group") {
		if f := strings.Fields(g); len(f) > 0 && f[0] == "BUNDLE" {
			nGroups++
		}
	}
	bundle, has := d.BundleMids()
	if !has {
		h.run.Count("bundle_absent", 1)
	}
	if nAccepted == 0 {
		h.run.Count("descriptions_without_accepted_section", 1)
	}
	switch {
	case dup:
		// the BUNDLE list necessarily repeats the collided mid; one cause, one signature
		h.run.Count("bundle_check_skipped_duplicate_mid", 1)
	case nGroups > 1:
		h.violation("bundle:multiple-groups", fmt.Sprintf("%d BUNDLE groups: %s", nGroups, sum), who, typ, text)
	default:
		want := append([]string{}, accepted...)
		got := append([]string{}, bundle...)
		if strings.Join(want, " ") != strings.Join(got, " ") {
			sort.Strings(want)
			sort.Strings(got)
			if strings.Join(want, " ") == strings.Join(got, " ") {
				h.run.Count("model_divergence", 1) // same multiset, other order: the statement does not fix the order
				h.run.Count("bundle_order_differs", 1)
			} else {
				seen := map[string]int{}
				for _, g := range bundle {
					seen[g]++
				}
				sig := "bundle:not-the-accepted-mids"
				acc := map[string]bool{}
				for _, a := range accepted {
					acc[a] = true
				}
				for g, n := range seen {
					if n > 1 {
						sig = "bundle:mid-listed-twice"
					}
					if !acc[g] && sig != "bundle:mid-listed-twice" {
						sig = "bundle:lists-non-accepted-mid"
					}
				}
				if sig == "bundle:lists-non-accepted-mid" && typ == "answer" {
					// name the cause: the listed mid belongs to a section of THIS answer that is rejected (port 0) although the
					// offer had it as a zero-port section listed in the group (bundle-only), i.e. the answer copied the port
					// but kept the group membership
					var kinds []string
					for g := range seen {
						if k, ok := h.bundleOnly[g]; ok && !acc[g] && len(byMid[g]) == 1 && d.Media[byMid[g][0]].Rejected() {
							kinds = append(kinds, k)
						}
					}
					if len(kinds) > 0 {
						sort.Strings(kinds)
						sig = "bundle:lists-rejected-mid-of-offered-bundle-only-section:" + kinds[0]
					}
				}
				if sig == "bundle:not-the-accepted-mids" && !has {
					sig = "bundle:absent-with-accepted-sections"
				} else if sig == "bundle:not-the-accepted-mids" {
					sig = "bundle:omits-accepted-mid"
				}
				h.violation(sig, fmt.Sprintf("BUNDLE %v but accepted mids %v: %s", bundle, accepted, sum), who, typ, text)
			}
		}
	}

	// --- per accepted section
	for i, m := range d.Media {
		if m.Rejected() {
			continue
		}
		has2 := func(key string) bool {
			if v, ok := m.Attr(key); ok && v != "" {
				return true
			}
			v, ok := d.Attr(key)

			return ok && v != ""
		}
		if !has2("ice-ufrag") || !has2("ice-pwd") {
			h.violation("no-ice-credentials:"+m.Kind, fmt.Sprintf("accepted section %d lacks ice-ufrag/ice-pwd: %s", i, sum), who, typ, text)
		}
		if !has2("setup") {
			h.violation("no-setup:"+m.Kind, fmt.Sprintf("accepted section %d lacks a=setup: %s", i, sum), who, typ, text)
		}
		if !has2("fingerprint") {
			h.violation("no-fingerprint:"+m.Kind, fmt.Sprintf("accepted section %d has no fingerprint at either level: %s", i, sum), who, typ, text)
		}
		if _, ok := m.Attr("fingerprint"); ok {
			h.run.Count("media_level_fingerprint_sections", 1)
		}
		if n := len(m.Directions()); n != 1 {
			h.violation(fmt.Sprintf("direction-count:%s:%d", m.Kind, n),
				fmt.Sprintf("accepted section %d (%s) has %d direction attributes %v: %s", i, m.Kind, n, m.Directions(), sum), who, typ, text)
		}
		h.run.Seen("accepted_kind", m.Kind)
	}
}

// ---------------------------------------------------------------- local operations

func c06Track(p *c06Peer, kind RTPCodecType) TrackLocal {
	mime := MimeTypeVP8
	if kind == RTPCodecTypeAudio {
		mime = MimeTypeOpus
	}
	p.nTracks++
	t, err := NewTrackLocalStaticRTP(RTPCodecCapability{MimeType: mime}, fmt.Sprintf("%s-t%d", p.name, p.nTracks), "s-"+p.name)
	if err != nil {
		panic(err)
	}

	return t
}

// localOp applies one random API operation to p. addBias raises the share of additions.
func (h *c06Hist) localOp(p *c06Peer, addBias bool) { //nolint:cyclop
	r := h.r
	pc := p.pc
	kind := kit.Pick(r, []RTPCodecType{RTPCodecTypeAudio, RTPCodecTypeVideo})
	op := r.Intn(10)
	if addBias && op >= 6 && op <= 7 {
		op = r.Intn(6)
	}
	if len(pc.GetTransceivers()) >= 7 && op <= 5 {
		op = 8
	}
	added := false
	switch op {
	case 0, 1:
		dir := kit.Pick(r, []RTPTransceiverDirection{
			RTPTransceiverDirectionSendrecv, RTPTransceiverDirectionSendrecv, RTPTransceiverDirectionSendonly, RTPTransceiverDirectionSendonly,
			RTPTransceiverDirectionRecvonly, RTPTransceiverDirectionRecvonly, RTPTransceiverDirectionRecvonly, RTPTransceiverDirectionInactive,
		})
		_, err := pc.AddTransceiverFromKind(kind, RTPTransceiverInit{Direction: dir})
		h.logf("%s.AddTransceiverFromKind(%s,%s)", p.name, kind, dir)
		if err != nil {
			h.apiErr("AddTransceiverFromKind", err)
		} else {
			added = true
		}
	case 2:
		dir := kit.Pick(r, []RTPTransceiverDirection{RTPTransceiverDirectionSendrecv, RTPTransceiverDirectionSendonly})
		_, err := pc.AddTransceiverFromTrack(c06Track(p, kind), RTPTransceiverInit{Direction: dir})
		h.logf("%s.AddTransceiverFromTrack(%s,%s)", p.name, kind, dir)
		if err != nil {
			h.apiErr("AddTransceiverFromTrack", err)
		} else {
			added = true
		}
	case 3, 4, 5:
		if op == 5 && !addBias {
			_, err := pc.AddTransceiverFromKind(kind)
			h.logf("%s.AddTransceiverFromKind(%s)", p.name, kind)
			if err != nil {
				h.apiErr("AddTransceiverFromKind", err)
			} else {
				added = true
			}

			break
		}
		_, err := pc.AddTrack(c06Track(p, kind))
		h.logf("%s.AddTrack(%s)", p.name, kind)
		if err != nil {
			h.apiErr("AddTrack", err)
		} else {
			added = true
		}
	case 6:
		var senders []*RTPSender
		for _, s := range pc.GetSenders() {
			if s.Track() != nil {
				senders = append(senders, s)
			}
		}
		if len(senders) == 0 {
			return
		}
		k := r.Intn(len(senders))
		h.logf("%s.RemoveTrack(sender#%d)", p.name, k)
		if err := pc.RemoveTrack(senders[k]); err != nil {
			h.apiErr("RemoveTrack", err)
		}
		h.run.Count("op_remove_track", 1)
	case 7:
		ts := pc.GetTransceivers()
		if len(ts) == 0 {
			return
		}
		k := r.Intn(len(ts))
		h.logf("%s.transceiver[%d].Stop() (mid %q)", p.name, k, ts[k].Mid())
		if err := ts[k].Stop(); err != nil {
			h.apiErr("Stop", err)
		}
		h.run.Count("op_stop", 1)
	default:
		_, err := pc.CreateDataChannel(fmt.Sprintf("dc%d", r.Intn(1000)), nil)
		h.logf("%s.CreateDataChannel", p.name)
		if err != nil {
			h.apiErr("CreateDataChannel", err)
		} else {
			added = true
			h.run.Count("op_data_channel", 1)
		}
	}
	if added {
		h.run.Count("op_additions", 1)
		if p.hadRemoteOff {
			h.addAfterRemote = true
		}
	}
}

// ---------------------------------------------------------------- pair mode

func (h *c06Hist) gather(p *c06Peer) bool {
	if rigGatherDone(p.pc, 15*time.Second) {
		return true
	}
	h.run.Inconclusive("gathering watchdog")
	h.aborted = true

	return false
}

// exchange runs one full offer/answer round and checks both generated descriptions.
func (h *c06Hist) exchange(off, ans *c06Peer) bool {
	h.logf("round: %s offers", off.name)
	offer, err := off.pc.CreateOffer(nil)
	if err != nil {
		h.apiErr("CreateOffer", err)

		return false
	}
	h.check(off.name, "offer", offer.SDP)
	if err = off.pc.SetLocalDescription(offer); err != nil {
		h.apiErr("SetLocalDescription(offer)", err)

		return false
	}
	if !h.gather(off) {
		return false
	}
	remote := *off.pc.LocalDescription()
	h.bundleOnly = nil
	if h.r.Chance(0.3) {
		// the offer as a max-bundle browser would send it: bundled sections after the tagged one are bundle-only
		if text, bo := c06MakeBundleOnly(h.r, remote.SDP); len(bo) > 0 {
			remote.SDP = text
			h.bundleOnly = bo
			h.remoteTexts = append(h.remoteTexts, text)
			h.logf("offer rewritten in transit: bundle-only sections %v", c06SortedKV(bo))
			h.run.Count("pair_offers_with_bundle_only_sections", 1)
			for _, k := range bo {
				h.run.Count("bundle_only_sections_offered:"+k, 1)
			}
		}
	}
	if err = ans.pc.SetRemoteDescription(remote); err != nil {
		h.apiErr("SetRemoteDescription(offer)", err)

		return false
	}
	ans.hadRemoteOff = true
	if d, perr := kit.ParseSDP(off.pc.LocalDescription().SDP); perr == nil && !c06Dense(c06Mids(d)) {
		h.remoteNonDense = true
	}
	answer, err := ans.pc.CreateAnswer(nil)
	if err != nil {
		h.apiErr("CreateAnswer", err)

		return false
	}
	h.check(ans.name, "answer", answer.SDP)
	if err = ans.pc.SetLocalDescription(answer); err != nil {
		h.apiErr("SetLocalDescription(answer)", err)

		return false
	}
	if !h.gather(ans) {
		return false
	}
	if err = off.pc.SetRemoteDescription(*ans.pc.LocalDescription()); err != nil {
		h.apiErr("SetRemoteDescription(answer)", err)

		return false
	}
	h.run.Count("pair_rounds_completed", 1)

	return true
}

func c06SortedKV(m map[string]string) []string {
	out := make([]string, 0, len(m))
	for k, v := range m {
		out = append(out, k+"="+v)
	}
	sort.Strings(out)

	return out
}

// c06MakeBundleOnly rewrites an offer text so that a random non-empty subset of the sections listed in a=group:BUNDLE,
// except the first listed one (the offerer-tagged section keeps its port, RFC 8843), is offered as bundle-only:
// port 0 + a=bundle-only, mid still listed in the group. Returns mid -> kind of the rewritten sections.
func c06MakeBundleOnly(r *kit.Rand, text string) (string, map[string]string) {
	session, sections := rigSplitSections(text)
	inGroup := map[string]bool{}
	for _, ln := range session {
		if strings.HasPrefix(ln, "a=group:BUNDLE") {
			for _, m := range strings.Fields(ln)[1:] {
				inGroup[m] = true
			}
		}
	}
	var cand []int
	tagged := false
	for i, sec := range sections {
		f := strings.Fields(sec[0])
		if len(f) < 2 || f[1] == "0" {
			continue
		}
		mid := ""
		for _, ln := range sec {
			if strings.HasPrefix(ln, "a=mid:") {
				mid = strings.TrimPrefix(ln, "a=mid:")
			}
		}
		if !inGroup[mid] {
			continue
		}
		if !tagged {
			tagged = true

			continue
		}
		cand = append(cand, i)
	}
	if len(cand) == 0 {
		return text, nil
	}
	must := cand[r.Intn(len(cand))]
	out := map[string]string{}
	for _, i := range cand {
		if i != must && !r.Chance(0.5) {
			continue
		}
		f := strings.Fields(sections[i][0])
		f[1] = "0"
		sections[i][0] = strings.Join(f, " ")
		sections[i] = append(sections[i], "a=bundle-only")
		for _, ln := range sections[i] {
			if strings.HasPrefix(ln, "a=mid:") {
				out[strings.TrimPrefix(ln, "a=mid:")] = strings.TrimPrefix(f[0], "m=")
			}
		}
	}

	return rigJoinSections(session, sections), out
}

// ---------------------------------------------------------------- gen mode

// c06PlanBify rewrites a generator offer into Plan-B shape: one section per kind with mids audio / video / data.
func c06PlanBify(r *kit.Rand, g *genSDP) {
	seen := map[string]bool{}
	var keep []*genMedia
	for _, m := range g.Media {
		if seen[m.Kind] || (m.Kind != "audio" && m.Kind != "video" && m.Kind != "application") {
			continue
		}
		seen[m.Kind] = true
		switch m.Kind {
		case "application":
			m.Mid = "data"
		default:
			m.Mid = m.Kind
			if len(m.SSRCs) > 0 && r.Bool() {
				// a second track in the same section: the Plan-B signature
				s := m.SSRCs[0] + 7777
				m.Extra = append(m.Extra, fmt.Sprintf("a=ssrc:%d cname:gen", s), fmt.Sprintf("a=ssrc:%d msid:gstreamX gtrackX%s", s, m.Kind))
			}
		}
		keep = append(keep, m)
	}
	g.Media = keep
}

// c06MirrorAnswer turns a pion offer into a receive-only foreign answer (text level, independent of pion's builders).
func c06MirrorAnswer(offer string, n int) string {
	return rigMapLines(offer, func(ln string) []string {
		switch {
		case strings.HasPrefix(ln, "o="):
			return []string{fmt.Sprintf("o=- 7770%d %d IN IP4 127.0.0.1", n, n+2)}
		case strings.HasPrefix(ln, "a=setup:"):
			return []string{"a=setup:active"}
		case strings.HasPrefix(ln, "a=ice-ufrag:"):
			return []string{"a=ice-ufrag:mirrorUfrag"}
		case strings.HasPrefix(ln, "a=ice-pwd:"):
			return []string{"a=ice-pwd:mirrorPasswordmirrorPassword00"}
		case strings.HasPrefix(ln, "a=fingerprint:"):
			return []string{"a=fingerprint:" + genFingerprint}
		case strings.HasPrefix(ln, "a=candidate:"), strings.HasPrefix(ln, "a=end-of-candidates"),
			strings.HasPrefix(ln, "a=ssrc"), strings.HasPrefix(ln, "a=msid:"), strings.HasPrefix(ln, "a=rid:"),
			strings.HasPrefix(ln, "a=simulcast:"), strings.HasPrefix(ln, "a=sctp-init:"):
			return nil
		case ln == "a=sendrecv", ln == "a=sendonly":
			return []string{"a=recvonly"}
		case ln == "a=recvonly":
			return []string{"a=inactive"}
		}

		return []string{ln}
	})
}

func (h *c06Hist) runGen(p *c06Peer, midStyle int) { //nolint:cyclop
	r := h.r
	// optional local state before the remote offer
	for k := r.Intn(3); k > 0; k-- {
		h.localOp(p, true)
	}
	o := genOpts{
		MaxSections: r.Range(1, 6), MidStyle: midStyle, Unknown: r.Bool(), AbsentDir: r.Chance(0.3), PTRemap: r.Chance(0.3),
		ExtPermute: r.Bool(), NoBundle: r.Chance(0.3), RejectedOK: r.Chance(0.4), MediaLevelSec: r.Chance(0.4),
	}
	g := genRandomOffer(r, o)
	if r.Chance(0.2) && len(g.Media) >= 2 {
		// directed class: a section without a local transceiver (application / unknown kind) offered with port 0
		// (rejected, or bundle-only as browsers send it under max-bundle) that holds the greatest numeric mid
		last := g.Media[len(g.Media)-1]
		if last.Kind == "audio" || last.Kind == "video" {
			last.Kind, last.Proto, last.SCTPPort, last.Dir, last.Codecs, last.Exts, last.Msid, last.SSRCs = "application", "UDP/DTLS/SCTP", 5000, "", nil, nil, "", nil
			for _, m := range g.Media[:len(g.Media)-1] {
				if m.Kind == "application" {
					last.Kind, last.Proto = "text", "UDP/TLS/RTP/SAVPF"
					last.Codecs = []genCodec{{98, "t140", 1000, 0, "", nil}}
				}
			}
		}
		last.Port = 0
		if r.Bool() {
			last.Extra = append(last.Extra, "a=bundle-only")
		}
		h.run.Count("gen_offers_last_section_port0_without_transceiver", 1)
	}
	planB := false
	if p.sem != SDPSemanticsUnifiedPlan && r.Chance(0.6) {
		c06PlanBify(r, g)
		planB = true
	}
	if len(g.Media) == 0 {
		h.logf("generator offer became empty")

		return
	}
	h.bundleOnly = nil
	if g.Bundle && len(g.Media) >= 2 && r.Chance(0.35) {
		// class: zero-port sections that ARE listed in the BUNDLE group. The first listed section keeps its port (offerer
		// tagged); of the later sections with a mid (any kind: audio / video / application / unknown, accepted so far or
		// already port 0) a random non-empty subset is offered with port 0 and listed in the group, with a=bundle-only
		// (RFC 8843, what browsers send under max-bundle) or, rarely, without it (a sloppy foreign offerer).
		var listed []string
		var cand []*genMedia
		for _, m := range g.Media {
			if m.NoMid {
				continue
			}
			if len(listed) == 0 && len(cand) == 0 {
				if m.Port != 0 {
					listed = append(listed, m.Mid)
				}

				continue
			}
			cand = append(cand, m)
		}
		if len(listed) == 1 && len(cand) > 0 {
			must := cand[r.Intn(len(cand))]
			bo := map[string]string{}
			for _, m := range cand {
				switch {
				case m == must || r.Chance(0.5):
					hasAttr := false
					for _, e := range m.Extra {
						hasAttr = hasAttr || e == "a=bundle-only"
					}
					m.Port = 0
					if !hasAttr && !r.Chance(0.15) {
						m.Extra = append(m.Extra, "a=bundle-only")
						hasAttr = true
					}
					if !hasAttr {
						h.run.Count("zero_port_sections_listed_in_group_without_bundle_only_attr", 1)
					}
					bo[m.Mid] = m.Kind
					listed = append(listed, m.Mid)
					h.run.Count("bundle_only_sections_offered:"+m.Kind, 1)
				case m.Port != 0:
					listed = append(listed, m.Mid)
				}
			}
			g.BundleMids = listed
			h.bundleOnly = bo
			h.run.Count("gen_offers_with_bundle_only_sections", 1)
			h.logf("foreign offer has zero-port sections listed in BUNDLE: %v", c06SortedKV(bo))
		}
	}
	if g.Bundle && g.BundleMids == nil && r.Chance(0.15) {
		// legal: the offerer bundles only some of its accepted sections
		var acc []string
		for _, m := range g.Media {
			if m.Port != 0 {
				acc = append(acc, m.Mid)
			}
		}
		if len(acc) >= 2 {
			k := r.Intn(len(acc))
			g.BundleMids = append(append([]string{}, acc[:k]...), acc[k+1:]...)
			h.run.Count("gen_offers_partial_bundle", 1)
		}
	}
	var mids []string
	for _, m := range g.Media {
		mids = append(mids, m.Mid)
		if (m.Kind != "audio" && m.Kind != "video" && m.Kind != "application") || (m.Kind != "application" && m.Dir == "") {
			h.remoteDropped = true
		}
	}
	h.run.Seen("gen_mid_style", fmt.Sprintf("%d planb=%v", midStyle, planB))
	if !c06Dense(mids) {
		h.remoteNonDense = true
		h.run.Count("gen_offers_non_dense_mids", 1)
	}
	text := g.String()
	h.remoteTexts = append(h.remoteTexts, text)
	h.logf("foreign offer mids=%v kinds=%s bundle=%v unknown=%v", mids, c06Kinds(g), g.Bundle, o.Unknown)
	if err := p.pc.SetRemoteDescription(SessionDescription{Type: SDPTypeOffer, SDP: text}); err != nil {
		h.apiErr("SetRemoteDescription(foreign offer)", err)

		return
	}
	p.hadRemoteOff = true
	ans, err := p.pc.CreateAnswer(nil)
	if err != nil {
		h.apiErr("CreateAnswer(foreign)", err)

		return
	}
	h.check(p.name, "answer", ans.SDP)
	if err = p.pc.SetLocalDescription(ans); err != nil {
		h.apiErr("SetLocalDescription(answer to foreign)", err)

		return
	}
	h.run.Count("gen_offers_answered", 1)
	rounds := 1
	if r.Bool() {
		rounds = 2
	}
	for round := 0; round < rounds; round++ {
		for k := r.Range(1, 3); k > 0; k-- {
			h.localOp(p, true)
		}
		offer, err := p.pc.CreateOffer(nil)
		if err != nil {
			h.apiErr("CreateOffer(after foreign)", err)

			return
		}
		h.check(p.name, "offer", offer.SDP)
		h.run.Count("offers_after_foreign_offer", 1)
		if round == rounds-1 {
			return
		}
		if err = p.pc.SetLocalDescription(offer); err != nil {
			h.apiErr("SetLocalDescription(offer after foreign)", err)

			return
		}
		mirror := c06MirrorAnswer(offer.SDP, round)
		h.remoteTexts = append(h.remoteTexts, mirror)
		h.logf("foreign mirror answer applied")
		if err = p.pc.SetRemoteDescription(SessionDescription{Type: SDPTypeAnswer, SDP: mirror}); err != nil {
			h.apiErr("SetRemoteDescription(mirror answer)", err)

			return
		}
		h.run.Count("mirror_answers_applied", 1)
	}
}

func c06Kinds(g *genSDP) string {
	var ks []string
	for _, m := range g.Media {
		k := m.Kind
		if m.Port == 0 {
			k += "(rej)"
		}
		ks = append(ks, k)
	}

	return strings.Join(ks, ",")
}

// ---------------------------------------------------------------- driver

func TestVerifC06(t *testing.T) {
	run := kit.Start(t, "C06", "seeded histories (pure function of seed,index): mode pair = two pion PeerConnections, 2..5 rounds with random offerer, "+
		"random AddTransceiverFromKind/FromTrack, AddTrack, RemoveTrack, Stop, CreateDataChannel between rounds; mode gen = foreign offer "+
		"(mid style dense/sparse/non-numeric/mixed by index, unknown kinds, rejected sections, bundle-only sections = port 0 + mid listed in BUNDLE, "+
		"no BUNDLE, media-level credentials, Plan-B shape; in pair mode the pion offer is rewritten to bundle-only form in transit with p=0.3) "+
		"answered, then local additions + CreateOffer (optionally mirrored answer + second round); SDPSemantics, BundlePolicy, "+
		"media-level fingerprints and AlwaysNegotiateDataChannels drawn per history. Every CreateOffer/CreateAnswer result of both peers is checked. "+
		"A history is non-trivial when some checked description has >= 2 m-sections and the history has a remote description with non-dense mids "+
		"or a local addition after an applied remote offer; distinct by the operation/outcome log")
	defer run.Finish()
	run.Assume("kit.ParseSDP (line-oriented, independent of pion/sdp) is the reference reading of a description")
	run.Assume("an absent a=group:BUNDLE line is read as an empty BUNDLE list (legal only when no m-section is accepted); BUNDLE order is not part of the statement")
	run.Assume("a rejected (port 0) m-section without a=mid is counted (rejected_section_without_mid) but attributed to C07, not flagged here")
	run.Assume("'exactly one direction attribute' is applied to every accepted m-section including m=application (this tree emits a=sendrecv there)")
	run.Assume("errors returned by the API (e.g. ErrIncorrectSDPSemantics for a non-Plan-B offer under SDPSemanticsPlanB) end a history without verdict")

	n := kit.N(1200, 24000)
	run.Parallel(n, 16, func(i int) {
		r := run.CaseRand(i)
		h := &c06Hist{run: run, idx: i, r: r}
		if os.Getenv("C06_TRACE") != "" {
			fmt.Printf("TRACE start %d\n", i)
			defer func() { fmt.Printf("TRACE end %d\n", i) }()
		}
		defer func() {
			if rec := recover(); rec != nil {
				run.Inconclusive(fmt.Sprintf("panic in history: %v", rec))
				fmt.Printf("C06 case %d: panic %v\nops: %s\n", i, rec, strings.Join(h.ops, "\n"))
			}
		}()
		sem := kit.Pick(r, []SDPSemantics{
			SDPSemanticsUnifiedPlan, SDPSemanticsUnifiedPlan, SDPSemanticsUnifiedPlan, SDPSemanticsPlanB, SDPSemanticsUnifiedPlanWithFallback,
		})
		bp := kit.Pick(r, []BundlePolicy{BundlePolicyUnknown, BundlePolicyBalanced, BundlePolicyMaxCompat, BundlePolicyMaxBundle})
		mediaFP := r.Chance(0.35)
		always := r.Chance(0.15)
		h.cfg = fmt.Sprintf("sem=%s bundle=%s mediaFP=%v alwaysDC=%v", sem, bp, mediaFP, always)
		mk := func(name string, s SDPSemantics) *c06Peer {
			pc, err := rigNewPC(rigOpts{
				SE:  func(se *SettingEngine) { se.SetSDPMediaLevelFingerprints(mediaFP) },
				Cfg: Configuration{SDPSemantics: s, BundlePolicy: bp, AlwaysNegotiateDataChannels: always},
			})
			if err != nil {
				panic(fmt.Sprintf("NewPeerConnection: %v", err))
			}

			return &c06Peer{name: name, pc: pc, sem: s}
		}
		run.Seen("config", fmt.Sprintf("sem=%s bundle=%s mediaFP=%v", sem, bp, mediaFP))
		if i%2 == 0 {
			h.mode = "pair"
			// both peers use the same SDPSemantics: a Plan-B peer against a Unified-Plan(-with-fallback) peer is a
			// misconfiguration and makes this tree crash in RTPReceiver.readRTP (nil rtpInterceptor) — not C06's subject
			a, b := mk("A", sem), mk("B", sem)
			defer rigClose(a.pc, b.pc)
			rounds := r.Range(2, 5)
			for round := 0; round < rounds && !h.aborted; round++ {
				lo := 0
				if round == 0 {
					lo = 1
				}
				for k := r.Range(lo, 3); k > 0; k-- {
					h.localOp(a, round == 0)
				}
				for k := r.Range(0, 2); k > 0; k-- {
					h.localOp(b, false)
				}
				off, ans := a, b
				if r.Chance(0.4) {
					off, ans = b, a
				}
				if !h.exchange(off, ans) {
					break
				}
			}
		} else {
			h.mode = "gen"
			p := mk("X", sem)
			defer rigClose(p.pc)
			h.runGen(p, (i/2)%4)
		}
		run.Seen("mode", h.mode)
		run.Count("histories", 1)
		nontrivial := h.maxSections >= 2 && (h.remoteNonDense || h.addAfterRemote)
		if h.descsChecked == 0 {
			run.Count("histories_without_description", 1)

			return
		}
		run.Case(h.mode+"|"+h.cfg+"|"+strings.Join(h.ops, ";"), nontrivial)
		if nontrivial && (i%97 == 3 || i%97 == 4) {
			run.Sample(map[string]any{"case": i, "mode": h.mode, "config": h.cfg, "ops": h.ops})
		}
	})
}
