package webrtc

import (
	"context"
	"fmt"
	"strings"
	"sync"
	"sync/atomic"
	"time"

	"github.com/pion/dtls/v3"
	kit "github.com/pion/webrtc/v4/internal/verifkit"
)

// C22 part 4 — live connections. Parts 1–3 call the aggregate function directly; the property, however, is about
// ConnectionState() being the W3C aggregate of the *real* transports' states whenever the library is supposed to
// recompute it (ICE state callback, end of the DTLS start, Close). This part builds real loopback pairs whose
// transports are driven into every sub-state by generated faults (DTLS handshake failures of several kinds, ICE
// failures, lost answers) and generated follow-up events (remote closes, remote ICE dies silently, local close),
// under generated configurations (DisableCloseByDTLS, ICE timeouts, media mix). Oracles, per PeerConnection:
//
//	(a) quiescent aggregate: whenever the observable inputs (closed flag, ICEConnectionState(), DTLS transport State())
//	    stand still, ConnectionState() must equal the independent W3C transcription of those inputs. A mismatch is a
//	    violation only when the identical (inputs, state) snapshot persisted for the whole stale window although every
//	    update site had been passed (operations queue drained when it can be drained) — a missed re-aggregation.
//	(b) every store to the state is a change (bracket events), and the handler is never invoked more often for a value
//	    than the state changed to it.
//
// Only PeerConnection-level API drives the PeerConnections under observation, except "remote-ice-stop", which stops
// the ICE transport of the *peer* through the public ICETransport().Stop().

const c22LiveBase = 1000000 // case indices of part 4 (independent of the tier-dependent counts of parts 2/3)

type c22Side struct {
	noCloseByDTLS bool
	disc, failed  time.Duration
	keep          time.Duration
	ctxTimeout    time.Duration // < 0: no DTLS connect context
	srtp          []dtls.SRTPProtectionProfile
	ciphers       []dtls.CipherSuiteID
}

type c22Scenario struct {
	fault    string // fault class
	dir      string // which description is munged: offer / answer / both
	side     [2]c22Side
	dc       bool
	audio    bool
	post     string // follow-up event
	postSide int    // which side is "local" for the follow-up
	fpHex    [2]string
	pwd      [2]string
}

func (s *c22Scenario) String() string {
	sd := func(x c22Side) string {
		return fmt.Sprintf("{noCloseByDTLS=%v disc=%s failed=%s keep=%s ctx=%s srtp=%v ciphers=%v}",
			x.noCloseByDTLS, x.disc, x.failed, x.keep, x.ctxTimeout, x.srtp, x.ciphers)
	}

	return fmt.Sprintf("live fault=%s dir=%s A=%s B=%s dc=%v audio=%v post=%s@%d fp=%s/%s pwd=%s/%s",
		s.fault, s.dir, sd(s.side[0]), sd(s.side[1]), s.dc, s.audio, s.post, s.postSide,
		firstN(s.fpHex[0], 8), firstN(s.fpHex[1], 8), s.pwd[0], s.pwd[1])
}

func c22RandHexFP(r *kit.Rand) string {
	b := r.Bytes(32)
	parts := make([]string, len(b))
	for i, x := range b {
		parts[i] = fmt.Sprintf("%02X", x)
	}

	return strings.Join(parts, ":")
}

func c22RandToken(r *kit.Rand, n int) string {
	const al = "abcdefghijklmnopqrstuvwxyzABCDEFGHIJKLMNOPQRSTUVWXYZ0123456789"
	b := make([]byte, n)
	for i := range b {
		b[i] = al[r.Intn(len(al))]
	}

	return string(b)
}

func c22GenScenario(r *kit.Rand) *c22Scenario { //nolint:cyclop
	sc := &c22Scenario{}
	type wf struct {
		name string
		w    int
	}
	faults := []wf{
		{"none", 22}, {"dtls-fingerprint", 22}, {"dtls-srtp-profile", 8}, {"dtls-cipher", 8}, {"dtls-ctx-timeout", 12},
		{"ice-pwd", 10}, {"ice-nocand", 6}, {"answer-lost", 12},
	}
	total := 0
	for _, f := range faults {
		total += f.w
	}
	x := r.Intn(total)
	for _, f := range faults {
		if x < f.w {
			sc.fault = f.name

			break
		}
		x -= f.w
	}
	sc.dir = kit.Pick(r, []string{"offer", "answer", "both"})
	iceFault := strings.HasPrefix(sc.fault, "ice-") || sc.fault == "answer-lost"
	for k := 0; k < 2; k++ {
		sd := &sc.side[k]
		sd.noCloseByDTLS = r.Chance(0.65)
		sd.disc = time.Duration(r.Range(120, 350)) * time.Millisecond
		if iceFault || r.Chance(0.6) {
			sd.failed = time.Duration(r.Range(150, 450)) * time.Millisecond
		} else {
			sd.failed = time.Hour // "disconnected" is then a resting state
		}
		sd.keep = time.Duration(r.Range(25, 70)) * time.Millisecond
		sd.ctxTimeout = -1
	}
	switch sc.fault {
	case "dtls-srtp-profile":
		ps := []dtls.SRTPProtectionProfile{
			dtls.SRTP_AEAD_AES_128_GCM, dtls.SRTP_AEAD_AES_256_GCM, dtls.SRTP_AES128_CM_HMAC_SHA1_80,
		}
		kit.Shuffle(r, ps)
		sc.side[0].srtp = ps[:1]
		sc.side[1].srtp = ps[1 : 2+r.Intn(2)]
	case "dtls-cipher":
		cs := []dtls.CipherSuiteID{
			dtls.TLS_ECDHE_ECDSA_WITH_AES_128_GCM_SHA256, dtls.TLS_ECDHE_ECDSA_WITH_AES_256_CBC_SHA,
			dtls.TLS_ECDHE_ECDSA_WITH_AES_256_GCM_SHA384, dtls.TLS_ECDHE_ECDSA_WITH_AES_128_CCM,
		}
		kit.Shuffle(r, cs)
		sc.side[0].ciphers = cs[:1+r.Intn(2)]
		sc.side[1].ciphers = cs[2:]
	case "dtls-ctx-timeout":
		// one side gives the handshake (almost) no time, the other a little more: both terminate quickly.
		k := r.Intn(2)
		sc.side[k].ctxTimeout = time.Duration(r.Intn(1500)) * time.Microsecond
		sc.side[1-k].ctxTimeout = time.Duration(r.Range(60, 300)) * time.Millisecond
	}
	sc.dc = r.Chance(0.7)
	sc.audio = !sc.dc || r.Chance(0.4)
	sc.post = kit.Pick(r, []string{"none", "remote-close", "remote-close", "remote-ice-stop", "remote-ice-stop", "local-close"})
	sc.postSide = r.Intn(2)
	sc.fpHex = [2]string{c22RandHexFP(r), c22RandHexFP(r)}
	sc.pwd = [2]string{c22RandToken(r, 32), c22RandToken(r, 32)}

	return sc
}

// munger returns the rewrite applied to the description sent by side k (0 = offer, 1 = answer).
func (s *c22Scenario) munger(k int) rigMunge {
	applies := s.dir == "both" || (s.dir == "offer" && k == 0) || (s.dir == "answer" && k == 1)
	switch {
	case s.fault == "dtls-fingerprint" && applies:
		return func(sdp string) string {
			return rigMapLines(sdp, func(ln string) []string {
				if strings.HasPrefix(ln, "a=fingerprint:") {
					f := strings.Fields(ln)

					return []string{f[0] + " " + s.fpHex[k]}
				}

				return []string{ln}
			})
		}
	case s.fault == "ice-pwd" && applies:
		return func(sdp string) string {
			return rigMapLines(sdp, func(ln string) []string {
				if strings.HasPrefix(ln, "a=ice-pwd:") {
					return []string{"a=ice-pwd:" + s.pwd[k]}
				}

				return []string{ln}
			})
		}
	case s.fault == "ice-nocand": // always both directions: otherwise peer-reflexive discovery connects the pair
		return func(sdp string) string {
			return rigMapLines(sdp, func(ln string) []string {
				if strings.HasPrefix(ln, "a=candidate:") || ln == "a=end-of-candidates" {
					return nil
				}

				return []string{ln}
			})
		}
	}

	return nil
}

// c22Peer is one observed PeerConnection with its recorders.
type c22Peer struct {
	name string
	pc   *PeerConnection
	rec  *c22Rec
	mu   sync.Mutex
	ice  []ICEConnectionState // as delivered to OnICEConnectionStateChange
	dtls []DTLSTransportState // as delivered to the DTLS transport's OnStateChange
	bad  bool                 // a stale aggregate was already reported for this peer
}

func (p *c22Peer) prev() (ICEConnectionState, DTLSTransportState) {
	p.mu.Lock()
	defer p.mu.Unlock()
	pi, pd := ICEConnectionStateNew, DTLSTransportStateNew
	if n := len(p.ice); n >= 2 {
		pi = p.ice[n-2]
	}
	if n := len(p.dtls); n >= 2 {
		pd = p.dtls[n-2]
	}

	return pi, pd
}

func (p *c22Peer) history() map[string]any {
	p.mu.Lock()
	defer p.mu.Unlock()

	return map[string]any{"ice_events": fmt.Sprint(p.ice), "dtls_events": fmt.Sprint(p.dtls), "handler_saw": fmt.Sprint(p.rec.snapshot())}
}

func c22NewPeer(name string, sd c22Side) *c22Peer {
	pc := rigMustPC(rigOpts{SE: func(se *SettingEngine) {
		se.DisableCloseByDTLS(sd.noCloseByDTLS)
		se.SetICETimeouts(sd.disc, sd.failed, sd.keep)
		if len(sd.srtp) > 0 {
			se.SetSRTPProtectionProfiles(sd.srtp...)
		}
		if len(sd.ciphers) > 0 {
			se.SetDTLSCipherSuites(sd.ciphers...)
		}
		if sd.ctxTimeout >= 0 {
			d := sd.ctxTimeout
			se.SetDTLSConnectContextMaker(func() (context.Context, func()) {
				return context.WithTimeout(context.Background(), d)
			})
		}
	}})
	p := &c22Peer{name: name, pc: pc, rec: &c22Rec{}}
	pc.OnConnectionStateChange(p.rec.handler)
	pc.OnICEConnectionStateChange(func(s ICEConnectionState) {
		p.mu.Lock()
		p.ice = append(p.ice, s)
		p.mu.Unlock()
	})
	pc.SCTP().Transport().OnStateChange(func(s DTLSTransportState) {
		p.mu.Lock()
		p.dtls = append(p.dtls, s)
		p.mu.Unlock()
	})

	return p
}

type c22Snap struct {
	closed bool
	ice    ICEConnectionState
	dtls   DTLSTransportState
	cs     PeerConnectionState
}

func (s c22Snap) String() string {
	return fmt.Sprintf("closed=%v ice=%s dtls=%s → %s", s.closed, s.ice, s.dtls, s.cs)
}

// c22Snapshot reads the inputs, the state, and the inputs again; ok only when the inputs did not move meanwhile.
func c22Snapshot(pc *PeerConnection) (c22Snap, bool) {
	dt := pc.SCTP().Transport()
	c1, i1, d1 := pc.isClosed.Load(), pc.ICEConnectionState(), dt.State()
	cs := pc.ConnectionState()
	c2, i2, d2 := pc.isClosed.Load(), pc.ICEConnectionState(), dt.State()

	return c22Snap{c1, i1, d1, cs}, c1 == c2 && i1 == i2 && d1 == d2
}

// c22TryDrain waits (watchdog) for the operations queue; false when it is blocked (e.g. inside ICE start).
func c22TryDrain(pc *PeerConnection, d time.Duration) bool {
	done := make(chan struct{})
	go func() { pc.ops.Done(); close(done) }()
	select {
	case <-done:
		return true
	case <-time.After(d):
		return false
	}
}

const (
	c22StaleWindow = 1500 * time.Millisecond
	c22Watchdog    = 6 * time.Second
)

// c22Quiescent returns the first snapshot that agrees with the W3C aggregate, or — agree=false, stale=true — a
// mismatching snapshot that did not move for c22StaleWindow; stale=false means the inputs never stood still.
func c22Quiescent(pc *PeerConnection) (snap c22Snap, agree, stale, drained bool) {
	deadline := time.Now().Add(c22Watchdog)
	var last c22Snap
	var since time.Time
	have := false
	fenced := false
	for {
		s, ok := c22Snapshot(pc)
		if ok && s.cs == c22Spec(s.closed, s.ice, s.dtls) {
			return s, true, false, drained
		}
		now := time.Now()
		switch {
		case !ok:
			have = false
		case !have || s != last:
			last, since, have = s, now, true
		case now.Sub(since) >= c22StaleWindow:
			if !fenced { // pass the "end of startTransports" update site before judging
				fenced = true
				drained = c22TryDrain(pc, 2*time.Second)
				since = time.Now().Add(-c22StaleWindow / 2) // and look again for half a window

				continue
			}

			return s, false, true, drained
		}
		if now.After(deadline) {
			return s, false, false, drained
		}
		time.Sleep(time.Millisecond)
	}
}

func c22WaitFor(d time.Duration, cond func() bool) bool {
	deadline := time.Now().Add(d)
	for {
		if cond() {
			return true
		}
		if time.Now().After(deadline) {
			return false
		}
		time.Sleep(time.Millisecond)
	}
}

func c22NormICE(s ICEConnectionState) string {
	if s == ICEConnectionStateCompleted {
		return ICEConnectionStateConnected.String()
	}

	return s.String()
}

// c22CheckPeer applies oracle (a) to one peer at the end of a phase.
func c22CheckPeer(run *kit.Run, p *c22Peer, sc *c22Scenario, phase string, idx int) {
	if p.bad {
		return
	}
	snap, agree, stale, drained := c22Quiescent(p.pc)
	run.Count("live_quiescent_checks", 1)
	switch {
	case agree:
		run.Seen("live_settled", fmt.Sprintf("closed=%v ice=%s dtls=%s→%s", snap.closed, c22NormICE(snap.ice), snap.dtls, snap.cs))
	case !stale:
		run.Inconclusive("live-inputs-never-quiescent")
	default:
		if snap.closed {
			select {
			case <-p.pc.isCloseDone:
			default: // a Close is still tearing transports down: its update site has not been reached yet
				run.Inconclusive("live-close-in-flight")

				return
			}
		}
		p.bad = true
		want := c22Spec(snap.closed, snap.ice, snap.dtls)
		prevICE, prevDTLS := p.prev()
		cause := "unexplained"
		switch {
		case snap.closed && snap.cs != PeerConnectionStateClosed:
			cause = "after-close"
		case c22Spec(snap.closed, snap.ice, prevDTLS) == snap.cs && prevDTLS != snap.dtls:
			cause = "after-dtls-" + snap.dtls.String()
		case c22Spec(snap.closed, prevICE, snap.dtls) == snap.cs && prevICE != snap.ice:
			cause = "after-ice-" + c22NormICE(snap.ice)
		}
		sig := fmt.Sprintf("live-not-reaggregated:%s:stuck-%s-want-%s", cause, snap.cs, want)
		detail := p.history()
		detail["scenario"] = sc.String()
		detail["phase"] = phase
		detail["peer"] = p.name
		detail["snapshot"] = snap.String()
		detail["want"] = want.String()
		detail["ops_drained"] = drained
		run.Violation(sig, fmt.Sprintf("live pair, peer %s, phase %s: inputs stood still at closed=%v ice=%s dtls=%s for %s (operations queue drained=%v) "+
			"but ConnectionState()=%s, W3C aggregate=%s; fault=%s noCloseByDTLS=%v", p.name, phase, snap.closed, snap.ice, snap.dtls,
			c22StaleWindow, drained, snap.cs, want, sc.fault, sc.side[map[string]int{"A": 0, "B": 1}[p.name]].noCloseByDTLS), idx, detail)
	}
}

func c22Live(run *kit.Run, sched *kit.Sched) { //nolint:gocognit,cyclop,maintidx
	n := kit.N(72, 800)
	workers := 8
	sched.Perturb(0)
	sched.ResetEvents()
	var next atomic.Int64
	var samples atomic.Int64
	var wg sync.WaitGroup
	for w := 0; w < workers; w++ {
		wg.Add(1)
		go func() {
			defer wg.Done()
			for {
				j := int(next.Add(1) - 1)
				if j >= n {
					return
				}
				idx := c22LiveBase + j
				if !run.Want(idx) {
					continue
				}
				c22LiveCase(run, sched, idx, &samples)
			}
		}()
	}
	wg.Wait()
}

func c22LiveCase(run *kit.Run, sched *kit.Sched, idx int, samples *atomic.Int64) { //nolint:gocognit,cyclop,maintidx
	r := run.CaseRand(idx)
	sc := c22GenScenario(r)
	a, b := c22NewPeer("A", sc.side[0]), c22NewPeer("B", sc.side[1])
	peers := []*c22Peer{a, b}
	defer rigClose(a.pc, b.pc)
	run.Seen("live_fault_classes", sc.fault)
	run.Seen("live_post_events", sc.post)

	if sc.dc {
		if _, err := a.pc.CreateDataChannel("c22", nil); err != nil {
			run.Inconclusive("live-setup-datachannel")

			return
		}
	}
	if sc.audio {
		if _, err := a.pc.AddTransceiverFromKind(RTPCodecTypeAudio); err != nil {
			run.Inconclusive("live-setup-transceiver")

			return
		}
	}

	// ---- phase 1: signalling with the generated fault
	var err error
	if sc.fault == "answer-lost" {
		var offer SessionDescription
		if offer, err = rigOffer(a.pc, true); err == nil {
			_, err = rigAnswer(b.pc, offer, true)
		}
	} else {
		_, _, err = rigExchange(a.pc, b.pc, sc.munger(0), sc.munger(1))
	}
	if err != nil {
		run.Inconclusive("live-setup-exchange")
		run.Seen("live_setup_errors", sc.fault+": "+firstN(err.Error(), 80))

		return
	}
	term := func(p *c22Peer, iceOK func(ICEConnectionState) bool, dtlsOK func(DTLSTransportState) bool) bool {
		s, _ := c22Snapshot(p.pc)

		return s.closed || (iceOK(s.ice) && dtlsOK(s.dtls))
	}
	iceUp := func(s ICEConnectionState) bool {
		return s == ICEConnectionStateConnected || s == ICEConnectionStateCompleted
	}
	iceEnd := func(s ICEConnectionState) bool { return iceUp(s) || s == ICEConnectionStateFailed }
	dtlsEnd := func(s DTLSTransportState) bool {
		return s == DTLSTransportStateConnected || s == DTLSTransportStateFailed || s == DTLSTransportStateClosed
	}
	anyDTLS := func(DTLSTransportState) bool { return true }
	// targets speak about transports only (never about ConnectionState); a missed target is not judged, the quiescent
	// oracle is applied to whatever state the peer rests in.
	reached := c22WaitFor(c22Watchdog, func() bool {
		for _, p := range peers {
			if p == a && sc.fault == "answer-lost" {
				continue // never started
			}
			ok := false
			switch {
			case strings.HasPrefix(sc.fault, "ice-") || sc.fault == "answer-lost":
				ok = term(p, func(s ICEConnectionState) bool { return s == ICEConnectionStateFailed }, anyDTLS) || term(p, iceUp, dtlsEnd)
			default:
				ok = term(p, iceEnd, dtlsEnd)
			}
			if !ok {
				return false
			}
		}

		return true
	})
	if !reached {
		run.Seen("live_target_missed", sc.fault+":setup")
	}
	for _, p := range peers {
		c22CheckPeer(run, p, sc, "setup:"+sc.fault, idx)
	}

	// ---- phase 2: follow-up event
	local, remote := peers[sc.postSide], peers[1-sc.postSide]
	switch sc.post {
	case "remote-close":
		_ = remote.pc.Close()
	case "remote-ice-stop":
		_ = remote.pc.SCTP().Transport().ICETransport().Stop()
	case "local-close":
		_ = local.pc.Close()
	}
	if sc.post != "none" {
		if sc.post != "local-close" {
			before, _ := c22Snapshot(local.pc)
			if iceUp(before.ice) && !before.closed {
				rest := func(s ICEConnectionState) bool {
					if sc.side[sc.postSide].failed > time.Minute {
						return s == ICEConnectionStateDisconnected || s == ICEConnectionStateFailed
					}

					return s == ICEConnectionStateFailed
				}
				if !c22WaitFor(c22Watchdog, func() bool { return term(local, rest, anyDTLS) }) {
					run.Seen("live_target_missed", sc.fault+":"+sc.post)
				}
			}
		}
		for _, p := range peers {
			c22CheckPeer(run, p, sc, "post:"+sc.post, idx)
		}
	}

	// ---- phase 3: close both. The end of the *winning* Close is a fence: the state must be closed at once. Our Close()
	// may lose against the library's own close (DTLS close_notify from the peer) and then returns while that one is
	// still tearing transports down, hence the wait for isCloseDone (white-box), which the winner closes when it ends.
	for _, p := range peers {
		_ = p.pc.Close()
		select {
		case <-p.pc.isCloseDone:
		case <-time.After(2 * c22Watchdog):
			run.Inconclusive("live-close-not-finished")

			continue
		}
		if s, _ := c22Snapshot(p.pc); s.cs != PeerConnectionStateClosed && !p.bad {
			p.bad = true
			d := p.history()
			d["scenario"] = sc.String()
			run.Violation("live-not-reaggregated:after-close:stuck-"+s.cs.String()+"-want-closed",
				fmt.Sprintf("live pair, peer %s: Close() returned but ConnectionState()=%s (%s)", p.name, s.cs, s), idx, d)
		} else if !p.bad {
			run.Seen("live_settled", fmt.Sprintf("closed=true ice=%s dtls=%s→%s", c22NormICE(s.ice), s.dtls, s.cs))
		}
	}

	// ---- oracle (b): stores are changes; the handler never reports a value more often than the state changed to it
	nontrivial := false
	for _, p := range peers {
		evs := sched.Events("pc.connectionState", p.pc)
		c22WaitFor(2*time.Second, func() bool { return len(p.rec.snapshot()) >= len(evs) })
		seen := p.rec.snapshot()
		remaining := map[PeerConnectionState]int{}
		var stores []PeerConnectionState
		for _, e := range evs {
			stores = append(stores, PeerConnectionState(e.B))
			remaining[PeerConnectionState(e.B)]++
			run.Seen("live_transitions", PeerConnectionState(e.A).String()+"→"+PeerConnectionState(e.B).String())
			if e.A == e.B {
				d := p.history()
				d["scenario"] = sc.String()
				run.Violation("live-store-without-change", fmt.Sprintf("live pair, peer %s: state stored (and notified) with unchanged value %s; stores %v",
					p.name, PeerConnectionState(e.B), stores), idx, d)
			}
		}
		for _, s := range seen {
			remaining[s]--
			if remaining[s] < 0 {
				d := p.history()
				d["scenario"] = sc.String()
				d["stores"] = fmt.Sprint(stores)
				run.Violation("live-handler-without-change", fmt.Sprintf("live pair, peer %s: handler reported %s more often than the state changed to it; handler saw %v, stores %v",
					p.name, s, seen, stores), idx, d)

				break
			}
		}
		if len(seen) < len(stores) {
			run.Count("model_divergence_missing_notifications", len(stores)-len(seen))
		}
		run.Count("live_state_changes", len(stores))
		run.Count("live_handler_invocations", len(seen))
		p.mu.Lock()
		for _, s := range p.ice {
			run.Seen("live_ice_states", s.String())
			if s == ICEConnectionStateFailed || s == ICEConnectionStateDisconnected {
				nontrivial = true
			}
		}
		for _, s := range p.dtls {
			run.Seen("live_dtls_states", s.String())
			if s == DTLSTransportStateFailed {
				nontrivial = true
			}
		}
		p.mu.Unlock()
		if len(stores) >= 3 {
			nontrivial = true
		}
		if samples.Add(1) <= 2 {
			h := p.history()
			h["scenario"] = sc.String()
			h["peer"] = p.name
			h["stores"] = fmt.Sprint(stores)
			run.Sample(h)
		}
	}
	run.Count("live_cases", 1)
	run.Case(sc.String(), nontrivial)
}
