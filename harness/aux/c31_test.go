package verifaux

import (
	"encoding/binary"
	"errors"
	"fmt"
	"os"
	"reflect"
	"sort"
	"strings"
	"sync"
	"sync/atomic"
	"testing"
	"time"

	"github.com/pion/rtp"
	"github.com/pion/rtp/codecs"
	"github.com/pion/webrtc/v4/internal/verifhook"
	kit "github.com/pion/webrtc/v4/internal/verifkit"
	"github.com/pion/webrtc/v4/pkg/media"
	"github.com/pion/webrtc/v4/pkg/media/samplebuilder"
)

// C31 — SampleBuilder emits only well-formed samples, in order, each once.
//
// Rig: a fake rtp.Depacketizer. RTP payload = [flags][seq hi][seq lo][ts ×4][copy][bodylen][body…]; flags bit0 is the
// partition-head bit, the partition tail is the RTP marker bit, Unmarshal strips the flags byte. So every emitted
// sample decodes to the exact list of pushes (sequence number + copy number) it was built from. 15 % of the non-hostile
// cases use pion/rtp's H264Packet / VP8Packet / OpusPacket instead; there each payload carries an 8-byte token
// (C3 31 seq seq copy A5 5A 3C) that is searched for in Sample.Data.
//
// Oracle (written against the statement, shares no code with the SampleBuilder):
//  (1) a sample is the concatenation of Unmarshal(payload) of pushed packets with consecutive sequence numbers
//      (mod 2^16), one RTP timestamp, the first one a partition head;
//  (2) the first sequence number of a sample is after the last sequence number of the previous sample
//      (serial-number arithmetic; streams span < 2^15 sequence numbers) and no sequence number is in two samples;
//  (3) loss-free stream, no duplicates, every frame head..marker, reordering such that the span between the first
//      packet of the oldest incomplete frame and the newest packet never exceeds maxLate (and its timestamp span never
//      exceeds the WithMaxTimeDelay window): after Flush every frame came out exactly once;
//  plus: the release handler is called at most once per pushed *rtp.Packet, and only for pushed packets.
//
// Signatures (cause or input class, never data): malformed-sample, sample-from-unpushed-packet, non-contiguous-run,
// mixed-timestamps[:marker-packet-of-next-timestamp-appended], not-at-partition-head, out-of-order, packet-in-two-samples
// [:suffix-of-emitted-sample-reemitted], duplicate-emitted-twice, late-{duplicate,packet}-on-{empty,nonempty}-buffer
// (the offending packet was pushed when the builder was already past it), order-or-single-use-broken:purge-window-below-
// one-frame, complete-frame-not-emitted[:stream-start-reordered-across-first-pop | :frame-completes-on-maxlate-overflow],
// double-release, release-of-unknown-packet, pop-never-returns-nil.
//
// Debug: VERIF_C31_TRACE=1 prints ops/samples/releases of the replayed case; VERIF_C31_STATS=1|2 prints a violation tally.

const c31SampleRate = 90000

var errC31Short = errors.New("c31: short payload")

type c31Depack struct{}

func (c31Depack) Unmarshal(p []byte) ([]byte, error) {
	if len(p) < 9 {
		return nil, errC31Short
	}

	return p[1:], nil
}
func (c31Depack) IsPartitionHead(p []byte) bool         { return len(p) > 0 && p[0]&1 != 0 }
func (c31Depack) IsPartitionTail(m bool, _ []byte) bool { return m }

// c31Pkt is one push (a duplicate is a second c31Pkt with the same U and a higher Copy).
type c31Pkt struct {
	U     int    // unwrapped position in the stream; sequence number = uint16(start+U)
	Seq   uint16 // wire sequence number
	TS    uint32
	Head  bool
	Mark  bool
	Copy  uint8
	Body  []byte
	Pad   bool // empty payload (padding packet)
	Frame int  // frame index (-1 for padding)
}

// c31Token marks a packet inside a real codec payload: C3 31 seq seq copy A5 5A 3C.
func (p c31Pkt) token() []byte {
	return []byte{0xC3, 0x31, byte(p.Seq >> 8), byte(p.Seq), p.Copy, 0xA5, 0x5A, 0x3C}
}

func (p c31Pkt) payload(codec string) []byte {
	if p.Pad {
		return []byte{}
	}
	switch codec {
	case "h264": // single NAL unit packet, type 1: every packet is a partition head, tail = marker
		return append([]byte{0x41}, p.token()...)
	case "vp8": // one-byte payload descriptor, S bit = partition head, tail = marker
		d := byte(0)
		if p.Head {
			d = 0x10
		}

		return append([]byte{d}, p.token()...)
	case "opus": // every packet is head and tail
		return append([]byte{0x78}, p.token()...)
	}
	b := make([]byte, 9+len(p.Body))
	b[0] = 0x80
	if p.Head {
		b[0] |= 1
	}
	binary.BigEndian.PutUint16(b[1:], p.Seq)
	binary.BigEndian.PutUint32(b[3:], p.TS)
	b[7] = p.Copy
	b[8] = byte(len(p.Body))
	copy(b[9:], p.Body)

	return b
}

func (p c31Pkt) String() string {
	f := ""
	if p.Head {
		f += "H"
	}
	if p.Mark {
		f += "M"
	}
	if p.Pad {
		f += "pad"
	}
	if f == "" {
		f = "-"
	}

	return fmt.Sprintf("push seq=%d copy=%d ts=%d %s body=%d", p.Seq, p.Copy, p.TS, f, len(p.Body))
}

type c31Op struct {
	K byte // 'P' push Pkts[P], 'o' Pop once, 'a' Pop until nil, 'F' Flush
	P int
}

type c31Case struct {
	Class      string
	MaxLate    uint16
	DelayMs    int // 0: WithMaxTimeDelay not used
	Headers    bool
	Codec      string // "" = the self-describing fake depacketizer; "h264", "vp8", "opus" = pion/rtp codecs + token scan
	Pkts       []c31Pkt
	Ops        []c31Op
	Conserve   bool    // oracle (3) applies
	StrictSpan int     // conservation: see c31Required
	Frames     [][]int // U lists of the frames (conservation)
	Note       string
	Plain      bool // delivery is the plain in-order loss-free stream
	WrapSeq    bool
	WrapTS     bool
	MaxStep    uint32 // largest timestamp step between two frames
}

func (c *c31Case) opStrings() []string {
	out := make([]string, 0, len(c.Ops))
	for _, o := range c.Ops {
		switch o.K {
		case 'P':
			out = append(out, c.Pkts[o.P].String())
		case 'o':
			out = append(out, "pop")
		case 'a':
			out = append(out, "pop-until-nil")
		case 'F':
			out = append(out, "flush")
		}
	}

	return out
}

func (c *c31Case) desc() string {
	var b strings.Builder
	fmt.Fprintf(&b, "%s %s ml=%d d=%d h=%v|", c.Class, c.Codec, c.MaxLate, c.DelayMs, c.Headers)
	for _, o := range c.Ops {
		if o.K == 'P' {
			p := c.Pkts[o.P]
			fmt.Fprintf(&b, "%d.%d.%d.%v%v%v,", p.Seq, p.Copy, p.TS, p.Head, p.Mark, p.Pad)
		} else {
			b.WriteByte(o.K)
		}
	}

	return b.String()
}

// ------------------------------------------------------------------ generator

type c31Stream struct {
	start   uint16
	pkts    []c31Pkt // in-order stream, Copy 0
	frames  [][]int
	wrapSeq bool
	wrapTS  bool
	maxStep uint32 // largest timestamp step between two frames
}

func c31GenStream(r *kit.Rand, nFrames int, hostile bool, codec string, tsEdge bool) c31Stream {
	var st c31Stream

	switch r.Intn(8) {
	case 0:
		st.start = 0
	case 1:
		st.start = uint16(65530 + r.Intn(6))
	case 2:
		st.start = uint16(65536 - 1 - r.Intn(nFrames*3+1)) // wraps somewhere inside the stream
	case 3:
		st.start = uint16(32768 - 1 - r.Intn(nFrames*3+1)) // crosses the int16 sign boundary
	case 4:
		st.start = uint16(r.Intn(20))
	default:
		st.start = uint16(r.Intn(65536))
	}
	stepMode := r.Intn(4)
	tsSpan := nFrames * []int{3000, 1, 5000, 3000}[stepMode] // roughly the timestamp distance the stream covers
	var ts uint32
	tsMode := r.Intn(6)
	if tsEdge { // the case uses WithMaxTimeDelay: put the 2^32 wrap or the 2^31 sign change inside the stream
		tsMode = 1 + r.Intn(2)
	}
	switch tsMode {
	case 0:
		ts = 0
	case 1:
		ts = uint32(1<<32 - 1 - r.Intn(tsSpan+1)) // wraps inside the stream
	case 2:
		ts = uint32(1<<31 - 1 - r.Intn(tsSpan+1)) // crosses the int32 sign boundary
	default:
		ts = r.Uint32()
	}
	sizeMode := r.Intn(4)
	if codec == "opus" {
		sizeMode = 0
	}
	u := 0
	for f := 0; f < nFrames; f++ {
		var n int
		switch sizeMode {
		case 0:
			n = 1
		case 1:
			n = r.Range(1, 3)
		case 2:
			n = r.Range(1, 12)
		default:
			if r.Chance(0.7) {
				n = r.Range(1, 4)
			} else {
				n = r.Range(5, 12)
			}
		}
		var fr []int
		for k := 0; k < n; k++ {
			p := c31Pkt{U: u, Seq: st.start + uint16(u), TS: ts, Head: k == 0, Mark: k == n-1, Frame: f, Body: r.Bytes(r.Intn(6))}
			if hostile {
				switch {
				case r.Chance(0.04):
					p.Head = !p.Head
				case r.Chance(0.04):
					p.Mark = !p.Mark
				}
			}
			st.pkts = append(st.pkts, p)
			fr = append(fr, u)
			u++
		}
		st.frames = append(st.frames, fr)
		if hostile && r.Chance(0.08) { // padding packet(s) after the frame, same timestamp, empty payload
			for k := r.Range(1, 2); k > 0; k-- {
				st.pkts = append(st.pkts, c31Pkt{U: u, Seq: st.start + uint16(u), TS: ts, Pad: true, Frame: -1})
				u++
			}
		}
		var step uint32
		switch stepMode {
		case 0:
			step = 3000
		case 1:
			step = 1
		case 2:
			step = uint32(r.Range(1, 10000))
		default:
			step = uint32(kit.Pick(r, []int{960, 3000, 3003, 90000}))
		}
		if hostile && r.Chance(0.05) {
			step = 0 // two frames with one timestamp
		}
		if step > st.maxStep {
			st.maxStep = step
		}
		old := ts
		ts += step
		if ts < old {
			st.wrapTS = true
		}
	}
	if int(st.start)+u > 65536 {
		st.wrapSeq = true
	}
	if codec != "" { // real depacketizers: the payload carries only the token; H.264 single-NAL and Opus packets are all heads
		for i := range st.pkts {
			st.pkts[i].Body = nil
			if codec == "h264" || codec == "opus" {
				st.pkts[i].Head = true
			}
		}
	}

	return st
}

// c31Required measures a loss-free delivery order against precondition (3). Over all pushes it takes the window
// newest+1-firstPacketOfOldestIncompleteFrame (and the timestamp distance across that window):
//   - strict: measured before the just-pushed packet may complete its frame — with maxLate >= strict the number of
//     buffered, not yet emittable packets never exceeds maxLate, the builder never has to force anything out;
//   - loose: measured after completed frames are taken out of the window — with loose <= maxLate < strict the only
//     overflow ever happening is a frame that becomes complete by the very packet that overflows the window.
func c31Required(st *c31Stream, order []int) (strict, loose int, strictTS, looseTS uint32) {
	arrived := make([]bool, len(st.pkts))
	fi := 0 // oldest incomplete frame
	newest := -1
	measure := func(span *int, ts *uint32) {
		if fi < len(st.frames) && st.frames[fi][0] <= newest {
			f0 := st.frames[fi][0]
			if s := newest + 1 - f0; s > *span {
				*span = s
			}
			if d := st.pkts[newest].TS - st.pkts[f0].TS; d > *ts {
				*ts = d
			}
		}
	}
	for _, u := range order {
		if u > newest {
			newest = u
		}
		measure(&strict, &strictTS)
		arrived[u] = true
		for fi < len(st.frames) {
			all := true
			for _, x := range st.frames[fi] {
				if !arrived[x] {
					all = false

					break
				}
			}
			if !all {
				break
			}
			fi++
		}
		measure(&loose, &looseTS)
	}

	return strict, loose, strictTS, looseTS
}

func c31Displace(r *kit.Rand, order []int, depth int) {
	if depth <= 0 {
		return
	}
	type kv struct{ k, v int }
	ks := make([]kv, len(order))
	for i, v := range order {
		ks[i] = kv{i + r.Intn(depth+1), v}
	}
	sort.SliceStable(ks, func(a, b int) bool { return ks[a].k < ks[b].k })
	for i := range ks {
		order[i] = ks[i].v
	}
}

func c31AddPops(r *kit.Rand, c *c31Case, pushes []int, allowFlush, holdUntilFirst bool) {
	popMode := r.Intn(5)   // 0 never, 1 rare, 2 often, 3 drain after every push, 4 bursts
	hold := holdUntilFirst // no Pop before the first packet of the stream was pushed
	for _, pi := range pushes {
		c.Ops = append(c.Ops, c31Op{'P', pi})
		if c.Pkts[pi].U == 0 {
			hold = false
		}
		if hold {
			continue
		}
		switch popMode {
		case 1:
			if r.Chance(0.15) {
				c.Ops = append(c.Ops, c31Op{K: 'o'})
			}
		case 2:
			for r.Chance(0.6) {
				c.Ops = append(c.Ops, c31Op{K: 'o'})
			}
		case 3:
			c.Ops = append(c.Ops, c31Op{K: 'a'})
		case 4:
			if r.Chance(0.1) {
				c.Ops = append(c.Ops, c31Op{K: 'a'})
			}
		}
		if allowFlush && r.Chance(0.01) {
			c.Ops = append(c.Ops, c31Op{K: 'F'})
			if r.Bool() {
				c.Ops = append(c.Ops, c31Op{K: 'a'})
			}
		}
	}
	c.Ops = append(c.Ops, c31Op{K: 'F'}, c31Op{K: 'a'})
}

var c31MaxLates = []uint16{1, 2, 5, 10, 10, 10, 50, 50, 500} //nolint:gochecknoglobals

func c31Gen(r *kit.Rand, idx int) *c31Case {
	c := &c31Case{}
	big := kit.Tier() == "thorough" && r.Chance(0.1)
	nFrames := r.Range(1, 40)
	if big {
		nFrames = r.Range(40, 400)
	}
	class := idx % 4
	c.Headers = r.Chance(0.3)
	if class != 3 && r.Chance(0.15) {
		c.Codec = kit.Pick(r, []string{"h264", "h264", "vp8", "opus"})
	}
	switch class {
	case 0: // conservation: loss-free, bounded reorder, maxLate derived from the delivery order
		c.Class = "conserve"
		wantDelay := r.Chance(0.3)
		st := c31GenStream(r, nFrames, false, c.Codec, wantDelay && r.Bool())
		c.WrapSeq, c.WrapTS, c.MaxStep = st.wrapSeq, st.wrapTS, st.maxStep
		order := make([]int, len(st.pkts))
		for i := range order {
			order[i] = i
		}
		depth := kit.Pick(r, []int{0, 1, 2, 3, 5, 8, 20})
		c31Displace(r, order, depth)
		strict, loose, strictTS, _ := c31Required(&st, order)
		sub := kit.Pick(r, []string{"core", "core", "core", "start", "tight"})
		c.Class = "conserve/" + sub
		ml := strict + kit.Pick(r, []int{0, 0, 0, 1, 2, 10})
		if sub == "tight" {
			ml = loose
		} else if r.Chance(0.3) {
			if v := int(kit.Pick(r, c31MaxLates)); v > ml {
				ml = v
			}
		}
		c.MaxLate = uint16(ml)
		c.StrictSpan = strict
		if wantDelay {
			ms := (int64(strictTS) + 89) / 90 // smallest window (ms) with window*90 >= the timestamp span
			ms += int64(kit.Pick(r, []int{0, 0, 1, 10, 1000}))
			if ms < 1 {
				ms = 1
			}
			c.DelayMs = int(ms)
		}
		c.Pkts = st.pkts
		c.Frames = st.frames
		c.Conserve = true
		c.Plain = depth == 0
		c.Note = fmt.Sprintf("depth=%d strict_span=%d loose_span=%d ts_span=%d", depth, strict, loose, strictTS)
		c31AddPops(r, c, order, false, sub != "start")
	default:
		hostile := class == 3
		c.Class = []string{"", "lossy", "dups", "hostile"}[class]
		wantDelay := r.Chance(0.15)
		st := c31GenStream(r, nFrames, hostile, c.Codec, wantDelay && r.Chance(0.3))
		c.WrapSeq, c.WrapTS, c.MaxStep = st.wrapSeq, st.wrapTS, st.maxStep
		c.MaxLate = kit.Pick(r, c31MaxLates)
		if hostile && r.Chance(0.1) {
			c.MaxLate = uint16(kit.Pick(r, []int{0, 3, 32767, 65535}))
		}
		if wantDelay {
			c.DelayMs = kit.Pick(r, []int{1, 30, 100, 1000, 60000})
		}
		loss := kit.Pick(r, []float64{0, 0, 0.01, 0.05, 0.1, 0.2})
		var order []int
		for i := range st.pkts {
			if !r.Chance(loss) {
				order = append(order, i)
			}
		}
		if hostile && r.Chance(0.2) && len(order) > 4 { // burst loss (forward jump)
			a := r.Intn(len(order) - 2)
			b := a + r.Range(1, len(order)-a-1)
			order = append(order[:a], order[b:]...)
		}
		depth := 0
		switch r.Intn(5) {
		case 1:
			depth = r.Range(1, 3)
		case 2:
			depth = int(c.MaxLate)
			if depth > 60 {
				depth = 60
			}
		case 3:
			depth = int(c.MaxLate)*2 + r.Intn(10)
			if depth > 200 {
				depth = 200
			}
		case 4:
			depth = r.Range(1, 40)
		}
		c31Displace(r, order, depth)
		c.Pkts = st.pkts
		pushes := append([]int(nil), order...)
		nd := 0
		if class >= 2 {
			pd := kit.Pick(r, []float64{0.02, 0.05, 0.15})
			if hostile {
				pd /= 3
			}
			copies := map[int]uint8{}
			var out []int
			type ins struct{ at, pi int }
			var later []ins
			for pos, pi := range pushes {
				out = append(out, pi)
				for k := 0; k < len(later); k++ {
					if later[k].at <= pos {
						out = append(out, later[k].pi)
						later = append(later[:k], later[k+1:]...)
						k--
					}
				}
				for r.Chance(pd) {
					d := c.Pkts[pi]
					copies[d.U]++
					d.Copy = copies[d.U]
					c.Pkts = append(c.Pkts, d)
					var delta int
					switch r.Intn(4) {
					case 0:
						delta = 0 // immediately after the original
					case 1:
						delta = r.Range(1, 4)
					case 2:
						delta = int(c.MaxLate) + r.Range(-2, 3)
					default:
						delta = r.Range(5, 120)
					}
					if delta < 0 {
						delta = 0
					}
					later = append(later, ins{pos + delta, len(c.Pkts) - 1})
					nd++
					if copies[d.U] > 3 {
						break
					}
				}
			}
			for _, l := range later {
				out = append(out, l.pi)
			}
			pushes = out
		}
		c.Plain = loss == 0 && depth == 0 && nd == 0 && !hostile
		c.Note = fmt.Sprintf("loss=%.2f depth=%d dups=%d", loss, depth, nd)
		c31AddPops(r, c, pushes, true, false)
	}

	return c
}

// c31Scripted are directed op lists, run as cases 0..len-1.
// Script: space separated; "N" pushes seq N as a single-packet frame (head+marker, own timestamp); "N/flags/T" pushes
// seq N with flags ⊆ {h,m} ("-" none) and timestamp number T; a trailing ' makes it a duplicate (next copy number);
// "p" Pop, "a" Pop until nil, "f" Flush. A final flush + pop-until-nil is appended. conserve: oracle (3) applies, frames
// are the maximal runs of one timestamp number.
func c31Scripted() []*c31Case {
	mk := func(note string, maxLate uint16, conserve bool, script string) *c31Case {
		c := &c31Case{Class: "scripted", MaxLate: maxLate, Note: note, Conserve: conserve}
		copies := map[int]uint8{}
		wraps := strings.Contains(script, "6553")
		base := -1
		type orig struct{ u, t int }
		var origs []orig
		for _, w := range strings.Fields(script) {
			switch w {
			case "p":
				c.Ops = append(c.Ops, c31Op{K: 'o'})
			case "a":
				c.Ops = append(c.Ops, c31Op{K: 'a'})
			case "f":
				c.Ops = append(c.Ops, c31Op{K: 'F'})
			default:
				dup := strings.HasSuffix(w, "'")
				f := strings.Split(strings.TrimSuffix(w, "'"), "/")
				var n int
				_, _ = fmt.Sscanf(f[0], "%d", &n)
				u := n
				if wraps && n < 32768 {
					u = n + 65536 // the stream wraps
				}
				t, head, mark := u, true, true
				if len(f) == 3 {
					head, mark = strings.Contains(f[1], "h"), strings.Contains(f[1], "m")
					_, _ = fmt.Sscanf(f[2], "%d", &t)
				}
				p := c31Pkt{U: u, Seq: uint16(n), TS: uint32(t) * 3000, Head: head, Mark: mark, Body: []byte{byte(n)}, Frame: t}
				if dup {
					copies[n]++
					p.Copy = copies[n]
				} else {
					origs = append(origs, orig{u, t})
				}
				if base < 0 || u < base {
					base = u
				}
				c.Pkts = append(c.Pkts, p)
				c.Ops = append(c.Ops, c31Op{'P', len(c.Pkts) - 1})
			}
		}
		c.Ops = append(c.Ops, c31Op{K: 'F'}, c31Op{K: 'a'})
		if conserve { // the executor indexes Pkts by U for frames: re-base U to 0.. and put originals first, in stream order
			sort.Slice(origs, func(a, b int) bool { return origs[a].u < origs[b].u })
			tbl := make([]c31Pkt, 0, len(c.Pkts))
			remap := map[int]int{}
			for _, o := range origs {
				for i, p := range c.Pkts {
					if p.U == o.u && p.Copy == 0 {
						remap[i] = len(tbl)
						p.U -= base
						tbl = append(tbl, p)
					}
				}
			}
			for i := range c.Ops {
				if c.Ops[i].K == 'P' {
					c.Ops[i].P = remap[c.Ops[i].P]
				}
			}
			c.Pkts = tbl
			for i, p := range c.Pkts {
				if i == 0 || c.Pkts[i-1].Frame != p.Frame {
					c.Frames = append(c.Frames, nil)
				}
				c.Frames[len(c.Frames)-1] = append(c.Frames[len(c.Frames)-1], p.U)
			}
			st := c31Stream{pkts: c.Pkts, frames: c.Frames}
			var order []int
			for _, o := range c.Ops {
				if o.K == 'P' {
					order = append(order, c.Pkts[o.P].U)
				}
			}
			c.StrictSpan, _, _, _ = c31Required(&st, order)
		}

		return c
	}

	return []*c31Case{
		mk("duplicate of an emitted packet arrives while the buffer is empty", 10, false, "10 11 f a 10' 12 13 a"),
		mk("duplicate of an emitted packet arrives while the buffer is non-empty, after a Pop", 10, false, "10 11 12 a 10' 13 a"),
		mk("duplicate of an emitted packet arrives while the buffer is non-empty, no Pop since the buffer refilled", 10, false, "10 11 f a 12 10' 13 a"),
		mk("never-seen late packet arrives while the buffer is empty", 10, false, "10 12 13 f a 11 14 15 a"),
		mk("never-seen late packet arrives while the buffer is non-empty, after a Pop", 10, false, "10 12 13 14 a 11 15 a"),
		mk("duplicate while the original is still buffered", 10, false, "10 11 11' 12 10' 13 a"),
		mk("late duplicate across the sequence wrap", 10, false, "65534 65535 f a 65534' 0 1 a"),
		mk("in-order stream, pop as you go", 10, true, "10 a 11 a 12 a 13 a"),
		mk("two partition heads in one frame (e.g. two H.264 NAL packets), frame is the newest data at Flush", 10, false, "10/h/1 11/hm/1 f a"),
		mk("frame without marker on its last packet followed by a single-packet frame with marker", 10, false, "10/h/1 11/hm/2 12 a"),
		mk("first two packets swapped, Pop between them", 10, true, "11 p 10 12 13 a"),
		mk("in-order 3-packet frame with maxLate 2, then single-packet frames", 2, true, "10/h/1 11/-/1 12/m/1 13 14 15 a"),
		mk("in-order 3-packet frames with maxLate 10, Pop only at the end", 10, true, "10/h/1 11/-/1 12/m/1 13/h/2 14/-/2 15/m/2 16/h/3 17/-/3 18/m/3 19 20"),
	}
}

// ------------------------------------------------------------------ executor + oracle

type c31Viol struct {
	sig, what string
}

type c31Result struct {
	viols       []c31Viol
	samples     int
	sampleLists [][]string
	pushes      int
	releases    int
	lateDup     int // duplicates pushed after an earlier copy was emitted or released
	bufDup      int // duplicates pushed while an earlier copy was still buffered
	latePkt     int // first copies pushed at or behind the emitted horizon
	popNil      int
	divergence  map[string]int
	framesOut   int
	sampleUs    map[int][]int // sample number -> unwrapped positions of its packets
}

type c31PushState struct {
	pkt         *c31Pkt
	pushed      bool
	released    int
	outstanding int   // packets held by the builder just before this push (pushed, not released, not overwritten)
	lateHorizon bool  // at push time, U <= highest U the builder was already done with (emitted by Pop, or released)
	dupAfter    bool  // at push time an earlier copy of this U had been emitted or released
	isDup       bool  // at push time an earlier copy of this U had been pushed
	reinits     int64 // number of active-window re-initialisations of this builder seen before this push
}

// The known late-packet / late-duplicate / suffix-re-emitted findings share one mechanism: the builder keeps its consumed
// horizon only in the active window and re-initialises that window from the filled window (verifhook "sb.active.reinit")
// while consumed or late packets are still in the buffer. c31Reinits counts those events per builder, so that a packet
// coming out again WITHOUT any re-initialisation since it was pushed / first emitted gets a signature of its own.
var (
	c31Reinits   sync.Map    // *samplebuilder.SampleBuilder -> *atomic.Int64
	c31HookAlive atomic.Bool // some re-initialisation event was observed in this process (the hook is compiled in)
)

func c31InstallHook() {
	verifhook.Install(&verifhook.Hooks{Observe: func(name string, key any, _, _ int64) {
		if name != "sb.active.reinit" {
			return
		}
		c31HookAlive.Store(true)
		if c, ok := c31Reinits.Load(key); ok {
			c.(*atomic.Int64).Add(1) //nolint:forcetypeassert
		}
	}})
}

func c31Exec(c *c31Case) *c31Result { //nolint:gocognit,cyclop,maintidx
	res := &c31Result{divergence: map[string]int{}, sampleUs: map[int][]int{}}
	viol := func(sig, format string, a ...any) {
		if len(res.viols) < 4 {
			res.viols = append(res.viols, c31Viol{sig, fmt.Sprintf(format, a...)})
		}
	}
	states := make([]c31PushState, len(c.Pkts))
	for i := range c.Pkts {
		states[i].pkt = &c.Pkts[i]
	}
	byPtr := map[*rtp.Packet]int{}
	type key struct {
		seq  uint16
		copy uint8
	}
	byKey := map[key]int{}
	slot := map[uint16]int{} // seq -> push index currently held (model of "not released, not overwritten")
	outstanding := 0
	pushedU := map[int][]int{}  // U -> push indices so far
	emittedBy := map[int]int{}  // U -> push index that was emitted
	emittedIn := map[int]int{}  // U -> sample number
	releasedU := map[int]bool{} // U -> some copy was released
	haveEmitted, haveDone := false, false
	maxDoneU, prevLastU := 0, 0 // maxDoneU: highest U emitted or released so far ("consumed horizon" as far as observable)
	trace := os.Getenv("VERIF_C31_TRACE") != ""
	if trace {
		fmt.Printf("case class=%s max_late=%d delay_ms=%d headers=%v note=%s\n", c.Class, c.MaxLate, c.DelayMs, c.Headers, c.Note)
	}
	opNo := 0
	reinitCtr := &atomic.Int64{}
	// horizon: each time the "done" horizon (highest position emitted or released) rises, remember how many window
	// re-initialisations had been seen by then
	type c31Horizon struct {
		u       int
		reinits int64
	}
	var horizon []c31Horizon
	raiseHorizon := func(u int) {
		maxDoneU, haveDone = u, true
		horizon = append(horizon, c31Horizon{u, reinitCtr.Load()})
	}
	horizonReinits := func(u int) int64 { // re-initialisations seen when the builder was first done with a position >= u
		for _, h := range horizon {
			if h.u >= u {
				return h.reinits
			}
		}

		return reinitCtr.Load()
	}

	opts := []samplebuilder.Option{samplebuilder.WithPacketReleaseHandler(func(p *rtp.Packet) {
		res.releases++
		pi, ok := byPtr[p]
		if !ok {
			viol("release-of-unknown-packet", "release handler called with a packet that was never pushed (seq %d) at op %d", p.SequenceNumber, opNo)

			return
		}
		s := &states[pi]
		s.released++
		if s.released > 1 {
			viol("double-release", "release handler called %d times for the same pushed packet seq=%d copy=%d at op %d", s.released, s.pkt.Seq, s.pkt.Copy, opNo)

			return
		}
		releasedU[s.pkt.U] = true
		if !haveDone || s.pkt.U > maxDoneU {
			raiseHorizon(s.pkt.U)
		}
		if trace {
			fmt.Printf("      release seq=%d copy=%d\n", s.pkt.Seq, s.pkt.Copy)
		}
		if cur, ok := slot[s.pkt.Seq]; ok && cur == pi {
			delete(slot, s.pkt.Seq)
			outstanding--
		}
	})}
	if c.DelayMs > 0 {
		opts = append(opts, samplebuilder.WithMaxTimeDelay(time.Duration(c.DelayMs)*time.Millisecond))
	}
	if c.Headers {
		opts = append(opts, samplebuilder.WithRTPHeaders(true))
	}
	var dep rtp.Depacketizer = c31Depack{}
	switch c.Codec {
	case "h264":
		dep = &codecs.H264Packet{}
	case "vp8":
		dep = &codecs.VP8Packet{}
	case "opus":
		dep = &codecs.OpusPacket{}
	}
	sb := samplebuilder.New(c.MaxLate, dep, c31SampleRate, opts...)
	c31Reinits.Store(sb, reinitCtr)
	defer c31Reinits.Delete(sb)
	// noReinit: the offending packet came out although the window was not re-initialised since base (push / first emission)
	// (not in the purge-window-below-one-frame input class: there the known wrap-around defect alone makes packets come out
	// much later or twice, with no re-initialisation involved)
	tinyWindow := c.MaxLate <= 1 || (c.DelayMs > 0 && int64(c.DelayMs)*c31SampleRate/1000 < int64(c.MaxStep))
	noReinit := func(base int64) string {
		if !tinyWindow && c31HookAlive.Load() && reinitCtr.Load() == base {
			return ":no-window-reinit"
		}

		return ""
	}

	// Purge window below one frame (maxLate 0/1, or a max time delay shorter than a frame interval, so that the purge loop
	// runs on nearly every push): one cause (the loop steps filled.head/active.head past the tail, packets are orphaned in
	// the ring and come out much later) shows as either symptom, so both share one signature keyed by the input class.
	generic := func(sig string) string {
		if c.MaxLate <= 1 || (c.DelayMs > 0 && int64(c.DelayMs)*c31SampleRate/1000 < int64(c.MaxStep)) {
			return "order-or-single-use-broken:purge-window-below-one-frame"
		}

		return sig
	}
	classify := func(pi int, dupOnly bool) string {
		s := &states[pi]
		where := "nonempty"
		if s.outstanding == 0 {
			where = "empty"
		}
		switch {
		case s.isDup && s.dupAfter:
			return "late-duplicate-on-" + where + "-buffer"
		case dupOnly && s.isDup:
			return "duplicate-emitted-twice"
		case dupOnly:
			return generic("packet-in-two-samples")
		case s.lateHorizon:
			return "late-packet-on-" + where + "-buffer"
		default:
			return generic("out-of-order")
		}
	}

	checkSample := func(sm *media.Sample) {
		res.samples++
		n := res.samples
		// (1) decode
		var idxs []int
		d := sm.Data
		if c.Codec != "" { // real depacketizer: find the tokens
			d = nil
			for j := 0; j+8 <= len(sm.Data); j++ {
				b := sm.Data[j:]
				if b[0] != 0xC3 || b[1] != 0x31 || b[5] != 0xA5 || b[6] != 0x5A || b[7] != 0x3C {
					continue
				}
				k := key{binary.BigEndian.Uint16(b[2:]), b[4]}
				pi, ok := byKey[k]
				if !ok || !states[pi].pushed {
					viol("sample-from-unpushed-packet", "sample #%d (op %d): token seq=%d copy=%d is not a packet pushed so far", n, opNo, k.seq, k.copy)

					return
				}
				idxs = append(idxs, pi)
				j += 7
			}
		}
		for len(d) > 0 {
			if len(d) < 8 || len(d) < 8+int(d[7]) {
				viol("malformed-sample", "sample #%d (op %d): data does not parse as a concatenation of depacketized payloads (%d trailing bytes, data %s)", n, opNo, len(d), kit.Hex(sm.Data))

				return
			}
			k := key{binary.BigEndian.Uint16(d[0:]), d[6]}
			ts := binary.BigEndian.Uint32(d[2:])
			body := d[8 : 8+int(d[7])]
			d = d[8+int(d[7]):]
			pi, ok := byKey[k]
			if !ok || !states[pi].pushed || states[pi].pkt.TS != ts || string(states[pi].pkt.Body) != string(body) {
				viol("sample-from-unpushed-packet", "sample #%d (op %d): chunk seq=%d copy=%d ts=%d is not a packet pushed so far", n, opNo, k.seq, k.copy, ts)

				return
			}
			idxs = append(idxs, pi)
		}
		if len(idxs) == 0 {
			viol("malformed-sample", "sample #%d (op %d): empty data", n, opNo)

			return
		}
		var lst []string
		for _, pi := range idxs {
			lst = append(lst, fmt.Sprintf("%d.%d", states[pi].pkt.Seq, states[pi].pkt.Copy))
		}
		if len(res.sampleLists) < 5000 {
			res.sampleLists = append(res.sampleLists, lst)
		}
		if trace {
			fmt.Printf("      sample #%d %v\n", n, lst)
		}
		us := make([]int, len(idxs))
		for j, pi := range idxs {
			us[j] = states[pi].pkt.U
		}
		res.sampleUs[n] = us
		first := states[idxs[0]].pkt
		for j := 1; j < len(idxs); j++ {
			p, q := states[idxs[j-1]].pkt, states[idxs[j]].pkt
			if q.Seq != p.Seq+1 {
				viol("non-contiguous-run", "sample #%d (op %d) is built from packets %v: seq %d follows %d", n, opNo, lst, q.Seq, p.Seq)

				return
			}
			if q.TS != first.TS {
				sig := "mixed-timestamps"
				if j == len(idxs)-1 && q.Mark && !p.Mark {
					sig = "mixed-timestamps:marker-packet-of-next-timestamp-appended"
				}
				viol(sig, "sample #%d (op %d) is built from packets %v with timestamps %d and %d", n, opNo, lst, first.TS, q.TS)

				return
			}
		}
		if !first.Head {
			viol("not-at-partition-head", "sample #%d (op %d) is built from packets %v: the first one is not a partition head", n, opNo, lst)

			return
		}
		if sm.PacketTimestamp != first.TS {
			res.divergence["packet_timestamp_mismatch"]++
		}
		if c.Headers {
			ok := len(sm.RTPHeaders) == len(idxs)
			for j := 0; ok && j < len(idxs); j++ {
				ok = sm.RTPHeaders[j] != nil && sm.RTPHeaders[j].SequenceNumber == states[idxs[j]].pkt.Seq
			}
			if !ok {
				res.divergence["rtp_headers_mismatch"]++
			}
		}
		// (2) order and single use
		last := states[idxs[len(idxs)-1]].pkt
		reported := false
		for _, pi := range idxs {
			u := states[pi].pkt.U
			if prev, dup := emittedBy[u]; dup {
				sig := classify(pi, true)
				if !(states[pi].isDup && states[pi].dupAfter) {
					// are the sequence numbers of this sample exactly the tail of the previous sample's?
					prevU := res.sampleUs[emittedIn[u]] // the sample that already contained this packet
					suffix := len(prevU) >= len(idxs)
					for j := 0; suffix && j < len(idxs); j++ {
						suffix = prevU[len(prevU)-len(idxs)+j] == states[idxs[j]].pkt.U
					}
					switch {
					case suffix:
						sig = "packet-in-two-samples:suffix-of-emitted-sample-reemitted"
					case prev == pi:
						sig = generic("packet-in-two-samples")
					}
				}
				// The known mechanism re-initialises the window after the first copy was built into a sample and before this one
				// was. Builds are not observable (samples are prepared long before Pop hands them out), so the widest interval is
				// used: no re-initialisation between the push of the first copy and this Pop.
				base := states[pushedU[u][0]].reinits
				if strings.HasPrefix(sig, "late-duplicate-on-") || strings.HasPrefix(sig, "packet-in-two-samples:suffix-") {
					sig += noReinit(base)
				}
				viol(sig, "sample #%d (op %d) = packets %v reuses seq %d (copy %d) which already went into sample #%d (as copy %d); this copy was pushed with %d packets buffered, earlier copy emitted-or-released before this push: %v",
					n, opNo, lst, states[pi].pkt.Seq, states[pi].pkt.Copy, emittedIn[u], states[prev].pkt.Copy, states[pi].outstanding, states[pi].dupAfter)
				reported = true

				break
			}
		}
		if haveEmitted && first.U <= prevLastU && !reported {
			oooSig := classify(idxs[0], false)
			_ = horizonReinits
			viol(oooSig, "sample #%d (op %d) = packets %v comes out after a sample ending at seq %d (not in sequence-number order); its first packet was pushed with %d packets buffered, behind the emitted horizon at push time: %v, duplicate: %v",
				n, opNo, lst, uint16(int(first.Seq)+(prevLastU-first.U)), states[idxs[0]].outstanding, states[idxs[0]].lateHorizon, states[idxs[0]].isDup)
		}
		for _, pi := range idxs {
			u := states[pi].pkt.U
			if _, dup := emittedBy[u]; !dup {
				emittedBy[u] = pi
				emittedIn[u] = n
			}
		}
		if !haveDone || last.U > maxDoneU {
			raiseHorizon(last.U)
		}
		prevLastU = last.U
		haveEmitted = true
	}

	pop := func() bool {
		sm := sb.Pop()
		if sm == nil {
			res.popNil++

			return false
		}
		checkSample(sm)

		return true
	}

	for i, o := range c.Ops {
		opNo = i
		if trace {
			fmt.Printf("op %3d %s   [reinits so far %d, active has data: %d]\n", i, c.opStrings()[i], reinitCtr.Load(), c31PeekActive(sb))
		}
		switch o.K {
		case 'P':
			s := &states[o.P]
			p := s.pkt
			s.outstanding = outstanding
			s.lateHorizon = haveDone && p.U <= maxDoneU
			if prev := pushedU[p.U]; len(prev) > 0 {
				s.isDup = true
				if _, em := emittedBy[p.U]; em || releasedU[p.U] {
					s.dupAfter = true
					res.lateDup++
				} else {
					res.bufDup++
				}
			} else if s.lateHorizon {
				res.latePkt++
			}
			pushedU[p.U] = append(pushedU[p.U], o.P)
			s.pushed = true
			rp := &rtp.Packet{Header: rtp.Header{Version: 2, SequenceNumber: p.Seq, Timestamp: p.TS, Marker: p.Mark, PayloadType: 96, SSRC: 0x31}, Payload: p.payload(c.Codec)}
			byPtr[rp] = o.P
			byKey[key{p.Seq, p.Copy}] = o.P
			if _, held := slot[p.Seq]; !held {
				outstanding++
			}
			slot[p.Seq] = o.P
			res.pushes++
			s.reinits = reinitCtr.Load()
			sb.Push(rp)
		case 'o':
			pop()
		case 'a':
			for k := 0; pop(); k++ {
				if k > len(c.Pkts)+10 {
					viol("pop-never-returns-nil", "Pop returned more samples than packets were pushed (op %d)", opNo)

					break
				}
			}
		case 'F':
			sb.Flush()
		}
	}

	// (3) conservation
	if c.Conserve {
		want := map[string]int{}
		for fi, fr := range c.Frames {
			var lst []string
			for _, u := range fr {
				lst = append(lst, fmt.Sprintf("%d.0", c.Pkts[u].Seq))
			}
			want[strings.Join(lst, " ")] = fi
		}
		got := map[int]int{}
		for _, lst := range res.sampleLists {
			if fi, ok := want[strings.Join(lst, " ")]; ok {
				got[fi]++
			}
		}
		res.framesOut = len(got)
		if res.samples <= 5000 {
			var missing []int
			for fi := range c.Frames {
				if got[fi] == 0 {
					missing = append(missing, fi)
				}
			}
			if len(missing) > 0 {
				// classify by features of the delivery (inputs), not by what the builder did:
				//  - a packet older than everything pushed before the first Pop arrived after that Pop;
				//  - maxLate is below the strict window (some frame becomes complete by the packet that overflows maxLate).
				minBefore, sawPop, startReordered := -1, false, false
				for _, o := range c.Ops {
					switch {
					case o.K == 'P' && !sawPop:
						if u := c.Pkts[o.P].U; minBefore < 0 || u < minBefore {
							minBefore = u
						}
					case o.K == 'P':
						if c.Pkts[o.P].U < minBefore {
							startReordered = true
						}
					case o.K == 'o' || o.K == 'a':
						sawPop = true
					}
				}
				sig := "complete-frame-not-emitted"
				switch {
				case startReordered:
					sig += ":stream-start-reordered-across-first-pop"
				case int(c.MaxLate) < c.StrictSpan:
					sig += ":frame-completes-on-maxlate-overflow"
				}
				fr := c.Frames[missing[0]]
				viol(sig, "loss-free stream, %s, maxLate=%d delay=%dms: %d of %d frames never came out after Flush; first missing: frame %d = seq %d..%d (lowest seq pushed before the first Pop: %d)",
					c.Note, c.MaxLate, c.DelayMs, len(missing), len(c.Frames), missing[0], c.Pkts[fr[0]].Seq, c.Pkts[fr[len(fr)-1]].Seq, uint16(int(c.Pkts[0].Seq)+max(minBefore, 0)-c.Pkts[0].U))
			}
		}
	}

	return res
}

// ------------------------------------------------------------------ test

func TestVerifC31(t *testing.T) {
	run := kit.Start(t, "C31", "op lists (push/pop/flush) over generated frame streams fed to a real SampleBuilder with a self-describing fake depacketizer (15% of non-hostile cases: pion/rtp H264/VP8/Opus depacketizers + payload tokens): "+
		"13 scripted witnesses + seeded random streams in 4 classes (conserve: loss-free bounded reorder with maxLate derived from the delivery, sub-modes core/start/tight; lossy; dups; hostile flags/padding/bursts); "+
		"a case is non-trivial when at least 3 samples came out and the delivery is not the plain in-order loss-free stream; distinct by the full op list + options")
	defer run.Finish()
	c31InstallHook()
	defer verifhook.Install(nil)
	run.Assume("streams span < 2^15 sequence numbers, so serial-number order equals the order of the unwrapped stream positions")
	run.Assume("this SampleBuilder version has no PopWithTimestamp; Sample.PacketTimestamp is compared with the run's timestamp and only counted (not part of the statement)")

	scripted := c31Scripted()
	n := len(scripted) + kit.N(2400, 40000)
	var mu sync.Mutex
	classSeen := map[string]int{}

	one := func(i int) {
		var c *c31Case
		if i < len(scripted) {
			c = scripted[i]
		} else {
			c = c31Gen(run.CaseRand(i), i)
		}
		t0 := time.Now()
		res := c31Exec(c)
		if dt := time.Since(t0); dt > 200*time.Millisecond && os.Getenv("VERIF_C31_STATS") != "" {
			fmt.Printf("C31-SLOW: case %d %v %s ml=%d delay=%d ops=%d\n", i, dt, c.Class, c.MaxLate, c.DelayMs, len(c.Ops))
		}
		nontrivial := res.samples >= 3 && !c.Plain
		run.Case(c.desc(), nontrivial)
		run.Count("samples_checked", res.samples)
		run.Count("packets_pushed", res.pushes)
		run.Count("packets_released", res.releases)
		run.Count("pop_returned_nil", res.popNil)
		run.Count("duplicates_after_original_consumed", res.lateDup)
		run.Count("duplicates_while_original_buffered", res.bufDup)
		run.Count("late_first_copies_behind_emitted_horizon", res.latePkt)
		if c.Conserve {
			run.Count("conservation_cases", 1)
			run.Count("conservation_frames_in", len(c.Frames))
			run.Count("conservation_frames_out", res.framesOut)
		}
		if c.WrapSeq {
			run.Count("cases_with_seq_wrap", 1)
		}
		if c.WrapTS {
			run.Count("cases_with_ts_wrap", 1)
		}
		if c.DelayMs > 0 {
			run.Count("cases_with_max_time_delay", 1)
		}
		for k, v := range res.divergence {
			run.Count("model_divergence:"+k, v)
		}
		run.Seen("class", c.Class)
		if c.Codec != "" {
			run.Seen("real_depacketizer", c.Codec)
		}
		run.Seen("max_late", fmt.Sprintf("%05d", c.MaxLate))
		if i < len(scripted) || (i < len(scripted)+3) {
			run.Sample(map[string]any{"case": i, "class": c.Class, "note": c.Note, "max_late": c.MaxLate, "ops": len(c.Ops), "samples_out": res.samples})
		}
		for _, v := range res.viols {
			mu.Lock()
			classSeen[fmt.Sprintf("%s %s ml=%d", v.sig, c.Class, c.MaxLate)]++
			if os.Getenv("VERIF_C31_STATS") == "2" {
				fmt.Printf("C31-CASE: %d %s ml=%d %s %s %s\n", i, v.sig, c.MaxLate, c.Class, c.Codec, c.Note)
			}
			mu.Unlock()
			lists := res.sampleLists
			if len(lists) > 60 {
				lists = lists[:60]
			}
			run.Violation(v.sig, fmt.Sprintf("[%s%s, maxLate=%d, delay=%dms, %s] %s", c.Class, map[bool]string{true: "/" + c.Codec}[c.Codec != ""], c.MaxLate, c.DelayMs, c.Note, v.what), i, map[string]any{
				"class": c.Class, "note": c.Note, "max_late": c.MaxLate, "max_time_delay_ms": c.DelayMs, "rtp_headers": c.Headers, "depacketizer": c.Codec,
				"ops": c.opStrings(), "samples_emitted_as_seq.copy": lists,
			})
		}
	}
	run.Parallel(n, 12, one)
	if os.Getenv("VERIF_C31_STATS") != "" {
		keys := make([]string, 0, len(classSeen))
		for k := range classSeen {
			keys = append(keys, k)
		}
		sort.Strings(keys)
		for _, k := range keys {
			fmt.Printf("C31-STATS: %4d %s\n", classSeen[k], k)
		}
	}
}

// c31PeekActive is a trace aid only (VERIF_C31_TRACE): 1 active window holds data, 0 empty, -1 layout unknown.
func c31PeekActive(sb *samplebuilder.SampleBuilder) int {
	a := reflect.ValueOf(sb).Elem().FieldByName("active")
	if !a.IsValid() || a.Kind() != reflect.Struct {
		return -1
	}
	h, t := a.FieldByName("head"), a.FieldByName("tail")
	if !h.IsValid() || !t.IsValid() || !h.CanUint() || !t.CanUint() {
		return -1
	}
	if h.Uint() != t.Uint() {
		return int(h.Uint())
	}

	return 0
}
