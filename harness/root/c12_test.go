package webrtc

// C12 — a successful offer describes exactly the local transceivers and data channels.
//
// Oracle, evaluated after every successful CreateOffer (Unified Plan) against the API-visible state read right after the call:
//   * every transceiver of GetTransceivers() has a mid and exactly one non-application m-section carries that mid; no other
//     non-application section exists; the section's media kind and its single direction attribute equal Kind() / Direction(),
//     translated to the SDP literals by the monitor's OWN tables (c12KindLiteral / c12DirLiteral), not by the String() methods
//     the SDP writer prints;
//   * a sending track is announced with `a=msid:<streamID> <trackID>`. Which track a sender sends is the monitor's OWN record
//     (c12Case.attached) of what the harness attached through AddTrack / AddTransceiverFromTrack / AddTransceiverFromKind with a
//     sending direction / ReplaceTrack and detached through ReplaceTrack(nil) / RemoveTrack — kept from the OUTCOMES of those
//     calls: a call that returns an error (track of the other kind, simulcast envelope, codec that cannot be bound) leaves the
//     sender as it was. It is not RTPSender.Track(): the SDP writer omits msid / ssrc lines for a sender whose Track() is nil,
//     so a sender that lost its track by accident would silence writer and oracle alike (Track() is only compared, counter
//     model_divergence_sender_track, and a difference is named in the cause signature). The transceiver direction must be
//     sendrecv / sendonly;
//   * the track objects are the harness's own (c12Track: TrackLocalStaticSample with recorded Bind / Unbind): every SSRC a
//     sending track is bound to at that moment (= it is transmitting on it) must be among the a=ssrc ids;
//     the set of a=ssrc ids, the a=ssrc-group:FID pairs and the a=ssrc-group:FEC-FR pairs equal what the sender itself holds
//     (RTPSender.trackEncodings[i].ssrc / .ssrcRTX / .ssrcFEC read white-box under RTPSender.mu = "the SSRCs its sender will
//     use"; NOT RTPSender.GetParameters(), from which sdp.go:addSenderSDP writes those very lines — GetParameters() is only
//     compared for evidence, counter model_divergence_getparameters); before any remote description was applied, a video
//     sender of an engine with an attached rtx / a flexfec codec must carry an RTX / FEC ssrc (that is "when those are enabled");
//     with more than one encoding every RID (RID() of the encoding's track object) has an `a=rid:<rid> send` line;
//   * an application section is present exactly when this side created a data channel or AlwaysNegotiateDataChannels is set
//     (given to NewPeerConnection or switched on later by a successful SetConfiguration); never more than one. When only the
//     REMOTE side created a data channel and negotiated it, the statement is silent (the section then exists because an
//     m-section can never be withdrawn): presence is only counted there, duplication is still judged.
// The SDP side is read with kit.ParseSDP only.
//
// Tracks are of codecs that are registered and negotiated, registered but not negotiated (in a quarter of the cases the peer's
// engine lacks some of pc's codecs) or not registered at all; after a negotiation ReplaceTrack gets a larger share of the
// operations and prefers transmitting senders, so that its success path and each of its error paths are followed by offers.
//
// Histories cover both roles in the first negotiation: the PeerConnection under test may offer first, or may first ANSWER an
// offer of the peer (media only / data only / media + data) and create its own offers afterwards, so that offers are built
// against every kind of current remote description (none, with, without application section).
//
// Mids that CreateOffer did not hand out: an offer of the peer may stay PENDING on pc (have-remote-offer) while pc adds
// transceivers and creates offers, and is then answered or ROLLED BACK (the transceivers created for it keep the remote offer's
// mids although no current remote description names them); and the application may assign the mid of a new transceiver itself
// (RTPTransceiver.SetMid: a free small number or a non-numeric token) before CreateOffer sees it. The clause "each transceiver
// has exactly one m-section carrying its mid" is judged for all of them alike; the cause signature of a mid that names several
// sections says who handed the mid out to each transceiver carrying it (user / remote-offer / exchange / CreateOffer).

import (
	"errors"
	"fmt"
	"sort"
	"strconv"
	"strings"
	"sync"
	"testing"
	"time"

	kit "github.com/pion/webrtc/v4/internal/verifkit"
)

// ------------------------------------------------------------------ engines

type c12EngineSpec struct {
	Name string
	RTX  bool
	FEC  bool
}

var c12Engines = []c12EngineSpec{ //nolint:gochecknoglobals
	{"default", true, false}, // RegisterDefaultCodecs: rtx, no flexfec
	{"plain", false, false},
	{"rtx", true, false},
	{"rtx+fec", true, true},
	{"fec", false, true},
}

func c12BuildEngine(s c12EngineSpec) *MediaEngine { return c12BuildEngineWithout(s, nil) }

// c12BuildEngineWithout builds the engine of spec s; with a non-empty drop set it is always the explicit codec list (also for
// the "default" spec) without the dropped mime types (and without the rtx codec that belongs to a dropped video codec): the
// engine of a peer that supports only a SUBSET of the codecs, so that a negotiation leaves pc with fewer negotiated than
// registered codecs.
func c12BuildEngineWithout(s c12EngineSpec, drop map[string]bool) *MediaEngine {
	me := &MediaEngine{}
	if s.Name == "default" && len(drop) == 0 {
		if err := me.RegisterDefaultCodecs(); err != nil {
			panic(err)
		}
	} else {
		fb := []RTCPFeedback{{Type: "nack"}, {Type: "nack", Parameter: "pli"}, {Type: "goog-remb"}}
		reg := func(c RTPCodecParameters, typ RTPCodecType) {
			if drop[c.MimeType] || (c.MimeType == MimeTypeRTX && ((c.SDPFmtpLine == "apt=96" && drop[MimeTypeVP8]) || (c.SDPFmtpLine == "apt=102" && drop[MimeTypeH264]))) {
				return
			}
			if err := me.RegisterCodec(c, typ); err != nil {
				panic(err)
			}
		}
		reg(RTPCodecParameters{RTPCodecCapability: RTPCodecCapability{MimeType: MimeTypeOpus, ClockRate: 48000, Channels: 2, SDPFmtpLine: "minptime=10;useinbandfec=1"}, PayloadType: 111}, RTPCodecTypeAudio)
		reg(RTPCodecParameters{RTPCodecCapability: RTPCodecCapability{MimeType: MimeTypePCMU, ClockRate: 8000}, PayloadType: 0}, RTPCodecTypeAudio)
		reg(RTPCodecParameters{RTPCodecCapability: RTPCodecCapability{MimeType: MimeTypeVP8, ClockRate: 90000, RTCPFeedback: fb}, PayloadType: 96}, RTPCodecTypeVideo)
		reg(RTPCodecParameters{RTPCodecCapability: RTPCodecCapability{
			MimeType: MimeTypeH264, ClockRate: 90000, SDPFmtpLine: "level-asymmetry-allowed=1;packetization-mode=1;profile-level-id=42001f", RTCPFeedback: fb,
		}, PayloadType: 102}, RTPCodecTypeVideo)
		if s.RTX {
			reg(RTPCodecParameters{RTPCodecCapability: RTPCodecCapability{MimeType: MimeTypeRTX, ClockRate: 90000, SDPFmtpLine: "apt=96"}, PayloadType: 97}, RTPCodecTypeVideo)
			reg(RTPCodecParameters{RTPCodecCapability: RTPCodecCapability{MimeType: MimeTypeRTX, ClockRate: 90000, SDPFmtpLine: "apt=102"}, PayloadType: 103}, RTPCodecTypeVideo)
		}
		if s.FEC {
			reg(RTPCodecParameters{RTPCodecCapability: RTPCodecCapability{MimeType: MimeTypeFlexFEC03, ClockRate: 90000, SDPFmtpLine: "repair-window=10000000"}, PayloadType: 118}, RTPCodecTypeVideo)
		}
	}
	for _, uri := range []string{"urn:ietf:params:rtp-hdrext:sdes:mid", "urn:ietf:params:rtp-hdrext:sdes:rtp-stream-id", "urn:ietf:params:rtp-hdrext:sdes:repaired-rtp-stream-id"} {
		for _, typ := range []RTPCodecType{RTPCodecTypeAudio, RTPCodecTypeVideo} {
			if err := me.RegisterHeaderExtension(RTPHeaderExtensionCapability{URI: uri}, typ); err != nil {
				panic(err)
			}
		}
	}

	return me
}

// ------------------------------------------------------------------ case

type c12Step struct {
	Op     string `json:"op"`
	Detail string `json:"detail,omitempty"`
	Err    string `json:"err,omitempty"`
}

type c12Case struct {
	run  *kit.Run
	idx  int
	r    *kit.Rand
	eng  c12EngineSpec
	pc   *PeerConnection
	peer *PeerConnection

	always     bool // AlwaysNegotiateDataChannels as this side set it (NewPeerConnection or a successful SetConfiguration)
	alwaysInit bool // ... the value given to NewPeerConnection
	dcCreated  bool // this side created a data channel
	remoteSet  int  // number of remote descriptions applied on pc
	peerFirst  bool // the peer makes the first offer of the case (pc starts as answerer)
	localNew   bool // pc got a transceiver since the last complete exchange: its mid is only tentative (CreateOffer without SetLocalDescription)
	peerDC     bool // the peer created a data channel
	peerDCNeg  bool // ... and an offer of the peer carrying it was answered by pc
	pcOffered  bool // an offer of pc was applied in a complete exchange

	remoteSeen    bool // some remote description was applied on pc, be it only a pending offer that was rolled back later (the MediaEngine has seen it)
	inRemoteOffer bool // pc is in have-remote-offer right now (an offer of the peer is pending)
	rolledBack    bool // a remote offer was applied on pc and rolled back
	pendingSeen   bool // a remote offer was left pending on pc at some point of the case
	peerDCPending bool // the pending remote offer may carry the peer's data channel (statement silent about the application section)
	userMids      int  // mids the application assigned itself (RTPTransceiver.SetMid before any CreateOffer touched the transceiver)

	// midOrigin: who gave each transceiver of pc its mid, as the harness saw it happen (the call after which the transceiver first
	// carried a mid): "user" (SetMid), "remote-offer" (SetRemoteDescription(offer) matched / created it), "exchange", "CreateOffer".
	// Evidence and cause signatures only.
	midOrigin map[*RTPTransceiver]string

	peerDrop map[string]bool // mime types the peer's engine lacks (nil: the peer's engine is configured like pc's)

	// attached is the monitor's OWN record of which track the harness attached to which sender of pc, maintained from the
	// outcomes of the API calls only (a failed call changes nothing). The oracle's "sending track" comes from here, not from
	// RTPSender.Track(), which is the very field the SDP writer consults before it prints a=msid / a=ssrc.
	attached map[*RTPSender]*c12Attachment

	answeredFirst bool // the first complete exchange of the case was started by the peer
	nTrack        int
	steps         []c12Step
	nontriv       bool
	offers        int
	dead          bool // an exchange failed: the signaling state is not reliable any more
}

func (c *c12Case) step(op, detail string, err error) {
	s := c12Step{Op: op, Detail: detail}
	if err != nil {
		s.Err = err.Error()
	}
	c.steps = append(c.steps, s)
}

func (c *c12Case) violation(sig, what, sdp string) {
	c.run.Violation(sig, what, c.idx, map[string]any{
		"engine": c.eng.Name, "peer_engine": c.peerEngineDesc(), "always_negotiate_datachannels": c.always, "always_at_construction": c.alwaysInit, "peer_first": c.peerFirst, "steps": c.steps, "offer": sdp, "state": c.stateDump(),
	})
}

func (c *c12Case) describeCause(snd *RTPSender, cause string) string {
	if cause == "" {
		return ""
	}
	att := c.attached[snd]
	api := "nil"
	if tr := snd.Track(); tr != nil {
		api = tr.StreamID() + "/" + tr.ID()
	}
	mine := "nil"
	if att.track != nil {
		mine = fmt.Sprintf("%s (bound on SSRCs %v)", c12TrackLabel(att.track), c12Bound(att.track))
	}

	return fmt.Sprintf("; the harness attached %s to this sender (last call on it: %s; Track() first differed after: %s), RTPSender.Track() reports %s", mine, att.lastOp, att.divergedAfter, api)
}

func (c *c12Case) stateDump() []string {
	var out []string
	for i, t := range c.pc.GetTransceivers() {
		s := fmt.Sprintf("#%d mid=%q kind=%s dir=%s", i, t.Mid(), t.Kind(), t.Direction())
		if snd := t.Sender(); snd != nil {
			if tr := snd.Track(); tr != nil {
				s += fmt.Sprintf(" track=%s/%s", tr.StreamID(), tr.ID())
			} else {
				s += " track=nil"
			}
			if att := c.attached[snd]; att != nil {
				if att.track != nil {
					s += fmt.Sprintf(" attached{%s bound=%v last=%q unknown=%v}", c12TrackLabel(att.track), c12Bound(att.track), att.lastOp, att.unknown)
				} else {
					s += fmt.Sprintf(" attached{nil last=%q unknown=%v}", att.lastOp, att.unknown)
				}
			}
			for _, e := range c12SenderEncodings(snd) {
				s += fmt.Sprintf(" enc{rid=%q ssrc=%d rtx=%d fec=%d}", e.RID, e.SSRC, e.RTX, e.FEC)
			}
			for _, e := range snd.GetParameters().Encodings {
				s += fmt.Sprintf(" GetParameters{rid=%q ssrc=%d rtx=%d fec=%d}", e.RID, e.SSRC, e.RTX.SSRC, e.FEC.SSRC)
			}
		} else {
			s += " sender=nil"
		}
		out = append(out, s)
	}

	return out
}

// c12Track is the track object the harness hands to pion: a TrackLocalStaticSample whose Bind / Unbind calls are recorded.
// "Bound" (Bind succeeded and no Unbind since) is an observation made by the track itself, independent of any RTPSender
// field: a bound track is one whose samples the sender transmits, on the SSRC the bind context names.
type c12Track struct {
	*TrackLocalStaticSample
	mime string

	mu    sync.Mutex
	bound map[string]uint64 // bind context id -> SSRC of the context
}

func (t *c12Track) Bind(ctx TrackLocalContext) (RTPCodecParameters, error) {
	codec, err := t.TrackLocalStaticSample.Bind(ctx)
	if err == nil {
		t.mu.Lock()
		if t.bound == nil {
			t.bound = map[string]uint64{}
		}
		t.bound[ctx.ID()] = uint64(ctx.SSRC())
		t.mu.Unlock()
	}

	return codec, err
}

func (t *c12Track) Unbind(ctx TrackLocalContext) error {
	err := t.TrackLocalStaticSample.Unbind(ctx)
	if err == nil {
		t.mu.Lock()
		delete(t.bound, ctx.ID())
		t.mu.Unlock()
	}

	return err
}

// boundSSRCs: the SSRCs this track is currently bound to (sorted).
func (t *c12Track) boundSSRCs() []string {
	t.mu.Lock()
	defer t.mu.Unlock()
	out := make([]string, 0, len(t.bound))
	for _, v := range t.bound {
		out = append(out, c12U(v))
	}
	sort.Strings(out)

	return out
}

func (t *c12Track) label() string {
	return t.Kind().String() + " " + strings.TrimPrefix(strings.TrimPrefix(t.mime, "video/"), "audio/") + " " + t.StreamID() + "/" + t.ID()
}

// c12Attachment: what the harness attached to one sender, and through which call it last touched it.
type c12Attachment struct {
	track  TrackLocal // nil: the harness detached the track (successful ReplaceTrack(nil))
	mine   *c12Track  // == track when the harness built the track object (not for the track AddTransceiverFromKind creates itself)
	lastOp string     // last API call on this sender and its outcome class (stable text: part of cause signatures)
	// divergedAfter: the call after which RTPSender.Track() was first seen to differ from this record (read right after each
	// ReplaceTrack; "" while they agree). Only names the cause in signatures, never decides a verdict.
	divergedAfter string
	unknown       bool // a call failed half-way in a manner the statement does not cover: fall back to what the API reports
}

// attach records that tr (nil: no track) is now the track of sender s.
func (c *c12Case) attach(s *RTPSender, tr TrackLocal, op string) {
	if s == nil {
		return
	}
	if c.attached == nil {
		c.attached = map[*RTPSender]*c12Attachment{}
	}
	att := &c12Attachment{track: tr, lastOp: op}
	att.mine, _ = tr.(*c12Track)
	c.attached[s] = att
}

// c12Bound: the SSRCs a track object is bound to right now. For the harness's own tracks this is their own Bind / Unbind
// record; for a track pion created itself (AddTransceiverFromKind with a sending direction) the binding list of the static
// track is read white-box. Used for the generator's situation labels and to recognise a half-way failure, and (own tracks
// only) by the bound-ssrc clause of the oracle.
func c12Bound(tr TrackLocal) []string {
	switch t := tr.(type) {
	case *c12Track:
		return t.boundSSRCs()
	case *TrackLocalStaticSample:
		t.rtpTrack.mu.RLock()
		defer t.rtpTrack.mu.RUnlock()
		var out []string
		for _, b := range t.rtpTrack.bindings {
			out = append(out, c12U(uint64(b.ssrc)))
		}
		sort.Strings(out)

		return out
	default:
		return nil
	}
}

func c12TrackLabel(tr TrackLocal) string {
	switch t := tr.(type) {
	case nil:
		return "nil"
	case *c12Track:
		return t.label()
	default:
		return tr.Kind().String() + " (made by pion) " + tr.StreamID() + "/" + tr.ID()
	}
}

// c12Codecs: the codecs tracks are made of. The first entries of each kind are registered in every engine of c12Engines; the
// others only in the "default" engine (RegisterDefaultCodecs), so that tracks exist whose codec is (a) registered and
// negotiated, (b) registered but not negotiated (peer with a codec subset), (c) not registered at all.
var c12VideoCodecs = []RTPCodecCapability{ //nolint:gochecknoglobals
	{MimeType: MimeTypeVP8, ClockRate: 90000},
	{MimeType: MimeTypeH264, ClockRate: 90000, SDPFmtpLine: "level-asymmetry-allowed=1;packetization-mode=1;profile-level-id=42001f"},
	{MimeType: MimeTypeVP9, ClockRate: 90000, SDPFmtpLine: "profile-id=0"},
	{MimeType: MimeTypeAV1, ClockRate: 90000},
	{MimeType: MimeTypeH265, ClockRate: 90000},
}

var c12AudioCodecs = []RTPCodecCapability{ //nolint:gochecknoglobals
	{MimeType: MimeTypeOpus, ClockRate: 48000, Channels: 2},
	{MimeType: MimeTypePCMU, ClockRate: 8000},
	{MimeType: MimeTypePCMA, ClockRate: 8000},
	{MimeType: MimeTypeG722, ClockRate: 8000},
}

// newTrack builds a track of the given kind. With probability pAny the codec is drawn from the whole list of its kind
// (registered or not, negotiated or not); otherwise it is one of the usual VP8 / H264 / Opus.
func (c *c12Case) newTrack(kind RTPCodecType, rid string, pAny float64) *c12Track {
	c.nTrack++
	anyCodec, h264 := c.r.Chance(pAny), c.r.Chance(0.3)
	var capab RTPCodecCapability
	switch {
	case kind == RTPCodecTypeAudio && anyCodec:
		capab = kit.Pick(c.r, c12AudioCodecs)
	case kind == RTPCodecTypeAudio:
		capab = c12AudioCodecs[0]
	case anyCodec:
		capab = kit.Pick(c.r, c12VideoCodecs)
	case h264:
		capab = c12VideoCodecs[1]
	default:
		capab = c12VideoCodecs[0]
	}
	var opts []func(*TrackLocalStaticRTP)
	if rid != "" {
		opts = append(opts, WithRTPStreamID(rid))
	}
	tr, err := NewTrackLocalStaticSample(capab, fmt.Sprintf("track%d", c.nTrack), fmt.Sprintf("stream%d", c.r.Intn(3)), opts...)
	if err != nil {
		panic(err)
	}

	return &c12Track{TrackLocalStaticSample: tr, mime: capab.MimeType}
}

// codecClass says, from the harness's own knowledge of the engines it built, how a track's codec relates to this case.
func (c *c12Case) codecClass(tr *c12Track) string {
	registered := c.eng.Name == "default"
	switch tr.mime {
	case MimeTypeVP8, MimeTypeH264, MimeTypeOpus, MimeTypePCMU:
		registered = true
	}
	switch {
	case !registered:
		return "codec not registered"
	case c.peerDrop[tr.mime] || (len(c.peerDrop) > 0 && tr.mime != MimeTypeVP8 && tr.mime != MimeTypeH264 && tr.mime != MimeTypeOpus && tr.mime != MimeTypePCMU):
		return "codec registered, not supported by the peer"
	default:
		return "codec registered and supported by the peer"
	}
}

func (c *c12Case) kind() RTPCodecType {
	if c.r.Chance(0.4) {
		return RTPCodecTypeAudio
	}

	return RTPCodecTypeVideo
}

// ------------------------------------------------------------------ oracle

func c12SSRCGroups(m *kit.SDPMedia, semantic string) []string {
	var out []string
	for _, v := range m.AttrAll("ssrc-group") {
		f := strings.Fields(v)
		if len(f) >= 1 && f[0] == semantic {
			out = append(out, strings.Join(f[1:], " "))
		}
	}
	sort.Strings(out)

	return out
}

func c12Uniq(xs []string) []string {
	sort.Strings(xs)
	var out []string
	for i, x := range xs {
		if i == 0 || xs[i-1] != x {
			out = append(out, x)
		}
	}

	return out
}

// c12KindLiteral / c12DirLiteral: the monitor's own tables from the API constants to the SDP literals (RFC 8866 media names,
// RFC 4566 direction attributes). RTPCodecType.String() / RTPTransceiverDirection.String() are NOT used in a deciding
// comparison: the SDP writer (sdp.go) prints exactly those, so a swapped or misspelled entry there would be invisible.
func c12KindLiteral(k RTPCodecType) string {
	switch k { //nolint:exhaustive
	case RTPCodecTypeAudio:
		return "audio"
	case RTPCodecTypeVideo:
		return "video"
	default:
		return fmt.Sprintf("unknown-kind(%d)", int(k))
	}
}

func c12DirLiteral(d RTPTransceiverDirection) string {
	switch d { //nolint:exhaustive
	case RTPTransceiverDirectionSendrecv:
		return "sendrecv"
	case RTPTransceiverDirectionSendonly:
		return "sendonly"
	case RTPTransceiverDirectionRecvonly:
		return "recvonly"
	case RTPTransceiverDirectionInactive:
		return "inactive"
	default:
		return fmt.Sprintf("unknown-direction(%d)", int(d))
	}
}

// c12Enc is one encoding of a sender as the sender itself holds it: "the SSRCs its sender will use".
type c12Enc struct {
	RID            string
	SSRC, RTX, FEC uint64
}

// c12SenderEncodings reads the sender's own encoding state white-box (RTPSender.trackEncodings under RTPSender.mu), in the
// sender's order. It deliberately does not go through RTPSender.GetParameters(): sdp.go:addSenderSDP writes the a=ssrc /
// a=ssrc-group / a=rid lines from GetParameters(), so an oracle built on it could never disagree with the text. These fields are
// what RTPSender.Send binds the SRTP streams / interceptors to and what the packets of the track are stamped with.
func c12SenderEncodings(s *RTPSender) []c12Enc {
	s.mu.RLock()
	tracks := make([]TrackLocal, 0, len(s.trackEncodings))
	out := make([]c12Enc, 0, len(s.trackEncodings))
	for _, te := range s.trackEncodings {
		out = append(out, c12Enc{SSRC: uint64(te.ssrc), RTX: uint64(te.ssrcRTX), FEC: uint64(te.ssrcFEC)})
		tracks = append(tracks, te.track)
	}
	s.mu.RUnlock()
	for i, tr := range tracks {
		if tr != nil {
			out[i].RID = tr.RID() // the track object the harness itself built (WithRTPStreamID)
		}
	}

	return out
}

func c12U(v uint64) string { return strconv.FormatUint(v, 10) }

func (c *c12Case) checkOffer(offer SessionDescription) { //nolint:cyclop,gocognit
	d, err := kit.ParseSDP(offer.SDP)
	if err != nil {
		c.violation("offer-unparsable", err.Error(), offer.SDP)

		return
	}
	c.offers++
	c.run.Count("offers_checked", 1)
	c.noteMids("CreateOffer")
	trs := append([]*RTPTransceiver{}, c.pc.GetTransceivers()...)
	c.offerSituation(trs, d)
	var media, apps []*kit.SDPMedia
	for _, m := range d.Media {
		if m.Kind == "application" {
			apps = append(apps, m)
		} else {
			media = append(media, m)
		}
	}
	byMid := map[string][]*kit.SDPMedia{}
	for _, m := range media {
		mid, ok := m.Mid()
		if !ok {
			c.violation("section-without-mid", "media section without a=mid: "+m.Lines[0], offer.SDP)

			continue
		}
		byMid[mid] = append(byMid[mid], m)
	}
	owned := map[*kit.SDPMedia]bool{}
	sending := 0
	for i, t := range trs {
		c.run.Count("transceivers_checked", 1)
		mid := t.Mid()
		if mid == "" {
			c.violation("transceiver-without-mid", fmt.Sprintf("transceiver #%d (%s %s) has no mid after a successful CreateOffer", i, t.Kind(), t.Direction()), offer.SDP)

			continue
		}
		secs := byMid[mid]
		switch {
		case len(secs) == 0:
			c.violation("transceiver-missing-section", fmt.Sprintf("transceiver #%d mid=%q (%s %s) has no m-section in the offer", i, mid, t.Kind(), t.Direction()), offer.SDP)

			continue
		case len(secs) > 1:
			// cause: when several transceivers carry this mid, the signature says who handed the mid out to each of them
			sig, sharers := "transceiver-multiple-sections", ""
			var origins []string
			for j, o := range trs {
				if o.Mid() == mid {
					origins = append(origins, c.midOrigin[o])
					sharers += fmt.Sprintf(" #%d(%s %s, mid from %s)", j, o.Kind(), o.Direction(), c.midOrigin[o])
				}
			}
			if len(origins) > 1 {
				sort.Strings(origins)
				sig += ":mid-shared-by-transceivers:" + strings.Join(origins, "+")
			}
			c.violation(sig, fmt.Sprintf("mid %q of transceiver #%d appears in %d media sections; transceivers carrying it:%s", mid, i, len(secs), sharers), offer.SDP)

			continue
		}
		m := secs[0]
		if owned[m] {
			c.violation("two-transceivers-one-section", fmt.Sprintf("mid %q is shared by two transceivers", mid), offer.SDP)

			continue
		}
		owned[m] = true
		wantKind := c12KindLiteral(t.Kind())
		if m.Kind != wantKind {
			c.violation("kind-mismatch", fmt.Sprintf("mid %q: section is m=%s, transceiver kind is %s", mid, m.Kind, wantKind), offer.SDP)
		}
		dirs := m.Directions()
		dir := t.Direction()
		wantDir := c12DirLiteral(dir)
		c.run.Seen("directions_checked", wantDir)
		if len(dirs) != 1 || dirs[0] != wantDir {
			c.violation("direction-mismatch:"+wantDir, fmt.Sprintf("mid %q: section direction attributes %v, transceiver Direction() is %s", mid, dirs, wantDir), offer.SDP)
		}
		if wantKind != t.Kind().String() || wantDir != dir.String() {
			c.run.Count("model_divergence_string_tables", 1) // String() disagrees with the monitor's literals: evidence only
		}
		snd := t.Sender()
		if snd == nil || (dir != RTPTransceiverDirectionSendrecv && dir != RTPTransceiverDirectionSendonly) {
			continue
		}
		// Which track is "a sending track" of this sender is decided by the monitor's own record of what the harness attached
		// (c.attached: AddTrack / AddTransceiverFromTrack / ReplaceTrack outcomes; a failed call changes nothing), not by
		// RTPSender.Track(): the SDP writer skips a sender whose Track() is nil, so a sender that lost its track by accident
		// would silence oracle and writer alike. Track() is only compared (model_divergence_sender_track) and names the cause.
		apiTrack := snd.Track()
		track := apiTrack
		var mine *c12Track
		cause := ""
		if att := c.attached[snd]; att == nil || att.unknown {
			c.run.Count("senders_judged_by_api_track", 1)
		} else {
			mine = att.mine
			if att.track != apiTrack {
				c.run.Count("model_divergence_sender_track", 1)
				after := att.lastOp
				if att.divergedAfter != "" {
					after = att.divergedAfter
				}
				c.run.Seen("model_divergence_sender_track_after", after)
				cause = ":sender-track-differs-from-attached:after-" + after
			}
			track = att.track
			c.run.Count("senders_judged_by_own_record", 1)
		}
		if track == nil {
			c.run.Count("senders_without_track", 1)

			continue
		}
		sending++
		c.run.Count("sending_tracks_checked", 1)
		wantMsid := track.StreamID() + " " + track.ID()
		found := false
		for _, v := range m.AttrAll("msid") {
			if v == wantMsid {
				found = true
			}
		}
		if !found {
			c.violation("msid-missing"+cause, fmt.Sprintf("mid %q: sending track not announced: want a=msid:%s, section has %v%s", mid, wantMsid, m.AttrAll("msid"), c.describeCause(snd, cause)), offer.SDP)
		}
		encs := c12SenderEncodings(snd) // the sender's own state, not GetParameters() (which the SDP writer itself prints)
		var wantSSRC, wantFID, wantFEC []string
		for _, e := range encs {
			wantSSRC = append(wantSSRC, c12U(e.SSRC))
			if e.RTX != 0 {
				wantSSRC = append(wantSSRC, c12U(e.RTX))
				wantFID = append(wantFID, c12U(e.SSRC)+" "+c12U(e.RTX))
			}
			if e.FEC != 0 {
				wantSSRC = append(wantSSRC, c12U(e.FEC))
				wantFEC = append(wantFEC, c12U(e.SSRC)+" "+c12U(e.FEC))
			}
		}
		// evidence only: does the public view agree with the sender's state? (a disagreement surfaces as a verdict only through
		// the SDP comparison below, because the statement speaks about the offer, not about GetParameters)
		if pub := snd.GetParameters().Encodings; len(pub) != len(encs) {
			c.run.Count("model_divergence_getparameters", 1)
		} else {
			for k, p := range pub {
				if uint64(p.SSRC) != encs[k].SSRC || uint64(p.RTX.SSRC) != encs[k].RTX || uint64(p.FEC.SSRC) != encs[k].FEC || p.RID != encs[k].RID {
					c.run.Count("model_divergence_getparameters", 1)

					break
				}
			}
		}
		var gotSSRC []string
		for _, v := range m.AttrAll("ssrc") {
			id, _, _ := strings.Cut(v, " ")
			gotSSRC = append(gotSSRC, id)
		}
		wantSSRC, gotSSRC = c12Uniq(wantSSRC), c12Uniq(gotSSRC)
		sort.Strings(wantFID)
		sort.Strings(wantFEC)
		if strings.Join(wantSSRC, ",") != strings.Join(gotSSRC, ",") {
			c.violation("ssrc-set-mismatch"+cause, fmt.Sprintf("mid %q: a=ssrc ids %v, sender encodings use %v%s", mid, gotSSRC, wantSSRC, c.describeCause(snd, cause)), offer.SDP)
		}
		if mine != nil {
			// the SSRCs the track object itself was bound to (its own Bind / Unbind record): SSRCs in use right now
			if bound := mine.boundSSRCs(); len(bound) > 0 {
				c.run.Count("sending_tracks_bound", 1)
				for _, id := range bound {
					if k := sort.SearchStrings(gotSSRC, id); k == len(gotSSRC) || gotSSRC[k] != id {
						c.violation("bound-ssrc-not-announced"+cause, fmt.Sprintf("mid %q: track %s is bound (transmitting) on SSRC %s, a=ssrc ids are %v%s", mid, mine.label(), id, gotSSRC, c.describeCause(snd, cause)), offer.SDP)
					}
				}
			}
		}
		if got := c12SSRCGroups(m, "FID"); strings.Join(got, ",") != strings.Join(wantFID, ",") {
			c.violation("ssrc-group-fid-mismatch"+cause, fmt.Sprintf("mid %q: a=ssrc-group:FID %v, sender encodings give %v", mid, got, wantFID), offer.SDP)
		}
		if got := c12SSRCGroups(m, "FEC-FR"); strings.Join(got, ",") != strings.Join(wantFEC, ",") {
			c.violation("ssrc-group-fec-mismatch"+cause, fmt.Sprintf("mid %q: a=ssrc-group:FEC-FR %v, sender encodings give %v", mid, got, wantFEC), offer.SDP)
		}
		if len(wantFID) > 0 {
			c.run.Count("sending_tracks_with_rtx", 1)
		}
		if len(wantFEC) > 0 {
			c.run.Count("sending_tracks_with_fec", 1)
		}
		if c.remoteSet == 0 && !c.remoteSeen && t.Kind() == RTPCodecTypeVideo {
			// "when those are enabled": known from the engine this case registered, only while nothing was negotiated yet
			if c.eng.RTX && len(wantFID) != len(encs) {
				c.violation("rtx-enabled-without-rtx-ssrc", fmt.Sprintf("mid %q: engine %s registers rtx, sender has %d encodings but %d RTX ssrcs", mid, c.eng.Name, len(encs), len(wantFID)), offer.SDP)
			}
			if c.eng.FEC && len(wantFEC) != len(encs) {
				c.violation("fec-enabled-without-fec-ssrc", fmt.Sprintf("mid %q: engine %s registers flexfec, sender has %d encodings but %d FEC ssrcs", mid, c.eng.Name, len(encs), len(wantFEC)), offer.SDP)
			}
		}
		if len(encs) > 1 {
			c.run.Count("simulcast_senders_checked", 1)
			rids := map[string]bool{}
			for _, v := range m.AttrAll("rid") {
				f := strings.Fields(v)
				if len(f) >= 2 && f[1] == "send" {
					rids[f[0]] = true
				}
			}
			for _, e := range encs {
				if !rids[e.RID] {
					c.violation("rid-missing", fmt.Sprintf("mid %q: encoding rid %q has no a=rid:%s send line (rid lines: %v)", mid, e.RID, e.RID, m.AttrAll("rid")), offer.SDP)
				}
			}
		}
	}
	for _, m := range media {
		if mid, ok := m.Mid(); ok && !owned[m] && len(byMid[mid]) == 1 {
			c.violation("section-without-transceiver", fmt.Sprintf("media section mid %q (%s) corresponds to no transceiver", mid, m.Lines[0]), offer.SDP)
		}
	}
	wantApp := c.dcCreated || c.always
	c.run.Seen("application_expected", fmt.Sprintf("dc=%v always=%v", c.dcCreated, c.always))
	// which generator situation this offer was built in (evidence + cause signature only, never decides the verdict)
	remoteApp := "no-remote-description"
	if rd := c.pc.CurrentRemoteDescription(); rd != nil {
		remoteApp = "remote-without-application"
		if p, perr := kit.ParseSDP(rd.SDP); perr == nil {
			for _, m := range p.Media {
				if m.Kind == "application" {
					remoteApp = "remote-with-application"
				}
			}
		}
	}
	why := "none"
	switch {
	case c.dcCreated && c.always:
		why = "datachannel+always"
	case c.dcCreated:
		why = "datachannel"
	case c.always:
		why = "always"
	}
	c.run.Seen("application_situations", why+"/"+remoteApp)
	if c.pc.GetConfiguration().AlwaysNegotiateDataChannels != c.always {
		c.run.Count("model_divergence_config_readback", 1)
	}
	switch {
	case wantApp && len(apps) == 0:
		c.violation("application-section-missing:"+why+":"+remoteApp, fmt.Sprintf("data channel created=%v AlwaysNegotiateDataChannels=%v (at construction %v) but the offer has no application section; offer built with %s",
			c.dcCreated, c.always, c.alwaysInit, remoteApp), offer.SDP)
	case !wantApp && (c.peerDCNeg || c.peerDCPending):
		// only the remote side asked for data channels: outside the statement, observed only
		c.run.Seen("application_remote_datachannel_only", fmt.Sprintf("sections=%d", len(apps)))
	case !wantApp && len(apps) > 0:
		c.violation("application-section-unexpected:"+remoteApp, "no data channel was created and AlwaysNegotiateDataChannels is off, but the offer has an application section", offer.SDP)
	}
	if len(apps) > 1 {
		c.violation("application-section-duplicated:"+remoteApp, fmt.Sprintf("%d application sections", len(apps)), offer.SDP)
	}
	if c.answeredFirst {
		c.run.Count("offers_checked_after_answering_first", 1)
	}
	if len(trs) >= 1 && sending >= 1 && len(d.Media) >= 2 {
		c.nontriv = true
		c.run.Count("offers_nontrivial", 1)
	}
	if c.remoteSet > 0 {
		c.run.Count("offers_checked_renegotiation", 1)
	}
}

// ------------------------------------------------------------------ operations

func (c *c12Case) offerAndCheck() {
	offer, err := c.pc.CreateOffer(nil)
	if err != nil {
		c.step("CreateOffer", "", err)
		c.run.Seen("create_offer_errors", c12ErrClass(err))
		// CreateOffer failing is outside the statement (it speaks about successful calls); the situation is kept as evidence
		c.run.Seen("create_offer_error_situations", fmt.Sprintf("have-remote-offer=%v, remote offer was left pending before=%v, rolled back before=%v, user mids=%v: %s",
			c.inRemoteOffer, c.pendingSeen, c.rolledBack, c.userMids > 0, c12ErrClass(err)))

		return
	}
	c.checkOffer(offer)
}

func c12ErrClass(err error) string {
	s := err.Error()
	if len(s) > 70 {
		s = s[:70]
	}

	return s
}

func (c *c12Case) exchange(offerer, answerer *PeerConnection, what string) bool {
	_, _, err := rigExchange(offerer, answerer, nil, nil)
	c.step(what, "", err)
	if err != nil {
		c.run.Seen("exchange_errors", c12ErrClass(err))
		c.dead = true

		return false
	}
	if c.remoteSet == 0 && offerer != c.pc {
		c.answeredFirst = true
	}
	c.remoteSet++
	c.remoteSeen = true
	c.noteMids("exchange")
	c.run.Count("exchanges", 1)
	if offerer == c.pc {
		c.pcOffered = true
		c.localNew = false // every transceiver of pc is now known to the peer under its mid
	} else if c.peerDC {
		c.peerDCNeg = true
	}

	return true
}

// peerMutate lets the peer change what its next offer contains: 1-2 of a bare transceiver (any direction), a sending track,
// a data channel.
func (c *c12Case) peerMutate() (what string, ok bool) {
	r := c.r
	dirs := []RTPTransceiverDirection{RTPTransceiverDirectionSendrecv, RTPTransceiverDirectionSendonly, RTPTransceiverDirectionRecvonly}
	var parts []string
	for j, n := 0, r.Range(1, 2); j < n; j++ {
		switch k := r.Intn(10); {
		case k < 5:
			kind, dir := c.kind(), kit.Pick(r, dirs)
			_, err := c.peer.AddTransceiverFromKind(kind, RTPTransceiverInit{Direction: dir})
			c.step("peer.AddTransceiverFromKind", kind.String()+" "+dir.String(), err)
			if err == nil {
				parts = append(parts, dir.String())
			}
		case k < 8:
			tr := c.newTrack(c.kind(), "", 0)
			_, err := c.peer.AddTrack(tr)
			c.step("peer.AddTrack", tr.label(), err)
			if err == nil {
				parts = append(parts, "track")
			}
		default:
			_, err := c.peer.CreateDataChannel(fmt.Sprintf("peerdc%d", len(c.steps)), nil)
			c.step("peer.CreateDataChannel", "", err)
			if err == nil {
				c.peerDC = true
				parts = append(parts, "datachannel")
			}
		}
	}
	sort.Strings(parts)

	return strings.Join(c12Uniq(parts), "+"), len(parts) > 0
}

// peerOffers: the peer changes its side and starts a negotiation that pc answers. Only called while every transceiver of pc
// is known to the peer (!localNew): otherwise the tentative mids CreateOffer handed out on pc may collide with the peer's.
func (c *c12Case) peerOffers(tag string) {
	what, ok := c.peerMutate()
	if !ok {
		return
	}
	if c.exchange(c.peer, c.pc, "exchange(peer offers)") {
		c.run.Seen("ops", "peer offers "+what)
		c.run.Seen("peer_offer_situations", tag)
		c.maybeWaitConnected()
	}
}

// maybeWaitConnected: in 40% of the exchanges the case goes on only after the transports are up and the operations queue of
// pc is drained, i.e. after the negotiated senders of pc were started (their tracks bound); otherwise the next operation
// meets senders that are not started yet or are being started.
func (c *c12Case) maybeWaitConnected() {
	if !c.r.Chance(0.4) {
		return
	}
	if !rigWaitConnected(15*time.Second, c.pc, c.peer) {
		c.run.Count("exchange_not_connected", 1)

		return
	}
	rigDrain(c.pc)
	c.run.Count("exchange_connected", 1)
}

// noteMids records, for every transceiver of pc that carries a mid the harness has not seen on it before, that it got the mid
// through the call named by origin (the harness calls this right after each call that can hand out mids).
func (c *c12Case) noteMids(origin string) {
	if c.midOrigin == nil {
		c.midOrigin = map[*RTPTransceiver]string{}
	}
	for _, t := range c.pc.GetTransceivers() {
		if _, ok := c.midOrigin[t]; !ok && t.Mid() != "" {
			c.midOrigin[t] = origin
		}
	}
}

// offerSituation: evidence about the situation a checked offer was built in (never decides a verdict).
func (c *c12Case) offerSituation(trs []*RTPTransceiver, d *kit.SDPDesc) {
	origins := map[string]bool{}
	for _, t := range trs {
		if o := c.midOrigin[t]; o != "" {
			origins[o] = true
		}
	}
	var os []string
	for o := range origins {
		os = append(os, o)
	}
	sort.Strings(os)
	state := "stable"
	if c.inRemoteOffer {
		state = "have-remote-offer"
		c.run.Count("offers_checked_in_have_remote_offer", 1)
	}
	if c.rolledBack {
		c.run.Count("offers_checked_after_rollback", 1)
	}
	if origins["user"] {
		c.run.Count("offers_checked_with_user_mid", 1)
	}
	remote := "no current remote description"
	if c.pc.CurrentRemoteDescription() != nil {
		remote = "current remote description"
	}
	if (origins["user"] || origins["remote-offer"]) && origins["CreateOffer"] && c.pc.CurrentRemoteDescription() == nil {
		c.run.Count("offers_checked_foreign_and_own_mids_no_remote_description", 1)
	}
	c.run.Seen("mid_origin_situations", state+", "+remote+", mids from "+strings.Join(os, "+"))
	// the application section's mid is not part of the statement; a collision with a transceiver's mid is only counted
	for _, m := range d.Media {
		if m.Kind != "application" {
			continue
		}
		if amid, ok := m.Mid(); ok {
			for _, t := range trs {
				if t.Mid() == amid {
					c.run.Count("model_divergence_application_mid_shared_with_transceiver", 1)
				}
			}
		}
	}
}

// usedMids: every mid the harness can see in use on pc: mids of its transceivers and of all m-sections of its current /
// pending local and remote descriptions.
func (c *c12Case) usedMids() map[string]bool {
	used := map[string]bool{}
	for _, t := range c.pc.GetTransceivers() {
		if m := t.Mid(); m != "" {
			used[m] = true
		}
	}
	for _, sd := range []*SessionDescription{c.pc.CurrentLocalDescription(), c.pc.PendingLocalDescription(), c.pc.CurrentRemoteDescription(), c.pc.PendingRemoteDescription()} {
		if sd == nil {
			continue
		}
		if p, err := kit.ParseSDP(sd.SDP); err == nil {
			for _, m := range p.Media {
				if mid, ok := m.Mid(); ok {
					used[mid] = true
				}
			}
		}
	}

	return used
}

// maybeUserMid: in 15% of the successful AddTrack / AddTransceiverFromKind / AddTransceiverFromTrack calls the application
// assigns the mid of the new transceiver itself (RTPTransceiver.SetMid, legal while the transceiver has no mid), before any
// CreateOffer sees the transceiver: a small number (possibly below, equal to or above the next number CreateOffer would use)
// or a non-numeric token, never a mid that is in use on pc.
func (c *c12Case) maybeUserMid(t *RTPTransceiver) {
	if t == nil || t.Mid() != "" || !c.r.Chance(0.15) {
		return
	}
	used := c.usedMids()
	top := -1
	for m := range used {
		if v, err := strconv.Atoi(m); err == nil && v > top {
			top = v
		}
	}
	var free []string
	class := "numeric"
	if c.r.Chance(0.75) {
		for v := 0; v <= top+3; v++ {
			if !used[strconv.Itoa(v)] {
				free = append(free, strconv.Itoa(v))
			}
		}
	} else {
		class = "non-numeric"
		for _, m := range []string{"a", "v1", "mid-x", "cam"} {
			if !used[m] {
				free = append(free, m)
			}
		}
	}
	if len(free) == 0 {
		return
	}
	mid := kit.Pick(c.r, free)
	err := t.SetMid(mid)
	c.step("SetMid", mid, err)
	if err != nil {
		return
	}
	if c.midOrigin == nil {
		c.midOrigin = map[*RTPTransceiver]string{}
	}
	c.midOrigin[t] = "user"
	c.userMids++
	c.run.Seen("ops", "SetMid "+class)
	rel := "no mid in use yet"
	if v, aerr := strconv.Atoi(mid); aerr == nil && top >= 0 {
		rel = map[bool]string{true: "above every numeric mid in use", false: "below the greatest numeric mid in use"}[v > top]
	} else if aerr != nil {
		rel = "non-numeric"
	}
	c.run.Seen("user_mid_classes", rel)
}

// remoteOfferPending: the peer changes its side and sends an offer; pc applies it (have-remote-offer) and, while it is pending,
// creates offers of its own — right away and after 0-2 local additions (AddTrack / AddTransceiverFrom* / simulcast /
// CreateDataChannel) — which the oracle judges like any other successful CreateOffer. Then the pending offer is either answered
// (the exchange completes) or rolled back on both sides (SetRemoteDescription / SetLocalDescription with type rollback): the
// transceivers pc created for the remote offer stay, with the mids of the remote offer, while there still is no (new) current
// remote description. Only called while every transceiver of pc is known to the peer (!localNew), as peerOffers.
func (c *c12Case) remoteOfferPending(tag string) {
	r := c.r
	what, ok := c.peerMutate()
	if !ok {
		return
	}
	first := map[bool]string{true: "first negotiation", false: "renegotiation"}[c.remoteSet == 0]
	offer, err := rigOffer(c.peer, true)
	if err == nil {
		if err = c.pc.SetRemoteDescription(offer); err != nil {
			err = fmt.Errorf("SetRemoteDescription(offer): %w", err)
		}
	}
	c.step("peer offers, pc.SetRemoteDescription(offer)", what, err)
	if err != nil {
		c.run.Seen("exchange_errors", c12ErrClass(err))
		c.dead = true

		return
	}
	c.remoteSeen, c.inRemoteOffer, c.peerDCPending, c.pendingSeen = true, true, c.peerDC, true
	c.noteMids("remote-offer")
	c.run.Seen("ops", "remote offer pending")
	c.offerAndCheck()
	for j, n := 0, r.Intn(3); j < n; j++ {
		if k := r.Intn(56); k < 47 {
			c.opK(k) // AddTrack, AddTransceiverFromKind, AddTransceiverFromTrack, simulcast
		} else {
			c.opK(70) // CreateDataChannel
		}
		c.offerAndCheck()
	}
	c.inRemoteOffer = false
	if r.Chance(0.55) {
		err = c.pc.SetRemoteDescription(SessionDescription{Type: SDPTypeRollback})
		if err == nil {
			err = c.peer.SetLocalDescription(SessionDescription{Type: SDPTypeRollback})
		}
		c.step("rollback (pc.SetRemoteDescription, peer.SetLocalDescription)", "", err)
		c.peerDCPending = false
		if err != nil {
			c.run.Seen("exchange_errors", c12ErrClass(err))
			c.dead = true

			return
		}
		c.rolledBack = true
		c.run.Seen("remote_offer_resolutions", tag+", "+first+": rolled back")

		return
	}
	answer, err := c.pc.CreateAnswer(nil)
	if err == nil {
		err = c.pc.SetLocalDescription(answer)
	}
	if err == nil && !rigGatherDone(c.pc, 10*time.Second) {
		err = errors.New("gathering watchdog") //nolint:err113
	}
	if err == nil {
		err = c.peer.SetRemoteDescription(*c.pc.LocalDescription())
	}
	c.step("pc answers the pending offer", "", err)
	c.peerDCPending = false
	if err != nil {
		c.run.Seen("exchange_errors", c12ErrClass(err))
		c.dead = true

		return
	}
	if c.remoteSet == 0 {
		c.answeredFirst = true
	}
	c.remoteSet++
	c.noteMids("exchange")
	c.run.Count("exchanges", 1)
	if c.peerDC {
		c.peerDCNeg = true
	}
	c.run.Seen("remote_offer_resolutions", tag+", "+first+": answered")
	c.maybeWaitConnected()
}

func (c *c12Case) op() {
	r := c.r
	pc := c.pc
	k := r.Intn(100)
	if c.remoteSet > 0 && len(pc.GetSenders()) > 0 && r.Chance(0.2) {
		k = 54 // once something was negotiated, ReplaceTrack (a call that "should not require negotiation") gets a larger share
	}
	if !c.localNew && r.Chance(0.08) {
		// an offer of the peer arrives and stays pending for a while; it is answered or rolled back (see remoteOfferPending)
		c.remoteOfferPending("operation")

		return
	}
	c.opK(k)
}

// opK performs the operation of class k (0..99) on pc.
func (c *c12Case) opK(k int) { //nolint:cyclop,gocognit
	r := c.r
	pc := c.pc
	dirs := []RTPTransceiverDirection{RTPTransceiverDirectionSendrecv, RTPTransceiverDirectionSendonly, RTPTransceiverDirectionRecvonly}
	switch {
	case k < 15:
		tr := c.newTrack(c.kind(), "", c12PAnyCodec)
		snd, err := pc.AddTrack(tr)
		c.localNew = true
		c.step("AddTrack", tr.label(), err)
		if err == nil {
			c.attach(snd, tr, "AddTrack")
			c.maybeUserMid(c.transceiverOf(snd))
		}
		c.run.Seen("ops", "AddTrack")
		c.run.Seen("tracks_attached", c.codecClass(tr))
	case k < 28:
		kind, dir := c.kind(), kit.Pick(r, dirs)
		t, err := pc.AddTransceiverFromKind(kind, RTPTransceiverInit{Direction: dir})
		c.localNew = true
		c.step("AddTransceiverFromKind", kind.String()+" "+dir.String(), err)
		if err == nil {
			c.maybeUserMid(t)
		}
		if err == nil && t.Sender() != nil {
			// with a sending direction pion creates a track of its own: its identity is taken once, right after the call
			if made := t.Sender().Track(); made != nil {
				c.attach(t.Sender(), made, "AddTransceiverFromKind")
			}
		}
		c.run.Seen("ops", "AddTransceiverFromKind "+dir.String())
	case k < 39:
		c.localNew = true
		tr := c.newTrack(c.kind(), "", c12PAnyCodec)
		init := RTPTransceiverInit{Direction: kit.Pick(r, dirs[:2])}
		detail := init.Direction.String() + " " + tr.label()
		if r.Chance(0.25) {
			init.SendEncodings = []RTPEncodingParameters{{RTPCodingParameters{SSRC: SSRC(r.Range(1, 1<<30))}}}
			detail += fmt.Sprintf(" ssrc=%d", init.SendEncodings[0].SSRC)
		}
		t, err := pc.AddTransceiverFromTrack(tr, init)
		c.step("AddTransceiverFromTrack", detail, err)
		if err == nil {
			c.attach(t.Sender(), tr, "AddTransceiverFromTrack")
			c.maybeUserMid(t)
		}
		c.run.Seen("tracks_attached", c.codecClass(tr))
		c.run.Seen("ops", "AddTransceiverFromTrack "+init.Direction.String())
	case k < 47:
		c.localNew = true
		// simulcast: base track with a RID, further encodings through AddEncoding
		rids := []string{"q", "h", "f"}[:r.Range(2, 3)]
		base := c.newTrack(RTPCodecTypeVideo, rids[0], c12PAnyCodec)
		t, err := pc.AddTransceiverFromTrack(base, RTPTransceiverInit{Direction: kit.Pick(r, dirs[:2])})
		c.step("AddTransceiverFromTrack(simulcast)", base.label()+" rid="+rids[0], err)
		if err == nil {
			c.attach(t.Sender(), base, "AddTransceiverFromTrack(simulcast)")
			for _, rid := range rids[1:] {
				raw, terr := NewTrackLocalStaticSample(base.Codec(), base.ID(), base.StreamID(), WithRTPStreamID(rid))
				if terr != nil {
					panic(terr)
				}
				tr := &c12Track{TrackLocalStaticSample: raw, mime: base.mime}
				err = t.Sender().AddEncoding(tr)
				c.step("AddEncoding", "rid="+rid, err)
			}
		}
		c.run.Seen("ops", "simulcast")
	case k < 54:
		senders := pc.GetSenders()
		if len(senders) == 0 {
			return
		}
		n := r.Intn(len(senders))
		err := pc.RemoveTrack(senders[n])
		c.step("RemoveTrack", fmt.Sprintf("sender %d of %d", n, len(senders)), err)
		if att := c.attached[senders[n]]; att != nil {
			if err == nil {
				att.track, att.mine, att.lastOp, att.unknown = nil, nil, "RemoveTrack", false
			} else {
				att.lastOp, att.unknown = "RemoveTrack-failed", true // may have stopped the sender half-way: outside the statement
			}
		}
		c.run.Seen("ops", "RemoveTrack")
	case k < 63:
		senders := pc.GetSenders()
		if len(senders) == 0 {
			return
		}
		n := r.Intn(len(senders))
		if r.Chance(0.5) {
			// prefer a sender whose track is bound (transmitting), if there is one
			var live []int
			for j, s := range senders {
				if att := c.attached[s]; att != nil && len(c12Bound(att.track)) > 0 {
					live = append(live, j)
				}
			}
			if len(live) > 0 {
				n = kit.Pick(r, live)
			}
		}
		snd := senders[n]
		var old TrackLocal
		if att := c.attached[snd]; att != nil {
			old = att.track
		}
		wasBound := len(c12Bound(old)) > 0
		situation := "sender not transmitting"
		if wasBound {
			situation = "sender transmitting"
		}
		if t := c.transceiverOf(snd); t != nil && len(c12SenderEncodings(snd)) > 1 {
			situation += " (simulcast)"
		}
		// ReplaceTrack(nil), or a new track: of the sender's kind (any codec of c12Codecs with probability 1/2: negotiated,
		// registered but not negotiated, not registered) or, rarely, of the other kind. Error paths must leave the sender as it was.
		switch j := r.Intn(20); {
		case j < 5:
			err := c.replaceTrack(snd, nil)
			c.step("ReplaceTrack", fmt.Sprintf("sender %d: nil", n), err)
			c.replaced(snd, nil, err, old, wasBound)
			c.run.Seen("ops", "ReplaceTrack nil")
			c.run.Seen("replace_track_outcomes", situation+", nil: "+c12ReplaceOutcome(err))
		default:
			kind := RTPCodecTypeVideo
			if t := c.transceiverOf(snd); t != nil {
				kind = t.Kind()
			}
			what := ""
			if j == 19 {
				kind = map[RTPCodecType]RTPCodecType{RTPCodecTypeVideo: RTPCodecTypeAudio, RTPCodecTypeAudio: RTPCodecTypeVideo}[kind]
				what = "track of the other kind, "
			}
			tr := c.newTrack(kind, "", 0.5)
			err := c.replaceTrack(snd, tr)
			c.step("ReplaceTrack", fmt.Sprintf("sender %d: %s", n, tr.label()), err)
			c.replaced(snd, tr, err, old, wasBound)
			c.run.Seen("ops", "ReplaceTrack track")
			c.run.Seen("replace_track_outcomes", situation+", "+what+c.codecClass(tr)+": "+c12ReplaceOutcome(err))
		}
	case k < 69:
		trs := pc.GetTransceivers()
		if len(trs) == 0 {
			return
		}
		n := r.Intn(len(trs))
		err := trs[n].Stop()
		c.step("Stop", fmt.Sprintf("transceiver %d", n), err)
		if att := c.attached[trs[n].Sender()]; att != nil {
			att.lastOp, att.unknown = "Stop", true // a stopped transceiver never sends again: the statement has nothing to say about its track
		}
		c.run.Seen("ops", "Stop")
	case k < 78:
		_, err := pc.CreateDataChannel(fmt.Sprintf("dc%d", len(c.steps)), nil)
		c.step("CreateDataChannel", "", err)
		if err == nil {
			c.dcCreated = true
		}
		c.run.Seen("ops", "CreateDataChannel")
	case k < 84:
		// configuration change in mid-history: SetConfiguration with the current configuration, in 60% with the option switched on
		// (pion documents that SetConfiguration only ever switches it on, so it is never passed as false once it is true)
		cfg := pc.GetConfiguration()
		if r.Chance(0.6) {
			cfg.AlwaysNegotiateDataChannels = true
		}
		err := pc.SetConfiguration(cfg)
		c.step("SetConfiguration", fmt.Sprintf("AlwaysNegotiateDataChannels=%v", cfg.AlwaysNegotiateDataChannels), err)
		if err == nil && cfg.AlwaysNegotiateDataChannels {
			if !c.always {
				c.run.Seen("ops", fmt.Sprintf("SetConfiguration switches always on (remote descriptions so far: %d)", min(c.remoteSet, 1)))
			}
			c.always = true
		}
		c.run.Seen("ops", "SetConfiguration")
	case k < 94:
		if len(pc.GetTransceivers()) == 0 && !c.dcCreated && !c.always {
			return // an offer without m-sections cannot be applied by the peer (no ICE credentials)
		}
		if !c.exchange(pc, c.peer, "exchange(pc offers)") {
			return
		}
		c.run.Seen("ops", "exchange")
		c.maybeWaitConnected()
	default:
		// the peer adds media / a data channel and offers. If this side holds transceivers the peer has not seen, they are
		// negotiated first so that mids are known to both; otherwise the peer may offer straight away (also as the very first
		// negotiation of the case).
		nothing := len(pc.GetTransceivers()) == 0 && !c.dcCreated && !c.always
		direct := !c.localNew && (nothing || r.Chance(0.6))
		if !direct {
			if nothing {
				return
			}
			if !c.exchange(pc, c.peer, "exchange(pc offers)") {
				return
			}
			c.peerOffers("after pc's offer")

			return
		}
		if c.remoteSet == 0 {
			c.peerOffers("direct, first negotiation")
		} else {
			c.peerOffers("direct, renegotiation")
		}
	}
}

// c12PAnyCodec: probability that a track attached by AddTrack / AddTransceiverFromTrack is of an arbitrary codec of c12Codecs.
const c12PAnyCodec = 0.06

// c12ReplaceOutcome classifies the result of ReplaceTrack by error identity (stable text, part of cause signatures).
func c12ReplaceOutcome(err error) string {
	switch {
	case err == nil:
		return "ok"
	case errors.Is(err, ErrUnsupportedCodec):
		return "failed:unsupported-codec"
	case errors.Is(err, ErrRTPSenderNewTrackHasIncorrectKind):
		return "failed:incorrect-kind"
	case errors.Is(err, ErrRTPSenderNewTrackHasIncorrectEnvelope):
		return "failed:incorrect-envelope"
	default:
		return "failed:other"
	}
}

// replaced updates the monitor's record after snd.ReplaceTrack(tr) returned err. Success: tr is attached. Failure: nothing
// changes ("switching the track" did not happen, the previous track stays the sender's track) — unless the call got half-way
// in a manner the statement does not cover: an unclassified error, or the previous track was transmitting before the call and
// is not any more (it could not be re-bound); then the record is marked unknown and the oracle falls back to Track().
func (c *c12Case) replaced(snd *RTPSender, tr *c12Track, err error, old TrackLocal, wasBound bool) {
	att := c.attached[snd]
	if att == nil {
		c.attach(snd, nil, "")
		att = c.attached[snd]
		att.unknown = true
	}
	out := c12ReplaceOutcome(err)
	if tr == nil {
		att.lastOp = "ReplaceTrack(nil)-" + out
	} else {
		att.lastOp = "ReplaceTrack-" + out
	}
	switch {
	case err == nil && tr == nil:
		att.track, att.mine, att.unknown = nil, nil, false
	case err == nil:
		att.track, att.mine, att.unknown = tr, tr, false
	case out == "failed:other", wasBound && len(c12Bound(old)) == 0:
		att.unknown = true
	}
	switch {
	case att.unknown || snd.Track() == att.track:
		att.divergedAfter = ""
	case att.divergedAfter == "":
		att.divergedAfter = att.lastOp
	}
}

// c12ErrReplacePanicked: ReplaceTrack panicked inside pion (recovered here: the call is synchronous): reported as a
// violation (panic:RTPSender.ReplaceTrack); the history goes on with the sender's record marked unknown.
var c12ErrReplacePanicked = errors.New("ReplaceTrack panicked") //nolint:gochecknoglobals

func (c *c12Case) replaceTrack(snd *RTPSender, tr *c12Track) (err error) {
	defer func() {
		if p := recover(); p != nil {
			c.run.Count("replace_track_panics", 1)
			c.run.Seen("replace_track_panic_values", c12ErrClass(fmt.Errorf("%v", p)))
			err = fmt.Errorf("%w: %v", c12ErrReplacePanicked, p)
			// a panic of the library under a legal history is a violation whatever the property (same rule as the driver's
			// for un-recovered panics); repaired once by fix: 7b7debf (re-bind of "no track" after ReplaceTrack(nil))
			c.violation("panic:RTPSender.ReplaceTrack", fmt.Sprintf("ReplaceTrack panicked inside the library: %v", p), "")
		}
	}()
	if tr == nil {
		return snd.ReplaceTrack(nil)
	}

	return snd.ReplaceTrack(tr)
}

func (c *c12Case) peerEngineDesc() string {
	if len(c.peerDrop) == 0 {
		return "like pc's"
	}
	var ms []string
	for m := range c.peerDrop {
		ms = append(ms, m)
	}
	sort.Strings(ms)

	return "explicit list without " + strings.Join(ms, ", ")
}

func (c *c12Case) transceiverOf(s *RTPSender) *RTPTransceiver {
	for _, t := range c.pc.GetTransceivers() {
		if t.Sender() == s {
			return t
		}
	}

	return nil
}

func TestVerifC12(t *testing.T) {
	run := kit.Start(t, "C12", "case = engine (default / plain / rtx / rtx+flexfec / flexfec) x AlwaysNegotiateDataChannels at construction x peer engine (like pc's / a codec subset) x who starts the first negotiation "+
		"(pc, or the peer with a media-only / data-only / media+data offer that pc answers) x a history of 1-9 operations "+
		"(AddTrack, AddTransceiverFromKind/FromTrack in all directions, simulcast AddEncoding, RemoveTrack, ReplaceTrack on started and not started senders "+
		"(nil / track of a negotiated / registered-but-not-negotiated / unregistered codec / of the other kind: success and every error path), Stop, CreateDataChannel, "+
		"SetConfiguration incl. switching AlwaysNegotiateDataChannels on, complete exchange with a pion peer, peer-initiated offer with transceivers / tracks / data channel, "+
		"direct or after pc's own offer; an offer of the peer left pending on pc (have-remote-offer) during 0-2 local additions and then answered or rolled back; "+
		"application-assigned mids via RTPTransceiver.SetMid on 15% of the new transceivers), CreateOffer checked after every operation (also in have-remote-offer); non-trivial when some checked offer had "+
		">= 2 m-sections and >= 1 sending track; distinct by the operation history")
	defer run.Finish()
	run.Assume("kit.ParseSDP line splitter is the trusted base; state (GetTransceivers, Mid, Kind, Direction, Sender, Track; sender encodings white-box from RTPSender.trackEncodings) is read right after CreateOffer returns, no concurrent mutators")
	run.Assume("the remote side of exchanges is a pion PeerConnection whose MediaEngine is configured like pc's or registers a subset of its codecs")
	run.Assume("which track a sender sends is the monitor's record of the harness's own successful AddTrack/AddTransceiverFrom*/ReplaceTrack/RemoveTrack calls (a failed call changes nothing; a call that fails half-way — unclassified error, previous track no longer bound — makes the record 'unknown' and the oracle falls back to RTPSender.Track())")

	n := kit.N(2000, 30000)
	run.Parallel(n, 16, func(i int) {
		r := run.CaseRand(i)
		c := &c12Case{run: run, idx: i, r: r, eng: kit.Pick(r, c12Engines), always: r.Chance(0.2)}
		c.alwaysInit = c.always
		c.peerFirst = r.Chance(0.3)
		if r.Chance(0.25) {
			// the peer supports only a subset of the codecs: after a negotiation pc has fewer negotiated than registered codecs
			c.peerDrop = map[string]bool{}
			v, a := kit.Pick(r, []string{MimeTypeVP8, MimeTypeH264, ""}), kit.Pick(r, []string{MimeTypeOpus, MimeTypePCMU, ""})
			if v == "" && a == "" {
				v = MimeTypeH264
			}
			for _, m := range []string{v, a} {
				if m != "" {
					c.peerDrop[m] = true
				}
			}
		}
		defer func() {
			if p := recover(); p != nil {
				fmt.Printf("C12: case %d panicked: %v\n  steps: %+v\n", i, p, c.steps)
				run.Inconclusive(fmt.Sprintf("panic: %v", p))
			}
		}()
		var err error
		c.pc, err = rigNewPC(rigOpts{ME: c12BuildEngine(c.eng), Cfg: Configuration{AlwaysNegotiateDataChannels: c.always}, Quiet: true})
		if err != nil {
			run.Inconclusive("new-peerconnection: " + err.Error())

			return
		}
		c.peer, err = rigNewPC(rigOpts{ME: c12BuildEngineWithout(c.eng, c.peerDrop), Quiet: true})
		if err != nil {
			rigClose(c.pc)
			run.Inconclusive("new-peerconnection: " + err.Error())

			return
		}
		defer rigClose(c.pc, c.peer)
		if r.Chance(0.1) {
			c.offerAndCheck() // empty PeerConnection
		}
		if c.peerFirst {
			// first negotiation started by the peer: pc answers before it has made any offer of its own
			if r.Chance(0.4) {
				c.remoteOfferPending("prologue")
			} else {
				c.peerOffers("prologue, first negotiation")
			}
			if !c.dead {
				c.offerAndCheck()
			}
		}
		nOps := r.Range(1, 9)
		for k := 0; k < nOps && !c.dead; k++ {
			c.op()
			if c.dead {
				break
			}
			c.offerAndCheck()
		}
		var hist []string
		for _, s := range c.steps {
			hist = append(hist, s.Op+" "+s.Detail+" "+s.Err)
		}
		run.Case(c.eng.Name+fmt.Sprint(c.alwaysInit, c.peerFirst)+c.peerEngineDesc()+"|"+strings.Join(hist, ";"), c.nontriv)
		run.Seen("engine", c.eng.Name)
		run.Seen("peer_engine", c.peerEngineDesc())
		run.Seen("first_negotiation", map[bool]string{true: "peer offers first", false: "pc offers first / none"}[c.peerFirst])
		if i < 30 && c.nontriv && c.offers >= 3 {
			run.Sample(map[string]any{"case": i, "engine": c.eng.Name, "peer_engine": c.peerEngineDesc(), "always": c.always, "steps": c.steps, "final_state": c.stateDump()})
		}
	})
}
