//go:build !js

package webrtc

import (
	"fmt"
	"hash/fnv"
	"math/big"
	"sort"

	kit "github.com/pion/webrtc/v4/internal/verifkit"
)

// C28 — binding histories.
//
// The property quantifies over "any sequence of samples written to a TrackLocalStaticSample", observed at "the
// bound TrackLocalWriter". A sample track lives longer than one binding: it is added to several PeerConnections
// (broadcast), senders come and go, ReplaceTrack / renegotiation re-binds it. The statement makes no exception
// for any of that, so the timeline and the sequence numbering must hold for every writer that is bound while a
// sample is written, whatever Bind/Unbind calls happened in between.
//
// A history is a list of operations, each executed BEFORE the sample with index At is written:
//   bind   slot  — Bind a fresh context/writer under a new id
//   unbind slot  — Unbind that context
//   rebind slot  — Unbind and immediately Bind again under the same id with a fresh writer (ReplaceTrack-like)
// Slot 0 is the initial binding made before the first sample (samples written before the first Bind are silently
// discarded by the implementation and are outside what the statement describes; they are not generated).

type c28Op struct {
	At   int    `json:"before_sample"`
	Kind string `json:"op"`
	Slot int    `json:"slot"`
}

const c28MaxBound = 4

// c28DrawDrop draws one non-zero PrevDroppedPackets value for a sample of duration d, keeping the single step
// (skip + sample) below 2^32 ticks (see the Assume line of the monitor).
func c28DrawDrop(r *kit.Rand, d int64, rate uint32) uint16 {
	var drop uint16
	switch r.Intn(8) {
	case 0:
		drop = uint16(r.Range(1, 65535))
	case 1:
		drop = uint16(r.Range(100, 2000))
	default:
		drop = uint16(r.Range(1, 12))
	}
	for new(big.Int).Mul(big.NewInt(d), big.NewInt(int64(rate)*int64(drop)+int64(rate))).Cmp(
		new(big.Int).Mul(big.NewInt(1e9), big.NewInt(1<<32-1<<20))) > 0 {
		drop /= 2
	}

	return drop
}

// c28GenHistory draws a binding history for a sequence of n samples. class is a label for the evidence.
func c28GenHistory(r *kit.Rand, n int) (ops []c28Op, class string) {
	if r.Chance(0.3) {
		return nil, "single-binding"
	}
	nEvents := kit.Pick(r, []int{1, 1, 2, 3, 5, 8, 20})
	early := r.Chance(0.5) // binding changes cluster at the start (viewers joining) or spread over the stream
	pos := make([]int, nEvents)
	for k := range pos {
		switch {
		case k == 0 && r.Chance(0.3):
			pos[k] = 0 // second binding before any sample is written (track added to two senders up front)
		case early:
			pos[k] = r.Intn(n/8 + 1)
		default:
			pos[k] = r.Intn(n)
		}
	}
	sort.Ints(pos)

	bound := []int{0}
	next := 1
	sawZero := false
	for _, at := range pos {
		var kind string
		switch {
		case len(bound) == 0:
			kind = "bind"
		case len(bound) >= c28MaxBound:
			kind = kit.Pick(r, []string{"unbind", "rebind"})
		default:
			kind = kit.Pick(r, []string{"bind", "bind", "bind", "unbind", "rebind", "rebind"})
		}
		switch kind {
		case "bind":
			ops = append(ops, c28Op{At: at, Kind: kind, Slot: next})
			bound = append(bound, next)
			next++
		case "unbind":
			k := r.Intn(len(bound))
			ops = append(ops, c28Op{At: at, Kind: kind, Slot: bound[k]})
			bound = append(bound[:k], bound[k+1:]...)
			if len(bound) == 0 {
				sawZero = true
			}
		case "rebind":
			ops = append(ops, c28Op{At: at, Kind: kind, Slot: kit.Pick(r, bound)})
		}
	}
	class = "multi-binding"
	if sawZero {
		class = "multi-binding-with-unbound-gap"
	}

	return ops, class
}

// c28DropsAfterBindingChange makes (with some probability per case) samples shortly after a Bind report dropped
// packets, so that the drop clause is exercised in every binding state and not only by coincidence.
func c28DropsAfterBindingChange(r *kit.Rand, rate uint32, samples []c28Sample, ops []c28Op) {
	if len(ops) == 0 || !r.Chance(0.6) {
		return
	}
	for _, op := range ops {
		if op.Kind == "unbind" || !r.Chance(0.7) {
			continue
		}
		k := op.At + r.Intn(3)
		if k >= len(samples) || samples[k].Drop != 0 {
			continue
		}
		samples[k].Drop = c28DrawDrop(r, samples[k].DurNs, rate)
	}
}

func c28HistHash(ops []c28Op) string {
	h := fnv.New64a()
	for _, o := range ops {
		fmt.Fprintf(h, "%d/%s/%d;", o.At, o.Kind, o.Slot)
	}

	return fmt.Sprintf("%d:%016x", len(ops), h.Sum64())
}
