//go:build !js

package webrtc

// C21, "unaccepted stream" part: Close / GracefulClose must return also when media of an SSRC that nobody on this
// connection accepts has arrived. The SRTP session hands a stream of a new SSRC to whoever calls AcceptStream and its read
// loop waits until somebody does; the connection's acceptors (the processors of undeclared media) are started by the first
// applied answer only. History of a case: the first answer of the victim fails half-way (its own track has a codec the
// offerer does not know: the description is committed, the call returns an error), the application repairs that
// (RemoveTrack) and a second round succeeds; the offerer's descriptions do not announce SSRCs (a remote that identifies
// streams by mid / rid), so its media arrives as undeclared streams. Then the closers run. Found through C30's watchdog
// (inconclusive call-hung:Close there); repaired by a fix: commit, this part keeps the history under C21's own oracle.

import (
	"fmt"
	"runtime"
	"strings"
	"sync"
	"time"

	"github.com/pion/rtp"
	kit "github.com/pion/webrtc/v4/internal/verifkit"
)

func c21StripSSRC(sdp string) string {
	return rigMapLines(sdp, func(line string) []string {
		if strings.HasPrefix(line, "a=ssrc:") || strings.HasPrefix(line, "a=ssrc-group:") {
			return nil
		}

		return []string{line}
	})
}

// c21Unaccepted runs n cases; case indices start at base.
func c21Unaccepted(run *kit.Run, base, n int) { //nolint:gocognit,cyclop,maintidx
	const wd = 20 * time.Second
	run.Parallel(n, 4, func(k int) {
		i := base + k
		if !run.Want(i) {
			return
		}
		r := run.CaseRand(i)
		video := r.Bool()
		declare := r.Chance(0.25)   // control: SSRCs announced as usual
		failFirst := r.Chance(0.75) // control: first answer applies cleanly
		graceful := r.Bool()
		closeBoth := r.Bool()
		packets := 3 + r.Intn(40)
		desc := fmt.Sprintf("unaccepted-stream video=%v ssrc-declared=%v first-answer-fails=%v graceful=%v both=%v", video, declare, failFirst, graceful, closeBoth)

		// offerer: knows exactly one codec of the kind
		me := &MediaEngine{}
		offered, other := RTPCodecCapability{MimeType: MimeTypeVP8, ClockRate: 90000}, RTPCodecCapability{MimeType: MimeTypeVP9, ClockRate: 90000}
		kind, pt := RTPCodecTypeVideo, PayloadType(96)
		if !video {
			offered, other = RTPCodecCapability{MimeType: MimeTypeOpus, ClockRate: 48000, Channels: 2}, RTPCodecCapability{MimeType: MimeTypePCMU, ClockRate: 8000}
			kind, pt = RTPCodecTypeAudio, PayloadType(111)
		}
		if err := me.RegisterCodec(RTPCodecParameters{RTPCodecCapability: offered, PayloadType: pt}, kind); err != nil {
			run.Inconclusive("unaccepted:register")

			return
		}
		o, err := rigNewPC(rigOpts{ME: me})
		if err != nil {
			run.Inconclusive("unaccepted:offerer")

			return
		}
		v, err := rigNewPC(rigOpts{})
		if err != nil {
			rigClose(o)
			run.Inconclusive("unaccepted:victim")

			return
		}
		var closed sync.Once
		cleanup := func() { closed.Do(func() { go rigClose(o, v) }) }
		defer cleanup()
		oTrack, err := NewTrackLocalStaticRTP(offered, "o-track", "o-stream")
		if err != nil {
			run.Inconclusive("unaccepted:track")

			return
		}
		if _, err = o.AddTrack(oTrack); err != nil {
			run.Inconclusive("unaccepted:addtrack")

			return
		}
		var vSender *RTPSender
		if failFirst {
			vTrack, terr := NewTrackLocalStaticSample(other, "v-track", "v-stream")
			if terr != nil {
				run.Inconclusive("unaccepted:vtrack")

				return
			}
			if vSender, err = v.AddTrack(vTrack); err != nil {
				run.Inconclusive("unaccepted:vaddtrack")

				return
			}
		}
		munge := func(s string) string {
			if declare {
				return s
			}

			return c21StripSSRC(s)
		}

		// round 1
		offer, err := rigOffer(o, true)
		if err != nil {
			run.Inconclusive("unaccepted:offer1")

			return
		}
		offer.SDP = munge(offer.SDP)
		firstErr := ""
		if err = v.SetRemoteDescription(offer); err != nil {
			run.Inconclusive("unaccepted:setremote1")

			return
		}
		answer, err := v.CreateAnswer(nil)
		if err != nil {
			run.Inconclusive("unaccepted:answer1")

			return
		}
		if err = v.SetLocalDescription(answer); err != nil {
			firstErr = err.Error()
		}
		if failFirst != (firstErr != "") {
			run.Count("unaccepted_first_answer_outcome_unexpected", 1)
		}
		if v.SignalingState() != SignalingStateStable { // the failed call did not commit: nothing to continue from
			run.Inconclusive("unaccepted:first-answer-not-committed")

			return
		}
		if firstErr == "" {
			if !rigGatherDone(v, 10*time.Second) {
				run.Inconclusive("unaccepted:gather1")

				return
			}
		}
		if ld := v.LocalDescription(); ld != nil {
			answer = *ld
		}
		if err = o.SetRemoteDescription(answer); err != nil {
			run.Inconclusive("unaccepted:offerer-setremote1")

			return
		}

		// the application repairs its side, second round
		if vSender != nil {
			if err = v.RemoveTrack(vSender); err != nil {
				run.Inconclusive("unaccepted:removetrack")

				return
			}
		}
		if _, _, err = rigExchange(o, v, munge, nil); err != nil {
			run.Inconclusive("unaccepted:round2:" + firstN(err.Error(), 40))

			return
		}
		if !rigWaitConnected(wd, o, v) {
			run.Inconclusive("unaccepted:connect-watchdog")

			return
		}

		// media of the offerer's SSRC reaches the victim
		seq := uint16(r.Intn(60000)) //nolint:gosec
		for p := 0; p < packets; p++ {
			_ = oTrack.WriteRTP(&rtp.Packet{
				Header:  rtp.Header{Version: 2, PayloadType: uint8(pt), SequenceNumber: seq + uint16(p), Timestamp: uint32(p) * 3000}, //nolint:gosec
				Payload: []byte{0x10, 0x00, 0x00, byte(p)},
			})
			time.Sleep(time.Millisecond)
		}
		time.Sleep(30 * time.Millisecond)

		// closers
		type ret struct {
			who string
			err error
		}
		done := make(chan ret, 4)
		closer := func(who string, pc *PeerConnection) {
			if graceful {
				done <- ret{who, pc.GracefulClose()}
			} else {
				done <- ret{who, pc.Close()}
			}
		}
		want := 1
		go closer("victim", v)
		if closeBoth {
			want++
			go closer("offerer", o)
		}
		returned := map[string]bool{}
		timeout := time.After(wd)
	wait:
		for len(returned) < want {
			select {
			case x := <-done:
				returned[x.who] = true
			case <-timeout:
				break wait
			}
		}
		run.Count("unaccepted_cases", 1)
		run.Seen("unaccepted_classes", fmt.Sprintf("declared=%v first-answer-error=%v", declare, firstErr != ""))
		if len(returned) == want {
			run.Case(desc, !declare && firstErr != "")

			return
		}
		buf := make([]byte, 4<<20)
		buf = buf[:runtime.Stack(buf, true)]
		parked := ""
		for _, g := range strings.Split(string(buf), "\n\n") {
			if !strings.Contains(g, "(*PeerConnection).close(") {
				continue
			}
			lines := strings.Split(g, "\n")
			for li := 1; li+1 < len(lines); li += 2 { // first pion/webrtc frame of the parked closer
				if strings.Contains(lines[li], "pion/webrtc/v4.(") && !strings.Contains(lines[li], "vf_") {
					parked = strings.TrimPrefix(strings.SplitN(lines[li], "(0x", 2)[0], "github.com/pion/webrtc/v4.")

					break
				}
			}

			break
		}
		if parked == "" {
			run.Inconclusive("unaccepted:closer-not-returned-but-not-parked-in-close")

			return
		}
		who := "victim"
		if !returned["offerer"] && closeBoth && returned["victim"] {
			who = "offerer"
		}
		run.Violation("close-never-returns:parked-in:"+parked+fmt.Sprintf(":ssrc-declared=%v:first-answer-failed=%v", declare, firstErr != ""),
			desc+fmt.Sprintf(": %s's closer did not return within %v; it is parked in %s (first answer error: %q)", who, wd, parked, firstErr), i,
			map[string]any{"video": video, "ssrc_declared": declare, "first_answer_error": firstErr, "graceful": graceful, "close_both": closeBoth, "packets": packets, "goroutines": firstN(string(buf), 20000)})
		run.Case(desc+" => closer hung", true)
	})
}
