package webrtc

import (
	"testing"
	"time"

	kit "github.com/pion/webrtc/v4/internal/verifkit"
)

// TestVerifRigSmoke is a self-test of the shared rig (not a property check).
func TestVerifRigSmoke(t *testing.T) {
	a, b := rigMustPC(rigOpts{}), rigMustPC(rigOpts{})
	defer rigClose(a, b)
	if _, err := a.CreateDataChannel("x", nil); err != nil {
		t.Fatal(err)
	}
	t0 := time.Now()
	offer, answer, err := rigExchange(a, b, nil, nil)
	if err != nil {
		t.Fatal(err)
	}
	if !rigWaitConnected(10*time.Second, a, b) {
		t.Fatalf("not connected: %v %v", a.ConnectionState(), b.ConnectionState())
	}
	t.Logf("connected in %v\n%s\n%s", time.Since(t0), offer.SDP, answer.SDP)
	for i := 0; i < 200; i++ {
		r := kit.NewRand(1, uint64(i))
		g := genRandomOffer(r, genOpts{Unknown: true, AbsentDir: true, PTRemap: i%2 == 0, ExtPermute: true, MidStyle: -1, NoBundle: true, MediaLevelSec: true})
		c := rigMustPC(rigOpts{})
		err := c.SetRemoteDescription(g.Desc(SDPTypeOffer))
		if err != nil {
			t.Logf("gen %d: SetRemoteDescription: %v\n%s", i, err, g.String())
			rigClose(c)

			continue
		}
		ans, err := c.CreateAnswer(nil)
		if err != nil {
			t.Logf("gen %d: CreateAnswer: %v", i, err)
		} else if err = c.SetLocalDescription(ans); err != nil {
			t.Logf("gen %d: SetLocal: %v", i, err)
		}
		if i == 3 {
			t.Logf("sample gen offer:\n%s\nanswer:\n%s", g.String(), ans.SDP)
		}
		rigClose(c)
	}
}
