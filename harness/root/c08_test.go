package webrtc

// C08 — answer directions are legal responses to the offered directions (RFC 3264 §6.1).
//
// Oracle (text only, independent of webrtc's SDP helpers): offer and answer are parsed with kit.ParseSDP, sections are
// paired by a=mid, and the answer section's direction must be in c08Legal[offered direction]. An offer / answer section
// without a direction attribute means sendrecv (RFC 3264 default). Application sections, rejected (port 0) answer
// sections and answer sections whose mid is not in the offer are exempt.
//
// transceiver.Direction() is read only to CLASSIFY a witness (the "local-before" part of the cause signature and the
// evidence triples); it never decides.

import (
	"fmt"
	"sort"
	"strings"
	"sync"
	"testing"
	"time"

	kit "github.com/pion/webrtc/v4/internal/verifkit"
)

// c08Legal is RFC 3264 §6.1 as data: offered direction -> directions an answer may carry.
var c08Legal = map[string]map[string]bool{ //nolint:gochecknoglobals
	"sendonly": {"recvonly": true, "inactive": true},
	"recvonly": {"sendonly": true, "inactive": true},
	"inactive": {"inactive": true},
	"sendrecv": {"sendrecv": true, "sendonly": true, "recvonly": true, "inactive": true},
}

var c08Dirs = []string{"sendrecv", "sendonly", "recvonly", "inactive"} //nolint:gochecknoglobals

// c08SectionDir returns the effective direction of a section ("" when ambiguous: more than one direction attribute).
func c08SectionDir(m *kit.SDPMedia) (dir string, explicit bool) {
	d := m.Directions()
	switch len(d) {
	case 0:
		return "sendrecv", false
	case 1:
		return d[0], true
	default:
		return "", true
	}
}

// c08Local is the classification snapshot of one local transceiver.
type c08Local struct {
	Dir       string
	Mid       string
	HasSender bool
}

func c08Snapshot(pc *PeerConnection) map[*RTPTransceiver]c08Local {
	out := map[*RTPTransceiver]c08Local{}
	for _, t := range pc.GetTransceivers() {
		out[t] = c08Local{Dir: t.Direction().String(), Mid: t.Mid(), HasSender: t.Sender() != nil}
	}

	return out
}

func c08ByMid(pc *PeerConnection) map[string]*RTPTransceiver {
	out := map[string]*RTPTransceiver{}
	for _, t := range pc.GetTransceivers() {
		if m := t.Mid(); m != "" {
			if _, dup := out[m]; !dup {
				out[m] = t
			}
		}
	}

	return out
}

// c08Munge rewrites the direction attribute of every non-application section of a pion-generated offer.
// dirs[i] is the new direction of the i-th RTP section ("" = remove the attribute).
func c08Munge(sdp string, dirs []string) string {
	session, sections := rigSplitSections(sdp)
	k := 0
	for si, sec := range sections {
		if strings.HasPrefix(sec[0], "m=application") {
			continue
		}
		if k >= len(dirs) {
			break
		}
		want := dirs[k]
		k++
		var out []string
		done := false
		for _, ln := range sec {
			switch ln {
			case "a=sendrecv", "a=sendonly", "a=recvonly", "a=inactive":
				if want != "" && !done {
					out = append(out, "a="+want)
					done = true
				}
			default:
				out = append(out, ln)
			}
		}
		if want != "" && !done {
			out = append(out, "a="+want)
		}
		sections[si] = out
	}

	return rigJoinSections(session, sections)
}

func c08RTPSectionCount(sdp string) int {
	_, sections := rigSplitSections(sdp)
	n := 0
	for _, sec := range sections {
		if !strings.HasPrefix(sec[0], "m=application") {
			n++
		}
	}

	return n
}

func c08NewTrack(r *kit.Rand, kind string, n int) TrackLocal {
	mime := MimeTypeVP8
	if kind == "audio" {
		mime = MimeTypeOpus
	}
	tr, err := NewTrackLocalStaticSample(RTPCodecCapability{MimeType: mime}, fmt.Sprintf("c08t%d", n), fmt.Sprintf("c08s%d", r.Intn(3)))
	if err != nil {
		panic(err)
	}

	return tr
}

func c08Kind(kind string) RTPCodecType {
	if kind == "audio" {
		return RTPCodecTypeAudio
	}

	return RTPCodecTypeVideo
}

func c08DirConst(d string) RTPTransceiverDirection {
	switch d {
	case "sendrecv":
		return RTPTransceiverDirectionSendrecv
	case "sendonly":
		return RTPTransceiverDirectionSendonly
	case "recvonly":
		return RTPTransceiverDirectionRecvonly
	default:
		return RTPTransceiverDirectionInactive
	}
}

func c08ErrTag(err error) string {
	if err == nil {
		return ""
	}

	return "!err"
}

// c08Hist is one history: an answerer under test, a remote offerer (pion peer or generator), and the log of what was done.
type c08Hist struct {
	run    *kit.Run
	idx    int
	r      *kit.Rand
	mode   string // "pion" | "gen"
	ans    *PeerConnection
	off    *PeerConnection
	g      *genSDP
	kinds  []string // kinds the random local ops draw from
	absent bool     // may draw "absent direction"
	log    []string
	nTrack int

	prevOffered map[string]string // mid -> offered direction in the previous round ("absent" when the attribute was missing)
	constrained int               // checked sections whose offered direction constrains the answer
	checked     int
	lastOp      string
}

func (h *c08Hist) logf(f string, a ...any) {
	h.log = append(h.log, fmt.Sprintf(f, a...))
}

// localOp performs one local change on the answerer, chosen by op (or randomly when op < 0). Errors returned by the API are
// part of the history (logged), never violations.
func (h *c08Hist) localOp(op int, kind string) string { //nolint:cyclop
	pc := h.ans
	if op < 0 {
		op = h.r.Intn(10)
	}
	if kind == "" {
		kind = kit.Pick(h.r, h.kinds)
	}
	var desc string
	switch op {
	case 0, 1: // AddTrack
		h.nTrack++
		_, err := pc.AddTrack(c08NewTrack(h.r, kind, h.nTrack))
		desc = "AddTrack(" + kind + ")" + c08ErrTag(err)
	case 2: // RemoveTrack
		ss := pc.GetSenders()
		if len(ss) == 0 {
			return ""
		}
		k := h.r.Intn(len(ss))
		err := pc.RemoveTrack(ss[k])
		desc = fmt.Sprintf("RemoveTrack(sender#%d)%s", k, c08ErrTag(err))
	case 3: // ReplaceTrack(nil) / ReplaceTrack(track)
		ss := pc.GetSenders()
		if len(ss) == 0 {
			return ""
		}
		k := h.r.Intn(len(ss))
		if h.r.Chance(0.75) {
			err := ss[k].ReplaceTrack(nil)
			desc = fmt.Sprintf("ReplaceTrack(sender#%d,nil)%s", k, c08ErrTag(err))
		} else {
			skind := "video"
			if tr := ss[k].Track(); tr != nil && tr.Kind() == RTPCodecTypeAudio {
				skind = "audio"
			}
			h.nTrack++
			err := ss[k].ReplaceTrack(c08NewTrack(h.r, skind, h.nTrack))
			desc = fmt.Sprintf("ReplaceTrack(sender#%d,%s)%s", k, skind, c08ErrTag(err))
		}
	case 4, 5: // AddTransceiverFromKind with each direction (inactive is refused by the API; that is logged)
		d := kit.Pick(h.r, c08Dirs)
		_, err := pc.AddTransceiverFromKind(c08Kind(kind), RTPTransceiverInit{Direction: c08DirConst(d)})
		desc = fmt.Sprintf("AddTransceiverFromKind(%s,%s)%s", kind, d, c08ErrTag(err))
	case 6: // AddTransceiverFromTrack
		d := kit.Pick(h.r, []string{"sendrecv", "sendonly"})
		h.nTrack++
		_, err := pc.AddTransceiverFromTrack(c08NewTrack(h.r, kind, h.nTrack), RTPTransceiverInit{Direction: c08DirConst(d)})
		desc = fmt.Sprintf("AddTransceiverFromTrack(%s,%s)%s", kind, d, c08ErrTag(err))
	case 7: // transceiver.Stop
		ts := pc.GetTransceivers()
		if len(ts) == 0 {
			return ""
		}
		k := h.r.Intn(len(ts))
		err := ts[k].Stop()
		desc = fmt.Sprintf("Stop(transceiver#%d mid=%q)%s", k, ts[k].Mid(), c08ErrTag(err))
	default:
		return ""
	}
	h.lastOp = strings.SplitN(desc, "(", 2)[0]
	if strings.HasSuffix(desc, "!err") {
		h.run.Seen("local_ops", h.lastOp+" (refused)")
	} else {
		h.run.Seen("local_ops", h.lastOp)
	}

	return desc
}

// drawDir draws the offered direction of one section for this round.
func (h *c08Hist) drawDir() string {
	if h.absent && h.r.Chance(0.1) {
		return ""
	}

	return kit.Pick(h.r, c08Dirs)
}

// genRedraw prepares the generator's next offer: new directions, new session version, sometimes a new section.
func (h *c08Hist) genRedraw(forced []string, first bool) {
	g := h.g
	if !first {
		g.SessVer++
		if forced == nil && h.r.Chance(0.25) && len(g.Media) < 6 {
			kind := kit.Pick(h.r, []string{"audio", "video"})
			m := &genMedia{
				Kind: kind, Mid: fmt.Sprintf("n%d", len(g.Media)+20), Port: 9, Proto: "UDP/TLS/RTP/SAVPF", Setup: "actpass", RTCPMux: true,
				Dir: "sendrecv",
			}
			if kind == "audio" {
				m.Codecs = genDefaultAudio()
			} else {
				m.Codecs = genDefaultVideo()
			}
			for _, old := range g.Media { // BUNDLE-consistent payload types / extmaps: copy a section of the same kind when there is one
				if old.Kind == kind {
					m.Codecs, m.Exts = old.Codecs, old.Exts
				}
			}
			g.Media = append(g.Media, m)
			h.logf("gen:+section(%s mid=%s)", kind, m.Mid)
		}
	}
	k := 0
	for i, m := range g.Media {
		if m.Kind == "application" {
			continue
		}
		switch {
		case forced != nil && k < len(forced):
			m.Dir = forced[k]
		case !first || forced != nil:
			m.Dir = h.drawDir()
		}
		k++
		if m.Dir == "sendrecv" || m.Dir == "sendonly" || m.Dir == "" {
			if m.Msid == "" && m.Kind != "text" && m.Kind != "message" {
				m.Msid = fmt.Sprintf("gstream%d gtrack%d", i%3, i)
				m.SSRCs = []uint32{uint32(700000 + 10*i)}
				m.FID = false
			}
		} else {
			m.Msid, m.SSRCs, m.FID = "", nil, false
		}
	}
}

type c08Plan struct {
	mode     string
	rounds   int
	forced   [][]string // per round, per RTP section: offered direction; nil = random
	setup    []int      // local ops performed before round 0 (op codes of localOp, kind video); nil = random
	single   bool       // exactly one video section
	connect  bool       // pion mode: wait for the connection after round 0
	localOps bool       // random local ops between rounds
	midOp    bool       // deterministic: AddTrack(video) between SetRemoteDescription(offer) and CreateAnswer, every round
}

// c08Setup op codes for the deterministic grid.
const (
	c08SetupNone = iota
	c08SetupAddTrack
	c08SetupRecvonly
	c08SetupSendonlyTrack
)

var c08SetupNames = []string{"none", "AddTrack", "AddTransceiverFromKind(recvonly)", "AddTransceiverFromTrack(sendonly)"} //nolint:gochecknoglobals

func (h *c08Hist) gridSetup(code int) {
	switch code {
	case c08SetupAddTrack:
		h.nTrack++
		_, err := h.ans.AddTrack(c08NewTrack(h.r, "video", h.nTrack))
		h.logf("AddTrack(video)%s", c08ErrTag(err))
	case c08SetupRecvonly:
		_, err := h.ans.AddTransceiverFromKind(RTPCodecTypeVideo, RTPTransceiverInit{Direction: RTPTransceiverDirectionRecvonly})
		h.logf("AddTransceiverFromKind(video,recvonly)%s", c08ErrTag(err))
	case c08SetupSendonlyTrack:
		h.nTrack++
		_, err := h.ans.AddTransceiverFromTrack(c08NewTrack(h.r, "video", h.nTrack), RTPTransceiverInit{Direction: RTPTransceiverDirectionSendonly})
		h.logf("AddTransceiverFromTrack(video,sendonly)%s", c08ErrTag(err))
	}
}

// c08RunHistory drives one history; it returns false when the history ended early (error of the API / watchdog).
func c08RunHistory(run *kit.Run, idx int, r *kit.Rand, p c08Plan) { //nolint:gocognit,cyclop,maintidx
	h := &c08Hist{run: run, idx: idx, r: r, mode: p.mode, prevOffered: map[string]string{}, kinds: []string{"audio", "video"}}
	if p.single {
		h.kinds = []string{"video"}
	}
	h.ans = rigMustPC(rigOpts{})
	defer func() { rigClose(h.off, h.ans) }()
	h.absent = !p.single && r.Chance(0.2)

	// remote side
	if p.mode == "pion" {
		h.off = rigMustPC(rigOpts{})
		if p.single {
			_, _ = h.off.AddTransceiverFromKind(RTPCodecTypeVideo, RTPTransceiverInit{Direction: RTPTransceiverDirectionSendrecv})
			h.logf("offerer:video/sendrecv")
		} else {
			n := r.Range(1, 3)
			for k := 0; k < n; k++ {
				kind := kit.Pick(r, h.kinds)
				d := kit.Pick(r, []string{"sendrecv", "sendonly", "recvonly"})
				_, _ = h.off.AddTransceiverFromKind(c08Kind(kind), RTPTransceiverInit{Direction: c08DirConst(d)})
				h.logf("offerer:%s/%s", kind, d)
			}
			if r.Chance(0.3) {
				_, _ = h.off.CreateDataChannel("c08", nil)
				h.logf("offerer:datachannel")
			}
		}
	} else {
		o := genOpts{
			MaxSections: 4, Kinds: []string{"audio", "video", "video", "application"}, MidStyle: -1, Dirs: c08Dirs,
			ExtPermute: r.Bool(), PTRemap: r.Chance(0.25), RejectedOK: r.Chance(0.2),
		}
		if h.absent {
			o.Dirs = append(append([]string{}, c08Dirs...), "")
		}
		if p.single {
			o = genOpts{MaxSections: 1, Kinds: []string{"video"}, MidStyle: -1, Dirs: c08Dirs}
		}
		h.g = genRandomOffer(r, o)
		kinds := []string{}
		for _, m := range h.g.Media {
			kinds = append(kinds, m.Kind+":"+m.Mid)
		}
		h.logf("gen:%s", strings.Join(kinds, ","))
	}

	// local set-up of the answerer
	switch {
	case p.setup != nil:
		for _, c := range p.setup {
			h.gridSetup(c)
		}
	default:
		for k := r.Intn(4); k > 0; k-- {
			if d := h.localOp(-1, ""); d != "" {
				h.logf("%s", d)
			}
		}
	}

	for round := 0; round < p.rounds; round++ {
		h.logf("--round %d", round)
		if round > 0 && p.localOps {
			for k := r.Intn(3); k > 0; k-- {
				if d := h.localOp(-1, ""); d != "" {
					h.logf("%s", d)
				}
			}
		}
		var forced []string
		if p.forced != nil && round < len(p.forced) {
			forced = p.forced[round]
		}

		// ---- the remote offer of this round
		var offer SessionDescription
		if p.mode == "pion" {
			if round > 0 && !p.single && r.Chance(0.25) && len(h.off.GetTransceivers()) < 5 {
				kind := kit.Pick(r, h.kinds)
				_, _ = h.off.AddTransceiverFromKind(c08Kind(kind), RTPTransceiverInit{Direction: RTPTransceiverDirectionSendrecv})
				h.logf("offerer:+%s", kind)
			}
			real, err := rigOffer(h.off, true)
			if err != nil {
				if strings.Contains(err.Error(), "watchdog") {
					run.Inconclusive("offerer gathering watchdog")
				} else {
					run.Count("history_ended:offerer_offer_error", 1)
				}

				break
			}
			n := c08RTPSectionCount(real.SDP)
			dirs := make([]string, n)
			for k := range dirs {
				if forced != nil && k < len(forced) {
					dirs[k] = forced[k]
				} else {
					dirs[k] = h.drawDir()
				}
			}
			offer = SessionDescription{Type: SDPTypeOffer, SDP: c08Munge(real.SDP, dirs)}
		} else {
			h.genRedraw(forced, round == 0)
			offer = h.g.Desc(SDPTypeOffer)
		}
		po, err := kit.ParseSDP(offer.SDP)
		if err != nil {
			run.Count("history_ended:offer_unparsable_by_oracle", 1)

			break
		}
		offDirs := []string{}
		for _, m := range po.Media {
			if m.Kind == "application" {
				continue
			}
			d, explicit := c08SectionDir(m)
			if !explicit {
				d = "absent"
			}
			mid, _ := m.Mid()
			offDirs = append(offDirs, mid+"="+d)
			if prev, ok := h.prevOffered[mid]; ok {
				run.Seen("offered_transitions", prev+"->"+d)
				c08Transitions.Store(prev+"->"+d, true)
			} else {
				run.Seen("offered_first", d)
			}
		}
		h.logf("offer[%s]", strings.Join(offDirs, " "))

		// ---- answerer under test
		before := c08Snapshot(h.ans)
		if err = h.ans.SetRemoteDescription(offer); err != nil {
			run.Count("history_ended:SetRemoteDescription_error", 1)
			run.Seen("srd_errors", err.Error())

			break
		}
		afterSRD := map[string]string{}
		assoc := c08ByMid(h.ans)
		for mid, t := range assoc {
			afterSRD[mid] = t.Direction().String()
		}
		// local changes between applying the offer and creating the answer
		changedBy := map[string]string{} // mid -> the local op after the offer that last changed that transceiver's direction
		if p.midOp || (p.localOps && r.Chance(0.3)) {
			nOps := 1
			if !p.midOp {
				nOps = r.Range(1, 2)
			}
			for k := nOps; k > 0; k-- {
				pre := map[string]string{}
				for mid, t := range assoc {
					pre[mid] = t.Direction().String()
				}
				opCode, opKind := -1, ""
				if p.midOp {
					opCode, opKind = 0, "video"
				}
				if d := h.localOp(opCode, opKind); d != "" {
					h.logf("after-offer:%s", d)
					for mid, t := range assoc {
						if t.Direction().String() != pre[mid] {
							changedBy[mid] = h.lastOp
						}
					}
				}
			}
		}
		answer, err := h.ans.CreateAnswer(nil)
		if err != nil {
			run.Count("history_ended:CreateAnswer_error", 1)
			run.Seen("answer_errors", err.Error())

			break
		}

		// ---- oracle (on the answer as created, before it is applied)
		pa, err := kit.ParseSDP(answer.SDP)
		if err != nil {
			run.Count("model_divergence", 1)
			run.Seen("model_divergence_kinds", "answer-unparsable-by-oracle")

			break
		}
		offByMid := map[string]*kit.SDPMedia{}
		for _, m := range po.Media {
			if mid, ok := m.Mid(); ok {
				if _, dup := offByMid[mid]; !dup {
					offByMid[mid] = m
				}
			}
		}
		ansDirs := []string{}
		for _, am := range pa.Media {
			if am.Kind == "application" {
				continue
			}
			if am.Rejected() {
				run.Count("answer_sections_rejected_exempt", 1)

				continue
			}
			mid, ok := am.Mid()
			om := offByMid[mid]
			if !ok || om == nil {
				run.Count("answer_sections_unpaired_exempt", 1)

				continue
			}
			offered, offExplicit := c08SectionDir(om)
			answered, _ := c08SectionDir(am)
			if offered == "" || answered == "" {
				run.Count("model_divergence", 1)
				run.Seen("model_divergence_kinds", "several-direction-attributes")

				continue
			}
			// classification (never decides)
			localBefore := "none"
			if t := assoc[mid]; t != nil {
				if b, ok := before[t]; ok {
					localBefore = b.Dir
					if b.Mid == "" {
						localBefore = "unassociated-" + b.Dir
					}
				}
			}
			offTxt := offered
			if !offExplicit {
				offTxt = "absent"
			}
			h.checked++
			run.Count("sections_checked", 1)
			if offExplicit && offered != "sendrecv" {
				h.constrained++
			}
			run.Seen("triples", fmt.Sprintf("offered=%s local-before=%s answered=%s", offTxt, localBefore, answered))
			ansDirs = append(ansDirs, mid+"="+answered)
			if c08Legal[offered][answered] {
				continue
			}
			sig := fmt.Sprintf("illegal-answer-direction:offered=%s:answered=%s:local-before=%s", offTxt, answered, localBefore)
			if aft, ok := afterSRD[mid]; ok && c08Legal[offered][aft] && changedBy[mid] != "" {
				// the direction was legal right after SetRemoteDescription: the cause is the local change made before CreateAnswer
				sig += ":changed-after-offer-by=" + changedBy[mid]
			}
			run.Violation(sig,
				fmt.Sprintf("%s section mid=%q offered a=%s, answer says a=%s (RFC 3264 §6.1 allows %s); local transceiver direction before the offer: %s; mode=%s round=%d",
					am.Kind, mid, offTxt, answered, c08Allowed(offered), localBefore, p.mode, round),
				idx, map[string]any{
					"mode": p.mode, "round": round, "mid": mid, "offered": offTxt, "answered": answered, "local_before": localBefore,
					"local_after_SetRemoteDescription": afterSRD[mid], "history": append([]string{}, h.log...),
					"offer_section": om.Lines, "answer_section": am.Lines, "offer_sdp": offer.SDP, "answer_sdp": answer.SDP,
				})
		}
		h.logf("answer[%s]", strings.Join(ansDirs, " "))
		// remember offered directions for the transition coverage
		for _, m := range po.Media {
			if m.Kind == "application" {
				continue
			}
			d, explicit := c08SectionDir(m)
			if !explicit {
				d = "absent"
			}
			if mid, ok := m.Mid(); ok {
				h.prevOffered[mid] = d
			}
		}

		if err = h.ans.SetLocalDescription(answer); err != nil {
			run.Count("history_ended:SetLocalDescription_error", 1)
			run.Seen("answer_errors", "SetLocalDescription: "+err.Error())

			break
		}

		// ---- give the answer back to a pion offerer (the property is about the answer text only; errors end the history)
		if p.mode == "pion" {
			back := answer
			if round == 0 {
				if !rigGatherDone(h.ans, 10*time.Second) {
					run.Inconclusive("answerer gathering watchdog")

					break
				}
				back = *h.ans.LocalDescription()
			}
			if err = h.off.SetRemoteDescription(back); err != nil {
				run.Count("history_ended:offerer_rejects_answer", 1)

				break
			}
			if round == 0 && p.connect {
				if !rigWaitConnected(15*time.Second, h.off, h.ans) {
					run.Inconclusive("connect watchdog")
					run.Seen("connect_watchdog_histories", fmt.Sprintf("case %d: %s", idx, strings.Join(h.log, ";")))

					break
				}
				run.Count("histories_connected", 1)
			}
		}
		run.Count("rounds_completed", 1)
	}

	desc := p.mode + "|" + strings.Join(h.log, ";")
	run.Case(desc, h.constrained > 0)
	if h.checked == 0 {
		run.Count("histories_without_checked_section", 1)
	}
	if idx%97 == 5 || idx == 130 {
		run.Sample(map[string]any{"case": idx, "mode": p.mode, "history": h.log})
	}
}

func c08Allowed(offered string) string {
	ks := []string{}
	for k := range c08Legal[offered] {
		ks = append(ks, k)
	}
	sort.Strings(ks)

	return strings.Join(ks, "|")
}

var c08Transitions sync.Map //nolint:gochecknoglobals

const c08Grid = 128 // 2 modes × 4 local set-ups × 4 first offered directions × 4 second offered directions

// c08Grid2: 2 modes × 4 local set-ups × 4 first × 4 second offered directions again, with AddTrack(video) between
// SetRemoteDescription(offer) and CreateAnswer in every round (a local change after the offer was applied).
const c08Grid2 = 128

func TestVerifC08(t *testing.T) {
	run := kit.Start(t, "C08", "histories of an answering PeerConnection: cases 0..127 are the complete grid {pion offerer, generated offerer} × "+
		"{no local transceiver, AddTrack, recvonly transceiver, sendonly transceiver from track} × first offered direction × re-offered direction "+
		"on one video section; the remaining cases are seeded random histories (random local AddTrack / RemoveTrack / ReplaceTrack(nil|track) / "+
		"AddTransceiverFromKind(each direction) / AddTransceiverFromTrack / Stop between and inside offer/answer rounds, 1-4 sections, per-section "+
		"offered direction re-drawn every round by munging a real pion offer or by editing a generated foreign offer). Every answer is compared "+
		"section by section (paired by mid) with the RFC 3264 §6.1 table. A history is non-trivial when at least one checked section was offered "+
		"sendonly / recvonly / inactive (so the table constrains the answer); distinct by its complete op + direction log")
	defer run.Finish()
	run.Assume("kit.ParseSDP line-oriented view is a faithful reading of offer and answer text")
	run.Assume("an m-section without a direction attribute means sendrecv (RFC 3264 §6.1 / RFC 4566 default)")

	rounds := kit.N(4, 8)
	nRandom := kit.N(500, 10000)
	total := c08Grid + c08Grid2 + nRandom
	run.Set("rounds_per_random_history", rounds)
	run.Set("grid_cases", c08Grid)
	run.Set("random_histories", nRandom)

	run.Parallel(total, 16, func(i int) {
		r := run.CaseRand(i)
		if i < c08Grid {
			mode := "pion"
			k := i
			if k >= 64 {
				mode = "gen"
				k -= 64
			}
			setup, d1, d2 := k/16, (k/4)%4, k%4
			run.Seen("grid", fmt.Sprintf("%s/%s", mode, c08SetupNames[setup]))
			c08RunHistory(run, i, r, c08Plan{
				mode: mode, rounds: 2, single: true, setup: []int{setup}, connect: true,
				forced: [][]string{{c08Dirs[d1]}, {c08Dirs[d2]}},
			})

			return
		}
		if i < c08Grid+c08Grid2 {
			mode := "pion"
			k := i - c08Grid
			if k >= 64 {
				mode = "gen"
				k -= 64
			}
			setup, d1, d2 := k/16, (k/4)%4, k%4
			run.Seen("grid", fmt.Sprintf("%s/%s+AddTrack-after-offer", mode, c08SetupNames[setup]))
			c08RunHistory(run, i, r, c08Plan{
				mode: mode, rounds: 2, single: true, setup: []int{setup}, connect: true, midOp: true,
				forced: [][]string{{c08Dirs[d1]}, {c08Dirs[d2]}},
			})

			return
		}
		mode := "pion"
		if r.Chance(0.4) {
			mode = "gen"
		}
		c08RunHistory(run, i, r, c08Plan{mode: mode, rounds: rounds, connect: r.Chance(0.7), localOps: true})
	})

	// coverage floor: all 16 (previous, new) offered-direction transitions must have been exercised in a full run
	if !run.Replaying() {
		missing := []string{}
		for _, a := range c08Dirs {
			for _, b := range c08Dirs {
				if _, ok := c08Transitions.Load(a + "->" + b); !ok {
					missing = append(missing, a+"->"+b)
				}
			}
		}
		run.Set("offered_transitions_missing", missing)
		if len(missing) > 0 {
			run.Inconclusive("offered-direction transitions not all covered")
		}
	}
}
